/* include/hwloc/autogen/config.h.  Generated from config.h.in by configure.  */
/* -*- c -*-
 * Copyright © 2009 CNRS
 * Copyright © 2009-2022 Inria.  All rights reserved.
 * Copyright © 2009-2012 Université Bordeaux
 * Copyright © 2009-2011 Cisco Systems, Inc.  All rights reserved.
 * See COPYING in top-level directory.
 */

/* The configuration file */

#ifndef HWLOC_CONFIG_H
#define HWLOC_CONFIG_H

#define HWLOC_VERSION "3.0.0a1-git"
#define HWLOC_VERSION_MAJOR 3
#define HWLOC_VERSION_MINOR 0
#define HWLOC_VERSION_RELEASE 0
#define HWLOC_VERSION_GREEK "a1"

#define HWLOC_PCI_COMPONENT_BUILTIN 1
/* #undef HWLOC_OPENCL_COMPONENT_BUILTIN */
/* #undef HWLOC_CUDA_COMPONENT_BUILTIN */
/* #undef HWLOC_NVML_COMPONENT_BUILTIN */
/* #undef HWLOC_RSMI_COMPONENT_BUILTIN */
/* #undef HWLOC_LEVELZERO_COMPONENT_BUILTIN */
/* #undef HWLOC_GL_COMPONENT_BUILTIN */
#define HWLOC_XML_LIBXML_COMPONENT_BUILTIN 1

#if (__GNUC__ > 2 || (__GNUC__ == 2 && __GNUC_MINOR__ >= 95))
# define __hwloc_restrict __restrict
#else
# if __STDC_VERSION__ >= 199901L
#  define __hwloc_restrict restrict
# else
#  define __hwloc_restrict
# endif
#endif

/* Note that if we're compiling C++, then just use the "inline"
   keyword, since it's part of C++ */
#if defined(c_plusplus) || defined(__cplusplus)
#  define __hwloc_inline inline
#elif defined(_MSC_VER) || defined(__HP_cc)
#  define __hwloc_inline __inline
#else
#  define __hwloc_inline __inline__
#endif

/*
 * Note: this is public.  We can not assume anything from the compiler used
 * by the application and thus the HWLOC_HAVE_* macros below are not
 * fetched from the autoconf result here. We only automatically use a few
 * well-known easy cases.
 */

/* Some handy constants to make the logic below a little more readable */
#if defined(__cplusplus) && \
    (__GNUC__ > 3 || (__GNUC__ == 3 && __GNUC_MINOR >= 4))
#define GXX_ABOVE_3_4 1
#else
#define GXX_ABOVE_3_4 0
#endif

#if !defined(__cplusplus) && \
    (__GNUC__ > 2 || (__GNUC__ == 2 && __GNUC_MINOR__ >= 95))
#define GCC_ABOVE_2_95 1
#else
#define GCC_ABOVE_2_95 0
#endif

#if !defined(__cplusplus) && \
    (__GNUC__ > 2 || (__GNUC__ == 2 && __GNUC_MINOR__ >= 96))
#define GCC_ABOVE_2_96 1
#else
#define GCC_ABOVE_2_96 0
#endif

#if !defined(__cplusplus) && \
    (__GNUC__ > 3 || (__GNUC__ == 3 && __GNUC_MINOR__ >= 3))
#define GCC_ABOVE_3_3 1
#else
#define GCC_ABOVE_3_3 0
#endif

#if !defined(__cplusplus) &&					\
    (__GNUC__ > 3 || (__GNUC__ == 3 && __GNUC_MINOR__ >= 4))
#define GCC_ABOVE_3_4 1
#else
#define GCC_ABOVE_3_4 0
#endif

/* Maybe before gcc 2.95 too */
#ifdef HWLOC_HAVE_ATTRIBUTE_UNUSED
#define __HWLOC_HAVE_ATTRIBUTE_UNUSED HWLOC_HAVE_ATTRIBUTE_UNUSED 
#elif defined(__GNUC__)
# define __HWLOC_HAVE_ATTRIBUTE_UNUSED (GXX_ABOVE_3_4 || GCC_ABOVE_2_95)
#else
# define __HWLOC_HAVE_ATTRIBUTE_UNUSED 0
#endif
#if __HWLOC_HAVE_ATTRIBUTE_UNUSED
# define __hwloc_attribute_unused __attribute__((__unused__))
#else
# define __hwloc_attribute_unused
#endif

#ifdef HWLOC_HAVE_ATTRIBUTE_MALLOC
#define __HWLOC_HAVE_ATTRIBUTE_MALLOC HWLOC_HAVE_ATTRIBUTE_MALLOC 
#elif defined(__GNUC__)
# define __HWLOC_HAVE_ATTRIBUTE_MALLOC (GXX_ABOVE_3_4 || GCC_ABOVE_2_96)
#else
# define __HWLOC_HAVE_ATTRIBUTE_MALLOC 0
#endif
#if __HWLOC_HAVE_ATTRIBUTE_MALLOC
# define __hwloc_attribute_malloc __attribute__((__malloc__))
#else
# define __hwloc_attribute_malloc
#endif

#ifdef HWLOC_HAVE_ATTRIBUTE_CONST
#define __HWLOC_HAVE_ATTRIBUTE_CONST HWLOC_HAVE_ATTRIBUTE_CONST 
#elif defined(__GNUC__)
# define __HWLOC_HAVE_ATTRIBUTE_CONST (GXX_ABOVE_3_4 || GCC_ABOVE_2_95)
#else
# define __HWLOC_HAVE_ATTRIBUTE_CONST 0
#endif
#if __HWLOC_HAVE_ATTRIBUTE_CONST
# define __hwloc_attribute_const __attribute__((__const__))
#else
# define __hwloc_attribute_const
#endif

#ifdef HWLOC_HAVE_ATTRIBUTE_PURE
#define __HWLOC_HAVE_ATTRIBUTE_PURE HWLOC_HAVE_ATTRIBUTE_PURE 
#elif defined(__GNUC__)
# define __HWLOC_HAVE_ATTRIBUTE_PURE (GXX_ABOVE_3_4 || GCC_ABOVE_2_96)
#else
# define __HWLOC_HAVE_ATTRIBUTE_PURE 0
#endif
#if __HWLOC_HAVE_ATTRIBUTE_PURE
# define __hwloc_attribute_pure __attribute__((__pure__))
#else
# define __hwloc_attribute_pure
#endif

#ifndef __hwloc_attribute_deprecated /* allow the user to disable these warnings by defining this macro to nothing */
#ifdef HWLOC_HAVE_ATTRIBUTE_DEPRECATED
#define __HWLOC_HAVE_ATTRIBUTE_DEPRECATED HWLOC_HAVE_ATTRIBUTE_DEPRECATED 
#elif defined(__GNUC__)
# define __HWLOC_HAVE_ATTRIBUTE_DEPRECATED (GXX_ABOVE_3_4 || GCC_ABOVE_3_3)
#else
# define __HWLOC_HAVE_ATTRIBUTE_DEPRECATED 0
#endif
#if __HWLOC_HAVE_ATTRIBUTE_DEPRECATED
# define __hwloc_attribute_deprecated __attribute__((__deprecated__))
#else
# define __hwloc_attribute_deprecated
#endif
#endif

#ifdef HWLOC_HAVE_ATTRIBUTE_MAY_ALIAS
#define __HWLOC_HAVE_ATTRIBUTE_MAY_ALIAS HWLOC_HAVE_ATTRIBUTE_MAY_ALIAS
#elif defined(__GNUC__)
# define __HWLOC_HAVE_ATTRIBUTE_MAY_ALIAS (GXX_ABOVE_3_4 || GCC_ABOVE_3_3)
#else
# define __HWLOC_HAVE_ATTRIBUTE_MAY_ALIAS 0
#endif
#if __HWLOC_HAVE_ATTRIBUTE_MAY_ALIAS
# define __hwloc_attribute_may_alias __attribute__((__may_alias__))
#else
# define __hwloc_attribute_may_alias
#endif

#ifdef HWLOC_HAVE_ATTRIBUTE_WARN_UNUSED_RESULT
#define __HWLOC_HAVE_ATTRIBUTE_WARN_UNUSED_RESULT HWLOC_HAVE_ATTRIBUTE_WARN_UNUSED_RESULT
#elif defined(__GNUC__)
# define __HWLOC_HAVE_ATTRIBUTE_WARN_UNUSED_RESULT (GXX_ABOVE_3_4 || GCC_ABOVE_3_4)
#else
# define __HWLOC_HAVE_ATTRIBUTE_WARN_UNUSED_RESULT 0
#endif
#if __HWLOC_HAVE_ATTRIBUTE_WARN_UNUSED_RESULT
# define __hwloc_attribute_warn_unused_result __attribute__((__warn_unused_result__))
#else
# define __hwloc_attribute_warn_unused_result
#endif

#ifdef HWLOC_C_HAVE_VISIBILITY
# if HWLOC_C_HAVE_VISIBILITY
#  define HWLOC_DECLSPEC __attribute__((__visibility__("default")))
# else
#  define HWLOC_DECLSPEC
# endif
#else
# define HWLOC_DECLSPEC
#endif

/* Defined to 1 on Linux */
#define HWLOC_LINUX_SYS 1

/* Defined to 1 if the CPU_SET macro works */
#define HWLOC_HAVE_CPU_SET 1

/* Defined to 1 if you have the `windows.h' header. */
/* #undef HWLOC_HAVE_WINDOWS_H */
#define hwloc_pid_t pid_t
#define hwloc_thread_t pthread_t

#ifdef HWLOC_HAVE_WINDOWS_H

#  include <windows.h>
typedef DWORDLONG hwloc_uint64_t;

#else /* HWLOC_HAVE_WINDOWS_H */

#  ifdef hwloc_thread_t
#    include <pthread.h>
#  endif /* hwloc_thread_t */

/* Defined to 1 if you have the <stdint.h> header file. */
#  define HWLOC_HAVE_STDINT_H 1

#  include <unistd.h>
#  ifdef HWLOC_HAVE_STDINT_H
#    include <stdint.h>
#  endif
typedef uint64_t hwloc_uint64_t;

#endif /* HWLOC_HAVE_WINDOWS_H */

/* Whether we need to re-define all the hwloc public symbols or not */
#define HWLOC_SYM_TRANSFORM 0

/* The hwloc symbol prefix */
#define HWLOC_SYM_PREFIX hwloc_

/* The hwloc symbol prefix in all caps */
#define HWLOC_SYM_PREFIX_CAPS HWLOC_

#endif /* HWLOC_CONFIG_H */
