#include <private/internal-components.h>
static const struct hwloc_component * hwloc_static_components[] = {
  &hwloc_noos_component,
  &hwloc_xml_component,
  &hwloc_synthetic_component,
  &hwloc_xml_nolibxml_component,
  &hwloc_linux_component,
  &hwloc_pci_component,
  &hwloc_xml_libxml_component,
  &hwloc_x86_component,
  NULL
};
