// C08 — hwloc_topology_restrict removes exactly what the set excludes, or nothing (DESIGN.md section 4, C08).
// Domain: TopoSpec (with Misc and, through corpus XML, I/O children) x 1..3 consecutive restricts with generated sets and flag words.
// Oracle: before/after snapshots keyed by gp_index (see the rules below); only the stated direction is asserted (pitfall 9.4).
#include "ops.hpp"
#include <functional>

void h_configure(HConfig &cfg) {
  cfg.property = "C08"; cfg.name = "c08_restrict";
  cfg.rule = "case = TopoSpec + 0..3 Misc insertions + 1..3 restrict calls; non-trivial = a successful restrict removed at least one object and kept at least 2 PUs; distinct by hash of the decoded case";
  cfg.head_len = 360; cfg.op_len = 200; cfg.max_ops = 3; cfg.leak_check = true;
}

static void check_restrict(Case &c, hwloc_topology_t t, Draw &d, bool &nontrivial) {
  unsigned long f = d.chance(1, 3) ? 0 : (unsigned long)d.range(0, 31); if (d.chance(1, 20)) f |= 1UL << d.range(5, 20);
  bool bynode = f & HWLOC_RESTRICT_FLAG_BYNODESET;
  std::string how; hwloc_bitmap_t set = gen_set_arg(d, t, bynode, how);
  TSnap b = take_snap(t); std::string dump_before = dump_topology(t);
  errno = 0; int r = hwloc_topology_restrict(t, set, f); int e = errno;
  c.descf("\n | restrict(%s %s, flags=0x%lx)=%d/%d", how.c_str(), bstr(set).c_str(), f, r, r < 0 ? e : 0);
  require_wf(c, t, "after restrict");
  TSnap a = take_snap(t);
  auto inS = [&](unsigned x) { return hwloc_bitmap_isset(set, x) != 0; };
  bool badflags = (f & ~0x1fUL) || (bynode && (f & HWLOC_RESTRICT_FLAG_REMOVE_CPULESS)) || (!bynode && (f & HWLOC_RESTRICT_FLAG_REMOVE_MEMLESS));
  bool hits = false; for (auto x : (bynode ? b.ans : b.acs)) if (inS(x)) hits = true;
  if (badflags || !hits) { CHECK(c, r == -1 && e == EINVAL, "restrict_einval", "inconsistent flags or a set that misses the allowed set must fail with EINVAL: got %d errno %d", r, e); c.cls(badflags ? "fail:bad-flags" : "fail:set-misses-allowed"); }
  if (r < 0) {
    CHECK(c, e == EINVAL, "restrict_errno", "restrict failed with errno %d", e);
    std::string df = first_diff(dump_before, dump_topology(t));
    CHECK(c, df.empty(), "unchanged_on_failure", "failed restrict changed the topology: %s", df.c_str());
    if (!badflags && hits) c.cls("fail:would-remove-everything");
    hwloc_bitmap_free(set); return;
  }
  c.cls("restrict:ok");
  for (int bit = 0; bit < 5; bit++) if (f >> bit & 1) c.cls(strf("flag:0x%x", 1 << bit).c_str());
  // dropped resources
  USet dropc, dropn; const ORec &rb = b.objs[b.root_gp];
  if (!bynode) { for (auto x : rb.ccs) if (!inS(x)) dropc.insert(x); if (f & HWLOC_RESTRICT_FLAG_REMOVE_CPULESS) for (auto &kv : b.objs) if (kv.second.type == HWLOC_OBJ_NUMANODE && minus(kv.second.cs, dropc).empty()) dropn.insert(kv.second.os); }
  else { for (auto x : rb.cns) if (!inS(x)) dropn.insert(x); if (f & HWLOC_RESTRICT_FLAG_REMOVE_MEMLESS) for (auto &kv : b.objs) if (kv.second.type == HWLOC_OBJ_PU && minus(kv.second.ns, dropn).empty()) dropc.insert(kv.second.os); }
  const ORec &ra = a.objs[a.root_gp];
  CHECK(c, a.root_gp == b.root_gp, "root_kept", "root object changed");
  CHECK(c, ra.cs == minus(rb.cs, dropc) && ra.ccs == minus(rb.ccs, dropc) && a.acs == minus(b.acs, dropc), "root_cpusets", "root/allowed cpusets != old minus dropped: cs={%s} ccs={%s} allowed={%s} dropped={%s}", ustr(ra.cs).c_str(), ustr(ra.ccs).c_str(), ustr(a.acs).c_str(), ustr(dropc).c_str());
  CHECK(c, ra.ns == minus(rb.ns, dropn) && ra.cns == minus(rb.cns, dropn) && a.ans == minus(b.ans, dropn), "root_nodesets", "root/allowed nodesets != old minus dropped: ns={%s} expected {%s}", ustr(ra.ns).c_str(), ustr(minus(rb.ns, dropn)).c_str());
  // every survivor is an old object (same gp_index, type, os_index, userdata) whose sets are its old sets minus the dropped resources
  for (auto &kv : a.objs) {
    auto it = b.objs.find(kv.first);
    if (it == b.objs.end()) c.fail("survivor_is_old", "object %s gp%llu appeared", hwloc_obj_type_string(kv.second.type), (unsigned long long)kv.first);
    const ORec &y = kv.second, &x = it->second;
    CHECK(c, x.type == y.type && x.os == y.os, "survivor_identity", "type/os_index of gp%llu changed", (unsigned long long)kv.first);
    CHECK(c, x.userdata == y.userdata, "userdata_stable", "userdata of gp%llu changed", (unsigned long long)kv.first);
    if (x.hassets) CHECK(c, y.cs == minus(x.cs, dropc) && y.ccs == minus(x.ccs, dropc) && y.ns == minus(x.ns, dropn) && y.cns == minus(x.cns, dropn), "survivor_sets",
                         "sets of %s gp%llu != old minus dropped: cs={%s} old={%s} ns={%s} oldns={%s} dropc={%s} dropn={%s}", hwloc_obj_type_string(x.type), (unsigned long long)kv.first, ustr(y.cs).c_str(), ustr(x.cs).c_str(), ustr(y.ns).c_str(), ustr(x.ns).c_str(), ustr(dropc).c_str(), ustr(dropn).c_str());
  }
  unsigned removed = 0, pus_left = 0; bool merged = false, cpuless_created = false, adapt_move = false;
  std::function<bool(uint64_t)> anyleft = [&](uint64_t g) { const ORec &q = b.objs[g]; if ((q.type == HWLOC_OBJ_PU || q.type == HWLOC_OBJ_NUMANODE) && a.objs.count(g)) return true; for (auto ch : q.normal) if (anyleft(ch)) return true; for (auto ch : q.memory) if (anyleft(ch)) return true; return false; };
  for (auto &kv : b.objs) {
    const ORec &x = kv.second; bool surv = a.objs.count(kv.first);
    if (!surv) removed++;
    if (x.type == HWLOC_OBJ_PU) { CHECK(c, surv == !dropc.count(x.os), "pu_survival", "PU P#%u %s although it is %s the dropped set", x.os, surv ? "survives" : "disappears", dropc.count(x.os) ? "in" : "not in"); if (surv) pus_left++; }
    if (x.type == HWLOC_OBJ_NUMANODE) { CHECK(c, surv == !dropn.count(x.os), "numa_survival", "NUMA node P#%u %s unexpectedly (REMOVE_CPULESS=%d)", x.os, surv ? "survives" : "disappears", (int)!!(f & HWLOC_RESTRICT_FLAG_REMOVE_CPULESS)); if (surv && a.objs[kv.first].cs.empty() && !x.cs.empty()) cpuless_created = true; }
    if (is_normal(x.type) && x.type != HWLOC_OBJ_PU && !surv && anyleft(kv.first)) {
      // disappeared although PUs/NUMA nodes remain below: only legitimate as a structural level merge (same rules as at load time)
      enum hwloc_type_filter_e tf; hwloc_topology_get_type_filter(t, x.type, &tf); bool wholelevel = true; for (auto g : b.levels[x.depth]) if (a.objs.count(g)) wholelevel = false;
      // (same rules as at load time: KEEP_STRUCTURE types, and a Die level identical to its Package level is always merged)
      CHECK(c, (tf == HWLOC_TYPE_FILTER_KEEP_STRUCTURE || x.type == HWLOC_OBJ_DIE) && wholelevel, "normal_removed", "%s gp%llu disappeared although PUs/NUMA nodes remain below it and its level was not merged (filter %d, whole level gone %d)", hwloc_obj_type_string(x.type), (unsigned long long)kv.first, (int)tf, (int)wholelevel);
      merged = true;
    }
    if (x.type == HWLOC_OBJ_MISC || is_io(x.type)) {
      bool misc = x.type == HWLOC_OBJ_MISC; uint64_t anc = x.parent_gp;
      while (misc ? b.objs[anc].type == HWLOC_OBJ_MISC : is_io(b.objs[anc].type)) anc = b.objs[anc].parent_gp;
      if (misc && is_io(b.objs[anc].type)) continue;   // Misc below an I/O object follows that object
      bool ancsurv = a.objs.count(anc); unsigned long adapt = misc ? HWLOC_RESTRICT_FLAG_ADAPT_MISC : HWLOC_RESTRICT_FLAG_ADAPT_IO;
      if (ancsurv) CHECK(c, surv, "special_lost", "%s gp%llu lost although its ancestor %s gp%llu survives", hwloc_obj_type_string(x.type), (unsigned long long)kv.first, hwloc_obj_type_string(b.objs[anc].type), (unsigned long long)anc);
      else if (f & adapt) { CHECK(c, surv, "special_adapt", "%s gp%llu lost despite the ADAPT flag", hwloc_obj_type_string(x.type), (unsigned long long)kv.first); adapt_move = true; }
    }
  }
  if (merged) c.cls("level-merge"); if (cpuless_created) c.cls("cpuless-numa-created"); if (adapt_move) c.cls("adapt-move");
  if (removed >= 1 && pus_left >= 2) { nontrivial = true; c.cls("removed-something"); }
  hwloc_bitmap_free(set);
}

void h_run(Case &c) {
  Draw &d = c.head;
  SpecOpts so; so.misc_keep = d.chance(2, 3); so.syn.max_pus = 64; so.gx_num = 1; so.gx_den = 5;
  TopoSpec sp = gen_topospec(d, so);
  if (sp.is_xml && d.chance(1, 2)) { sp.filters[HWLOC_OBJ_PCI_DEVICE] = HWLOC_TYPE_FILTER_KEEP_ALL; sp.filters[HWLOC_OBJ_OS_DEVICE] = HWLOC_TYPE_FILTER_KEEP_ALL; sp.filters[HWLOC_OBJ_BRIDGE] = d.chance(1, 2) ? HWLOC_TYPE_FILTER_KEEP_ALL : HWLOC_TYPE_FILTER_KEEP_IMPORTANT; }
  c.desc(sp.text());
  hwloc_topology_t t; hwloc_topology_init(&t);
  if (apply_spec_and_load(c, t, sp) < 0) { hwloc_topology_destroy(t); c.discard(); }
  int nmisc = d.range(0, 3); for (int i = 0; i < nmisc; i++) { hwloc_obj_t p = sel_obj(d, t); hwloc_obj_t m = hwloc_topology_insert_misc_object(t, p, strf("m%d", i).c_str()); if (m) c.descf(" misc(under %s gp%llu)", hwloc_obj_type_string(p->type), (unsigned long long)p->gp_index); }
  UDMap ud; ud.tag_all(t);
  require_wf(c, t, "after load");
  bool nontrivial = false;
  for (size_t i = 0; i < c.ops.size(); i++) check_restrict(c, t, c.ops[i], nontrivial);
  if (c.ops.size() >= 2) c.cls("repeated-restrict");
  if (nontrivial) c.nontrivial();
  hwloc_topology_destroy(t);
}

bool h_named(const std::string &name, Case &c) {
  if (name == "F-C08-a") {   // CPU-less sibling Groups reversed by a restrict that only touches complete cpusets
    c.desc("xml 16amd64-8n2c-cpusets.xml; restrict({0-6,8-10,12-15}, 0)");
    hwloc_topology_t t; hwloc_topology_init(&t); hwloc_topology_set_xml(t, (std::string(verif_repo()) + "/tests/hwloc/xml/16amd64-8n2c-cpusets.xml").c_str());
    CHECK(c, hwloc_topology_load(t) == 0, "named_setup", "load failed"); require_wf(c, t, "load");
    hwloc_bitmap_t s = hwloc_bitmap_alloc(); hwloc_bitmap_list_sscanf(s, "0-6,8-10,12-15"); int r = hwloc_topology_restrict(t, s, 0); hwloc_bitmap_free(s);
    CHECK(c, r == 0, "named_setup", "restrict returned %d", r); require_wf(c, t, "after restrict"); hwloc_topology_destroy(t); return true;
  }
  if (name == "F-C08-b") {   // restrict by nodeset left a childless CPU-less Core (removed by an XML reload)
    c.desc("pack:2 core:2 [numa] pu:1; restrict(cpuset {0-1}) keeps the CPU-less Cores of Package 1 (they own NUMA nodes); restrict(BYNODESET {0,1}) removes their nodes");
    hwloc_topology_t t; hwloc_topology_init(&t); hwloc_topology_set_synthetic(t, "pack:2 [numa] core:2 [numa] pu:1"); CHECK(c, hwloc_topology_load(t) == 0, "named_setup", "load failed");
    hwloc_bitmap_t s = hwloc_bitmap_alloc(); hwloc_bitmap_list_sscanf(s, "0-1"); CHECK(c, hwloc_topology_restrict(t, s, 0) == 0, "named_setup", "first restrict failed");
    // keep Package 1's own node and the nodes of the surviving cores; drop the nodes local to the CPU-less cores
    hwloc_bitmap_zero(s); for (hwloc_obj_t n = NULL; (n = hwloc_get_next_obj_by_type(t, HWLOC_OBJ_NUMANODE, n));) if (!(hwloc_bitmap_iszero(n->cpuset) && n->parent->type == HWLOC_OBJ_CORE)) hwloc_bitmap_set(s, n->os_index);
    CHECK(c, hwloc_topology_restrict(t, s, HWLOC_RESTRICT_FLAG_BYNODESET) == 0, "named_setup", "second restrict failed"); hwloc_bitmap_free(s); require_wf(c, t, "after restricts");
    for (auto o : all_objs(t)) if (is_normal(o->type) && o->type != HWLOC_OBJ_PU) CHECK(c, o->first_child || o->memory_first_child, "normal_childless", "%s gp%llu is left without PU and without NUMA node below it", hwloc_obj_type_string(o->type), (unsigned long long)o->gp_index);
    hwloc_topology_destroy(t); return true;
  }
  return false;
}
