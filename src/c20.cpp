// C20 — command-line tools compute what the library API defines (DESIGN.md section 4, C20).
// The tools (hwloc-calc, hwloc-distrib, hwloc-diff, hwloc-patch, lstopo-no-graphics) are built from /repo/utils with the same sanitizers
// against the sanitized library; every generated command line is one subprocess (stdin /dev/null, 30 s wall limit).
// Domain: topology given as -i "<synthetic>" (grammar of topogen.hpp) or -i <corpus XML>  x  command lines over the documented grammars:
//   hwloc-calc  : 1..5 location tokens  [~x^]? ( all | root | TYPE:RANGE(.TYPE:RANGE){0,2} | cpuset string in the chosen input format )
//                 RANGE in { N, N-M, N-, N:W (wrapping), all, odd, even };  --cof/--cif hwloc|list|taskset, --taskset, -n, --largest, -N, -I, --single, --sep
//   lstopo      : --of xml | synthetic     hwloc-diff + hwloc-patch : A, B = A + info edits     hwloc-distrib : N [--single] [--taskset] [--reverse]
//   malformed   : unknown option, missing option value, unreadable input, bad type / range / garbage tokens
// Oracle: a reference interpreter of the location grammar written from hwloc(7) ("indexes in chained tuples are relative to the scope of
//   the parent object", wrapping ranges, ~ x ^ prefixes) over the object sets of the same topology loaded through the library; the
//   printed set must parse (in the requested format) to exactly that set; metamorphic relations that need no reference (three output formats
//   denote one set, --largest fed back gives the same set, -N = number of entries of -I = objects intersecting the set, --single = singlify);
//   lstopo's XML/synthetic stdout is byte-identical to the library export of a topology loaded with lstopo's documented defaults and reloads
//   to an equal topology; hwloc-patch(A, hwloc-diff(A,B)) loads to B; hwloc-distrib prints exactly what hwloc_distrib() returns, N non-empty
//   subsets of the root cpuset; no tool dies from a signal or sanitizer report; unknown options, missing values and unreadable inputs exit != 0.
#include "topogen.hpp"
#include <sys/wait.h>
#include <sys/stat.h>
#include <fcntl.h>
#include <unistd.h>
#include <poll.h>
#include <signal.h>
#include <climits>

void h_configure(HConfig &cfg) {
  cfg.property = "C20"; cfg.name = "c20_tools";
  cfg.rule = "case = input topology (synthetic or corpus XML) + one tool scenario (hwloc-calc locations and output options / lstopo export / hwloc-diff+patch / hwloc-distrib / malformed arguments); non-trivial = a hwloc-calc command line with at least 2 location tokens, a hierarchical token or an output-conversion option, or any lstopo/diff-patch/distrib scenario whose tool output was compared with the library; distinct by hash of the decoded case";
  cfg.head_len = 400; cfg.op_len = 24; cfg.max_ops = 5; cfg.leak_check = true; cfg.cpu_limit_s = 120; cfg.hang_is_violation = true;
}

static std::string g_tools;
void h_init_parent() { const char *t = getenv("VERIF_TOOLS_DIR"); if (!t) { fprintf(stderr, "c20: VERIF_TOOLS_DIR is not set\n"); exit(2); } g_tools = t; setenv("HWLOC_DONT_ADD_VERSION_INFO", "1", 1); setenv("HWLOC_HIDE_ERRORS", "2", 1); }

struct Run { int rc = -1; int sig = 0; bool timeout = false; std::string out, err; };
static Run run_tool(Case &c, const std::string &tool, const std::vector<std::string> &args, const std::string *stdin_text = nullptr) {
  Run r; int po[2], pe[2]; if (pipe(po) || pipe(pe)) c.fail("harness", "pipe failed");
  std::string cmdline = tool; for (auto &a : args) cmdline += " " + qstr(a.c_str()); c.attempt(cmdline);
  pid_t pid = fork(); if (pid < 0) c.fail("harness", "fork failed");
  if (pid == 0) {
    int nul = open("/dev/null", O_RDONLY); if (stdin_text) { std::string ip = std::string(h_workdir()) + strf("/c20.stdin.%d", (int)getpid()); int wf = open(ip.c_str(), O_WRONLY | O_CREAT | O_TRUNC, 0600); if (wf >= 0) { if (write(wf, stdin_text->data(), stdin_text->size()) < 0) _exit(126); close(wf); } nul = open(ip.c_str(), O_RDONLY); unlink(ip.c_str()); } dup2(nul, 0); dup2(po[1], 1); dup2(pe[1], 2); close(po[0]); close(pe[0]);
    setenv("ASAN_OPTIONS", "exitcode=42:detect_leaks=0:abort_on_error=0:allocator_may_return_null=1:symbolize=1:external_symbolizer_path=/usr/bin/llvm-symbolizer-14", 1);
    setenv("UBSAN_OPTIONS", "print_stacktrace=1:halt_on_error=1:exitcode=43:external_symbolizer_path=/usr/bin/llvm-symbolizer-14", 1);
    { std::string cw = std::string(h_workdir()) + "/cwd"; mkdir(cw.c_str(), 0700); if (chdir(cw.c_str()) != 0) _exit(125); }   // an empty directory: "-i <synthetic>" names a file when one exists under that name
    std::vector<char *> av; std::string path = g_tools + "/" + tool; av.push_back((char *)path.c_str()); for (auto &a : args) av.push_back((char *)a.c_str()); av.push_back(NULL);
    execv(path.c_str(), av.data()); _exit(127);
  }
  close(po[1]); close(pe[1]); struct pollfd fds[2] = {{po[0], POLLIN, 0}, {pe[0], POLLIN, 0}}; int open_fds = 2; time_t t0 = time(NULL);
  while (open_fds > 0) {
    if (time(NULL) - t0 > 30) { kill(pid, SIGKILL); r.timeout = true; break; }
    int pr = poll(fds, 2, 1000); if (pr <= 0) continue;
    for (int i = 0; i < 2; i++) if (fds[i].fd >= 0 && (fds[i].revents & (POLLIN | POLLHUP))) { char buf[65536]; ssize_t n = read(fds[i].fd, buf, sizeof buf); if (n > 0) { std::string &dst = i == 0 ? r.out : r.err; if (dst.size() < (64u << 20)) dst.append(buf, n); } else { close(fds[i].fd); fds[i].fd = -1; open_fds--; } }
  }
  for (int i = 0; i < 2; i++) if (fds[i].fd >= 0) close(fds[i].fd);
  int st = 0; waitpid(pid, &st, 0); if (WIFEXITED(st)) r.rc = WEXITSTATUS(st); else if (WIFSIGNALED(st)) r.sig = WTERMSIG(st);
  // no tool may die from a signal, a sanitizer report or hang, whatever the arguments
  CHECK(c, !r.timeout, "tool_hang", "%s did not finish within 30 s", cmdline.c_str());
  bool san = r.rc == 42 || r.rc == 43 || r.err.find("ERROR: AddressSanitizer") != std::string::npos || r.err.find("runtime error:") != std::string::npos || r.err.find("Assertion `") != std::string::npos;
  if (san || r.sig) { size_t p = r.err.find("ERROR: AddressSanitizer"); if (p == std::string::npos) p = r.err.find("runtime error:"); if (p == std::string::npos) p = r.err.find("Assertion `"); if (p == std::string::npos) p = 0; else p = p > 200 ? p - 200 : 0;
    c.fail("tool_crash", "%s died (exit %d signal %d): %s", cmdline.c_str(), r.rc, r.sig, r.err.substr(p, 2500).c_str()); }
  CHECK(c, r.rc != 127, "harness", "cannot execute %s", tool.c_str());
  return r;
}
static std::string first_line(const std::string &s) { size_t e = s.find('\n'); return e == std::string::npos ? s : s.substr(0, e); }

// ---------------------------------------------------------------------------------------------------------------------------------
struct Input { std::vector<std::string> args; std::string text; hwloc_topology_t t; };
// the topology as hwloc-calc loads it: all types kept, IMPORT_SUPPORT
static hwloc_topology_t load_like(Case &c, const Input &in, int io_filter /* -1: keep all; else the I/O filter */, bool default_filters, unsigned long flags) {
  hwloc_topology_t t; hwloc_topology_init(&t); hwloc_topology_set_flags(t, flags);
  if (!default_filters) { hwloc_topology_set_all_types_filter(t, HWLOC_TYPE_FILTER_KEEP_ALL); if (io_filter >= 0) hwloc_topology_set_io_types_filter(t, (enum hwloc_type_filter_e)io_filter); }
  int r = in.args[1].find(".xml") != std::string::npos ? hwloc_topology_set_xml(t, in.args[1].c_str()) : hwloc_topology_set_synthetic(t, in.args[1].c_str());
  CHECK(c, r == 0 && hwloc_topology_load(t) == 0, "harness", "the library cannot load %s", in.text.c_str());
  return t;
}
static Input gen_input(Case &c, Draw &d) {
  Input in; auto files = corpus_xml_files();
  if (!files.empty() && d.chance(1, 4)) { std::string f = d.pick(files); in.args = {"-i", f}; in.text = "xml=" + f.substr(f.rfind('/') + 1); }
  else { SynOpts so; so.max_pus = 64; std::string s = gen_synthetic(d, so); in.args = {"-i", s}; in.text = "synthetic=\"" + s + "\""; }
  c.desc(in.text); return in;
}

// ---------------------------------------------------------------------------------------------------------------------------------
// reference interpreter of the location grammar (hwloc(7), "Location Specification")
struct Level { hwloc_obj_type_t type; int depth; };
static std::vector<hwloc_obj_t> level_objs_inside(hwloc_topology_t t, const Level &lv, hwloc_obj_t parent) {
  std::vector<hwloc_obj_t> v; hwloc_obj_t o = NULL;
  while ((o = hwloc_get_next_obj_by_depth(t, lv.depth, o)) != NULL) {
    if (hwloc_bitmap_iszero(o->cpuset) && hwloc_bitmap_iszero(o->nodeset)) continue;
    if (parent) {   // "relative to the scope of the parent object": the object's locality lies inside the parent's; a CPU-less object (NUMA node left without CPUs by a restrict) is located by its nodeset
      if (!hwloc_bitmap_iszero(o->cpuset)) { if (!hwloc_bitmap_isincluded(o->cpuset, parent->cpuset)) continue; }
      else if (!hwloc_bitmap_isincluded(o->nodeset, parent->nodeset)) continue; }
    v.push_back(o);
  }
  return v;
}
struct Range { int kind; int a, b; std::string text; };
static Range gen_range(Draw &d, unsigned width) {
  Range r; r.kind = d.range(0, 6); r.a = (int)(d.raw() % width); r.b = 0;
  switch (r.kind) {
  case 0: r.text = strf("%d", r.a); break;
  case 1: r.b = r.a + (int)(d.raw() % (width - r.a)); r.text = strf("%d-%d", r.a, r.b); break;
  case 2: r.text = strf("%d-", r.a); break;
  case 3: r.b = 1 + (int)(d.raw() % (width + 2)); r.text = strf("%d:%d", r.a, r.b); break;
  case 4: r.text = "all"; break;
  case 5: r.text = "odd"; break;
  default: r.text = "even"; break;
  }
  return r;
}
static std::vector<unsigned> range_indexes(const Range &r, unsigned width) {
  std::vector<unsigned> v;
  switch (r.kind) {
  case 0: if ((unsigned)r.a < width) v.push_back(r.a); break;
  case 1: for (int i = r.a; i <= r.b; i++) if ((unsigned)i < width) v.push_back(i); break;
  case 2: for (unsigned i = r.a; i < width; i++) v.push_back(i); break;
  case 3: for (int j = 0; j < r.b; j++) v.push_back((unsigned)(r.a + j) % width); break;     // "y objects starting from index x (wrapping around the end of the index range if needed)"
  case 4: for (unsigned i = 0; i < width; i++) v.push_back(i); break;
  case 5: for (unsigned i = 1; i < width; i += 2) v.push_back(i); break;
  default: for (unsigned i = 0; i < width; i += 2) v.push_back(i); break;
  }
  return v;
}
static std::vector<Level> usable_levels(hwloc_topology_t t, bool with_numa) {
  std::vector<Level> v; int depth = hwloc_topology_get_depth(t);
  for (int dd = 0; dd < depth; dd++) { hwloc_obj_type_t ty = hwloc_get_depth_type(t, dd); if (hwloc_get_type_depth(t, ty) == dd) v.push_back({ty, dd}); }   // types present at a single depth
  if (with_numa) v.push_back({HWLOC_OBJ_NUMANODE, HWLOC_TYPE_DEPTH_NUMANODE});
  return v;
}
// one object token: returns the text and ORs the sets of the designated objects into cs/ns
static std::string gen_object_token(Draw &d, hwloc_topology_t t, hwloc_bitmap_t cs, hwloc_bitmap_t ns, bool &hier) {
  auto lv = usable_levels(t, true); hier = false;
  size_t i0 = d.raw() % lv.size(); int nest = lv[i0].depth >= 0 ? (d.chance(1, 2) ? d.range(1, 2) : 0) : 0;
  std::vector<hwloc_obj_t> cur = {NULL}; std::string text; size_t li = i0;
  for (int k = 0; k <= nest; k++) {
    if (k > 0) { std::vector<size_t> deeper; for (size_t j = 0; j < lv.size(); j++) { if (lv[j].depth > lv[li].depth) { bool cpuless = false; for (hwloc_obj_t o = NULL; (o = hwloc_get_next_obj_by_depth(t, lv[j].depth, o));) if (hwloc_bitmap_iszero(o->cpuset) && !hwloc_bitmap_iszero(o->nodeset)) cpuless = true; if (!cpuless) deeper.push_back(j); }   // (CPU-less normal objects carry inherited nodes: "inside" is then ambiguous, pitfall 9.34)
        // NUMA nodes below a normal level: when every node with CPUs lies inside one object of that level or misses it entirely (nodes attached at or below that level); CPU-less nodes are located by their nodeset
        else if (lv[j].depth == HWLOC_TYPE_DEPTH_NUMANODE && lv[li].depth >= 0) { bool clean = true; for (hwloc_obj_t n = NULL; (n = hwloc_get_next_obj_by_depth(t, HWLOC_TYPE_DEPTH_NUMANODE, n));) for (hwloc_obj_t p = NULL; (p = hwloc_get_next_obj_by_depth(t, lv[li].depth, p));) if (!hwloc_bitmap_iszero(n->cpuset) && hwloc_bitmap_intersects(n->cpuset, p->cpuset) && !hwloc_bitmap_isincluded(n->cpuset, p->cpuset)) clean = false; if (clean && k == nest) deeper.push_back(j); } }
      if (deeper.empty()) break; li = deeper[d.raw() % deeper.size()]; text += "."; hier = true; }
    // the range is generated against the narrowest scope so that every index exists under every parent (non-existing indexes are skipped by the tool with a message: malformed class)
    unsigned width = UINT_MAX; for (auto p : cur) { unsigned w = (unsigned)level_objs_inside(t, lv[li], p).size(); if (w < width) width = w; }
    if (width == 0 || width == UINT_MAX) { if (k == 0) width = 1; else { text.pop_back(); if (k == 1) hier = false; break; } }
    Range r = gen_range(d, width); std::string tn = hwloc_obj_type_string(lv[li].type); if (d.chance(1, 3)) for (auto &ch : tn) ch = (char)tolower(ch);
    text += tn + ":" + r.text;
    std::vector<hwloc_obj_t> next; for (auto p : cur) { auto objs = level_objs_inside(t, lv[li], p); for (unsigned ix : range_indexes(r, (unsigned)objs.size())) next.push_back(objs[ix]); }
    cur = next; if (cur.empty()) break;
  }
  for (auto o : cur) if (o) { hwloc_bitmap_or(cs, cs, o->cpuset); hwloc_bitmap_or(ns, ns, o->nodeset); }
  return text;
}
static std::string fmt_set(int fmt, hwloc_const_bitmap_t b) { char *s = NULL; if (fmt == 0) hwloc_bitmap_asprintf(&s, b); else if (fmt == 1) hwloc_bitmap_list_asprintf(&s, b); else hwloc_bitmap_taskset_asprintf(&s, b); std::string r = s ? s : ""; free(s); return r; }
static bool parse_set(int fmt, const std::string &s, hwloc_bitmap_t b) { if (fmt == 1 && s.empty()) { hwloc_bitmap_zero(b); return true; } int r = fmt == 0 ? hwloc_bitmap_sscanf(b, s.c_str()) : fmt == 1 ? hwloc_bitmap_list_sscanf(b, s.c_str()) : hwloc_bitmap_taskset_sscanf(b, s.c_str()); return r == 0; }
static const char *fmt_name[] = {"hwloc", "list", "taskset"};

static void scenario_calc(Case &c, Draw &d) {
  Input in = gen_input(c, d); hwloc_topology_t t = load_like(c, in, -1, false, HWLOC_TOPOLOGY_FLAG_IMPORT_SUPPORT);
  // one command line in four restricts the topology first (default restrict flags: NUMA nodes that lose their CPUs stay, CPU-less)
  if (d.chance(1, 4)) { hwloc_bitmap_t rs = gen_subset(d, hwloc_topology_get_topology_cpuset(t), 2, 3); if (hwloc_bitmap_iszero(rs)) hwloc_bitmap_set(rs, hwloc_bitmap_first(hwloc_topology_get_topology_cpuset(t))); std::string rtxt = fmt_set(0, rs);
    CHECK(c, hwloc_topology_restrict(t, rs, 0) == 0, "harness", "the library cannot restrict to %s", rtxt.c_str()); in.args.push_back("--restrict"); in.args.push_back(rtxt); c.descf(" --restrict %s", rtxt.c_str()); c.cls("calc:restricted-topology"); hwloc_bitmap_free(rs);
    for (hwloc_obj_t n = NULL; (n = hwloc_get_next_obj_by_type(t, HWLOC_OBJ_NUMANODE, n));) if (hwloc_bitmap_iszero(n->cpuset)) { c.cls("calc:cpuless-numa-node"); break; } }
  bool nodesets = d.chance(1, 5); int cif = d.chance(1, 3) ? d.range(0, 2) : 0; int cof = d.chance(1, 2) ? d.range(0, 2) : 0;
  hwloc_const_bitmap_t universe = nodesets ? hwloc_topology_get_topology_nodeset(t) : hwloc_topology_get_topology_cpuset(t);
  hwloc_bitmap_t E = hwloc_bitmap_alloc(); std::vector<std::string> toks, plain_toks; std::vector<hwloc_bitmap_t> plain_sets; bool anyhier = false; size_t ntok = c.ops.empty() ? 1 : c.ops.size();
  for (size_t i = 0; i < ntok; i++) {
    Draw od = c.ops.empty() ? d : c.ops[i]; hwloc_bitmap_t cs = hwloc_bitmap_alloc(), ns = hwloc_bitmap_alloc(); std::string text; int kind = od.range(0, 9);
    if (kind == 0) { text = od.chance(1, 2) ? "all" : "root"; hwloc_bitmap_copy(cs, hwloc_get_root_obj(t)->cpuset); hwloc_bitmap_copy(ns, hwloc_get_root_obj(t)->nodeset); }
    else if (kind <= 2) { hwloc_bitmap_t s = gen_subset(od, universe, 1, 2); text = fmt_set(cif, s); if (cif == 1 && text.empty()) { text = "all"; hwloc_bitmap_copy(s, nodesets ? hwloc_get_root_obj(t)->nodeset : hwloc_get_root_obj(t)->cpuset); }   // (an empty list string is not a location)
      hwloc_bitmap_copy(nodesets ? ns : cs, s); if (text == "all") { hwloc_bitmap_copy(cs, hwloc_get_root_obj(t)->cpuset); hwloc_bitmap_copy(ns, hwloc_get_root_obj(t)->nodeset); } hwloc_bitmap_free(s); }
    else { bool hier = false; text = gen_object_token(od, t, cs, ns, hier); if (hier) anyhier = true; }
    static const char pfx[] = {0, 0, 0, '~', 'x', '^'}; char p = i == 0 && od.chance(3, 4) ? 0 : pfx[od.range(0, 5)];
    hwloc_const_bitmap_t s = nodesets ? ns : cs;
    if (p == '~') hwloc_bitmap_andnot(E, E, s); else if (p == 'x') hwloc_bitmap_and(E, E, s); else if (p == '^') hwloc_bitmap_xor(E, E, s); else hwloc_bitmap_or(E, E, s);
    toks.push_back(p ? std::string(1, p) + text : text); plain_toks.push_back(text); plain_sets.push_back(hwloc_bitmap_dup(s)); hwloc_bitmap_free(cs); hwloc_bitmap_free(ns);
  }
  std::vector<std::string> base = in.args; if (nodesets) base.push_back("-n"); if (cif) { base.push_back("--cif"); base.push_back(fmt_name[cif]); }
  std::vector<std::string> args = base; bool taskset_opt = cof == 2 && d.chance(1, 2); if (taskset_opt) args.push_back("--taskset"); else if (cof) { args.push_back(d.chance(1, 2) ? "--cof" : "--cpuset-output-format"); args.push_back(fmt_name[cof]); }
  for (auto &x : toks) args.push_back(x);
  c.desc("\n hwloc-calc"); for (size_t i = in.args.size(); i < args.size(); i++) c.desc(" " + args[i]); c.descf("\n expected %s %s", nodesets ? "nodeset" : "cpuset", bstr(E).c_str());
  Run r = run_tool(c, "hwloc-calc", args);
  CHECK(c, r.rc == 0, "calc_exit", "hwloc-calc exited with %d on a valid command line (stderr: %s)", r.rc, r.err.substr(0, 400).c_str());
  hwloc_bitmap_t got = hwloc_bitmap_alloc(); std::string line = first_line(r.out);
  CHECK(c, parse_set(cof, line, got), "calc_format", "output [%s] is not a %s-format set", line.substr(0, 200).c_str(), fmt_name[cof]);
  CHECK(c, hwloc_bitmap_isequal(got, E), "calc_result", "hwloc-calc printed %s = %s, the documented operators give %s", line.substr(0, 200).c_str(), bstr(got).c_str(), bstr(E).c_str());
  c.cls(strf("calc:tokens=%zu", toks.size()).c_str()); if (anyhier) c.cls("calc:hierarchical"); if (nodesets) c.cls("calc:nodesets"); if (cof) c.cls("calc:output-format"); if (cif) c.cls("calc:input-format");
  bool nt = toks.size() >= 2 || anyhier || cof != 0;
  // locations read from the standard input, one computation per line: every line is computed on its own, like one invocation per line
  if (d.chance(1, 5)) { std::string in_text; for (auto &x : plain_toks) in_text += x + "\n"; std::vector<std::string> a = base; a.push_back("-q"); /* (without -q the tool announces on stdout that it waits for locations) */ if (cof) { a.push_back("--cof"); a.push_back(fmt_name[cof]); } Run q = run_tool(c, "hwloc-calc", a, &in_text); CHECK(c, q.rc == 0, "calc_stdin", "hwloc-calc reading %zu lines from stdin exited with %d (stderr: %s)", plain_toks.size(), q.rc, q.err.substr(0, 300).c_str());
    std::vector<std::string> lines; { size_t p0 = 0; while (p0 < q.out.size()) { size_t e = q.out.find('\n', p0); if (e == std::string::npos) e = q.out.size(); lines.push_back(q.out.substr(p0, e - p0)); p0 = e + 1; } }
    CHECK(c, lines.size() == plain_toks.size(), "calc_stdin", "%zu input lines, %zu output lines", plain_toks.size(), lines.size());
    for (size_t i = 0; i < lines.size(); i++) { hwloc_bitmap_t g = hwloc_bitmap_alloc(); CHECK(c, parse_set(cof, lines[i], g) && hwloc_bitmap_isequal(g, plain_sets[i]), "calc_stdin", "line %zu of the standard input (%s) gives [%s], the location alone denotes %s", i + 1, plain_toks[i].c_str(), lines[i].substr(0, 120).c_str(), bstr(plain_sets[i]).c_str()); hwloc_bitmap_free(g); }
    c.cls("calc:stdin-lines"); nt = true; }
  for (auto b : plain_sets) hwloc_bitmap_free(b);
  // metamorphic relations
  int rel = d.range(0, 5);
  if (rel == 1) {   // the three formats denote one set
    for (int f = 0; f < 3; f++) { std::vector<std::string> a = base; a.push_back("--cof"); a.push_back(fmt_name[f]); for (auto &x : toks) a.push_back(x); Run q = run_tool(c, "hwloc-calc", a); hwloc_bitmap_t g = hwloc_bitmap_alloc();
      CHECK(c, q.rc == 0 && parse_set(f, first_line(q.out), g) && hwloc_bitmap_isequal(g, E), "calc_formats", "--cof %s prints [%s], which is not the set %s", fmt_name[f], first_line(q.out).substr(0, 200).c_str(), bstr(E).c_str()); hwloc_bitmap_free(g); }
    nt = true; c.cls("calc:rel-formats");
  } else if (rel == 2 && !nodesets && !hwloc_bitmap_iszero(E) && d.chance(1, 2)) {   // --po --largest fed back with --pi (physical indexes on the output side only)
    std::vector<std::string> a = base; a.push_back("--po"); a.push_back("--largest"); for (auto &x : toks) a.push_back(x); Run q = run_tool(c, "hwloc-calc", a); CHECK(c, q.rc == 0, "calc_exit", "--po --largest exited with %d", q.rc);
    std::vector<std::string> back = in.args; back.push_back("--pi"); std::string l = first_line(q.out); size_t p = 0; bool usable = true; hwloc_bitmap_t expect = hwloc_bitmap_alloc();
    while (p < l.size()) { size_t e = l.find(' ', p); if (e == std::string::npos) e = l.size(); if (e > p) { std::string tk = l.substr(p, e - p); back.push_back(tk); size_t col = tk.find(':'); hwloc_obj_type_t ty; union hwloc_obj_attr_u at;
        // the relation only holds for objects that have an OS index which is unique within their type ("the first object matching the given index is used")
        if (col == std::string::npos || hwloc_type_sscanf(tk.substr(0, col).c_str(), &ty, &at, sizeof at) < 0) usable = false;
        else { unsigned want = (unsigned)strtoul(tk.c_str() + col + 1, NULL, 10); int n = 0; hwloc_obj_t o = NULL, hit = NULL; while ((o = hwloc_get_next_obj_by_type(t, ty, o)) != NULL) if (o->os_index == want) { n++; hit = o; } if (n != 1 || hwloc_get_type_depth(t, ty) == HWLOC_TYPE_DEPTH_MULTIPLE) usable = false; else hwloc_bitmap_or(expect, expect, hit->cpuset); } }
      p = e + 1; }
    if (usable && back.size() > in.args.size() + 1) {
      // what the printed physical indexes designate must be exactly the set (this does not depend on the tool's input side)
      CHECK(c, hwloc_bitmap_isequal(expect, E), "calc_largest_physical", "--po --largest printed [%s]: the objects with these OS indexes cover %s, the set is %s", l.substr(0, 300).c_str(), bstr(expect).c_str(), bstr(E).c_str());
      Run q2 = run_tool(c, "hwloc-calc", back); hwloc_bitmap_t g = hwloc_bitmap_alloc();
      CHECK(c, q2.rc == 0 && parse_set(0, first_line(q2.out), g) && hwloc_bitmap_isequal(g, E), "calc_largest_physical", "--po --largest printed [%s]; fed back with --pi it gives %s instead of %s", l.substr(0, 300).c_str(), first_line(q2.out).substr(0, 100).c_str(), bstr(E).c_str()); hwloc_bitmap_free(g);
      nt = true; c.cls("calc:rel-largest-physical");
    } else c.cls("calc:rel-largest-physical(skipped: no or ambiguous OS indexes)");
    hwloc_bitmap_free(expect);
  } else if (rel == 2 && !nodesets && !hwloc_bitmap_iszero(E)) {   // --largest fed back
    std::vector<std::string> a = base; a.push_back("--largest"); for (auto &x : toks) a.push_back(x); Run q = run_tool(c, "hwloc-calc", a); CHECK(c, q.rc == 0, "calc_exit", "--largest exited with %d", q.rc);
    std::vector<std::string> back = in.args; std::string l = first_line(q.out); size_t p = 0; while (p < l.size()) { size_t e = l.find(' ', p); if (e == std::string::npos) e = l.size(); if (e > p) back.push_back(l.substr(p, e - p)); p = e + 1; }
    CHECK(c, back.size() > in.args.size(), "calc_largest", "--largest printed nothing for the non-empty set %s", bstr(E).c_str());
    Run q2 = run_tool(c, "hwloc-calc", back); hwloc_bitmap_t g = hwloc_bitmap_alloc();
    CHECK(c, q2.rc == 0 && parse_set(0, first_line(q2.out), g) && hwloc_bitmap_isequal(g, E), "calc_largest", "--largest printed [%s]; fed back it gives %s instead of %s", l.substr(0, 300).c_str(), first_line(q2.out).substr(0, 100).c_str(), bstr(E).c_str()); hwloc_bitmap_free(g);
    nt = true; c.cls("calc:rel-largest");
  } else if (rel == 3 && !nodesets) {   // -N = number of entries of -I = objects of that level intersecting the set
    auto lv = usable_levels(t, false); Level L = lv[d.raw() % lv.size()]; std::string tn = hwloc_obj_type_string(L.type);
    std::vector<unsigned> expect; { hwloc_obj_t o = NULL; while ((o = hwloc_get_next_obj_by_depth(t, L.depth, o)) != NULL) if (hwloc_bitmap_intersects(o->cpuset, E)) expect.push_back(o->logical_index); }
    std::vector<std::string> a = base; a.push_back("-N"); a.push_back(tn); for (auto &x : toks) a.push_back(x); Run qn = run_tool(c, "hwloc-calc", a);
    std::vector<std::string> b = base; b.push_back("-I"); b.push_back(tn); for (auto &x : toks) b.push_back(x); Run qi = run_tool(c, "hwloc-calc", b);
    CHECK(c, qn.rc == 0 && qi.rc == 0, "calc_exit", "-N/-I exited with %d/%d", qn.rc, qi.rc);
    std::vector<unsigned> got; { std::string l = first_line(qi.out); size_t p = 0; while (p < l.size()) { size_t e = l.find(',', p); if (e == std::string::npos) e = l.size(); if (e > p) got.push_back((unsigned)strtoul(l.substr(p, e - p).c_str(), NULL, 10)); p = e + 1; } }
    CHECK(c, (unsigned)strtoul(first_line(qn.out).c_str(), NULL, 10) == got.size() && !first_line(qn.out).empty(), "calc_number_of", "-N %s printed [%s] but -I %s lists %zu objects [%s]", tn.c_str(), first_line(qn.out).c_str(), tn.c_str(), got.size(), first_line(qi.out).substr(0, 200).c_str());
    CHECK(c, got == expect, "calc_intersect", "-I %s printed [%s]; %zu objects of that level intersect %s", tn.c_str(), first_line(qi.out).substr(0, 200).c_str(), expect.size(), bstr(E).c_str());
    nt = true; c.cls("calc:rel-N-I");
  } else if (rel == 4 && !nodesets) {   // --single = singlify ("to a single CPU": cpusets only)
    std::vector<std::string> a = base; a.push_back("--single"); for (auto &x : toks) a.push_back(x); Run q = run_tool(c, "hwloc-calc", a); hwloc_bitmap_t g = hwloc_bitmap_alloc(), s = hwloc_bitmap_dup(E); hwloc_bitmap_singlify(s);
    CHECK(c, q.rc == 0 && parse_set(0, first_line(q.out), g) && hwloc_bitmap_isequal(g, s), "calc_single", "--single printed [%s], singlify(%s) is %s", first_line(q.out).substr(0, 100).c_str(), bstr(E).c_str(), bstr(s).c_str()); hwloc_bitmap_free(g); hwloc_bitmap_free(s);
    nt = true; c.cls("calc:rel-single");
  } else if (rel == 5 && toks.size() >= 2) {   // A B = or of the single results when no prefix is involved; A ~A = empty
    std::vector<std::string> a = base; a.push_back(toks[0][0] == '~' || toks[0][0] == 'x' || toks[0][0] == '^' ? toks[0].substr(1) : toks[0]); std::string plain = a.back(); a.push_back("~" + plain); Run q = run_tool(c, "hwloc-calc", a); hwloc_bitmap_t g = hwloc_bitmap_alloc();
    CHECK(c, q.rc == 0 && parse_set(0, first_line(q.out), g) && hwloc_bitmap_iszero(g), "calc_self_removal", "%s ~%s printed [%s] instead of the empty set", plain.c_str(), plain.c_str(), first_line(q.out).substr(0, 100).c_str()); hwloc_bitmap_free(g);
    c.cls("calc:rel-A~A");
  }
  if (nt) c.nontrivial();
  hwloc_bitmap_free(got); hwloc_bitmap_free(E); hwloc_topology_destroy(t);
}

// ---------------------------------------------------------------------------------------------------------------------------------
static void scenario_lstopo(Case &c, Draw &d) {
  Input in = gen_input(c, d); bool longsyn = false;
  // one case in five: a machine whose synthetic description is long (hundreds of PUs with OS indexes that can only be listed one by one): the
  // lengths straddle 1024 characters (lstopo formats into a fixed buffer first) and reach a few thousand
  if (d.chance(1, 5)) { unsigned a = d.range(1, 3), n = d.chance(1, 6) ? d.range(400, 700) : d.range(170, 340); n = (n / a) * a; std::vector<unsigned> p(n); for (unsigned i = 0; i < n; i++) p[i] = i; for (unsigned i = n; i > 1; i--) std::swap(p[i - 1], p[d.raw() % i]);
    std::string sdesc = strf("pack:%u pu:%u(indexes=", a, n / a); for (unsigned i = 0; i < n; i++) sdesc += (i ? "," : "") + std::to_string(p[i]); sdesc += ")"; in.args = {"-i", sdesc}; in.text = strf("synthetic=\"pack:%u pu:%u(indexes=<random permutation of 0..%u>)\"", a, n / a, n - 1); c.desc(" replaced by " + in.text); longsyn = true; }
  hwloc_topology_t t = load_like(c, in, HWLOC_TYPE_FILTER_KEEP_IMPORTANT, false, HWLOC_TOPOLOGY_FLAG_IMPORT_SUPPORT);
  if (!longsyn && d.chance(1, 2)) {
    bool v2 = d.chance(1, 4); std::vector<std::string> a = in.args; a.push_back("--of"); a.push_back("xml"); if (v2) { a.push_back("--export-xml-flags"); a.push_back("v2"); }
    c.descf("\n lstopo-no-graphics --of xml%s", v2 ? " --export-xml-flags v2" : ""); Run r = run_tool(c, "lstopo-no-graphics", a); CHECK(c, r.rc == 0, "lstopo_exit", "lstopo exited with %d: %s", r.rc, r.err.substr(0, 300).c_str());
    std::string lib = export_xml(t, v2 ? HWLOC_TOPOLOGY_EXPORT_XML_FLAG_V2 : 0);
    // (lstopo re-exports the userdata of an XML input through its own import/export callbacks, which a plain library export does not carry:
    //  for such inputs only the reload relation is checked)
    bool has_userdata = r.out.find("<userdata") != std::string::npos; if (has_userdata) c.cls("lstopo:xml-with-userdata(byte comparison skipped)");
    if (!has_userdata && r.out != lib) { size_t p = 0; while (p < r.out.size() && p < lib.size() && r.out[p] == lib[p]) p++; c.fail("lstopo_xml", "lstopo's XML output differs from the library export at byte %zu: [%s] vs [%s]", p, qstr(r.out.substr(p > 60 ? p - 60 : 0, 160).c_str()).c_str(), qstr(lib.substr(p > 60 ? p - 60 : 0, 160).c_str()).c_str()); }
    c.checks();
    hwloc_topology_t n; hwloc_topology_init(&n); hwloc_topology_set_flags(n, HWLOC_TOPOLOGY_FLAG_IMPORT_SUPPORT); hwloc_topology_set_all_types_filter(n, HWLOC_TYPE_FILTER_KEEP_ALL);
    CHECK(c, hwloc_topology_set_xmlbuffer(n, r.out.c_str(), (int)r.out.size() + 1) == 0 && hwloc_topology_load(n) == 0, "lstopo_reload", "lstopo's XML output does not reload");
    if (!v2) { std::string df = first_diff(dump_topology(t, DUMP_GP | DUMP_EXTRAS), dump_topology(n, DUMP_GP | DUMP_EXTRAS)); CHECK(c, df.empty(), "lstopo_reload", "the topology reloaded from lstopo's XML differs: %s", df.c_str()); }
    require_wf(c, n, "topology reloaded from lstopo's XML"); hwloc_topology_destroy(n); c.cls("lstopo:xml");
  } else {
    unsigned long sf = d.chance(1, 2) ? 0 : (unsigned long)d.range(0, 7); std::vector<std::string> a = in.args; a.push_back("--of"); a.push_back("synthetic");
    static const char *fn[] = {"extended_types", "attrs", "v1", ""}; std::string fl; if (sf & 1) fl += "extended_types,"; if (sf & 2) fl += "attrs,"; if (sf & 4) fl += "v1,"; (void)fn;
    unsigned long libflags = 0; if (sf & 1) libflags |= HWLOC_TOPOLOGY_EXPORT_SYNTHETIC_FLAG_NO_EXTENDED_TYPES; if (sf & 2) libflags |= HWLOC_TOPOLOGY_EXPORT_SYNTHETIC_FLAG_NO_ATTRS; if (sf & 4) libflags |= HWLOC_TOPOLOGY_EXPORT_SYNTHETIC_FLAG_V1;
    if (sf) { a.push_back("--export-synthetic-flags"); a.push_back(strf("%lu", libflags)); }
    c.descf("\n lstopo-no-graphics --of synthetic --export-synthetic-flags %lu", libflags); Run r = run_tool(c, "lstopo-no-graphics", a);
    static char buf[65536]; int l = hwloc_topology_export_synthetic(t, buf, sizeof buf, libflags); if (l >= 1000) c.cls(l >= 1024 ? "lstopo:synthetic>=1024-chars" : "lstopo:synthetic-1000..1023-chars");
    if (l < 0) { CHECK(c, r.rc != 0, "lstopo_synthetic", "the library refuses to export this topology as synthetic but lstopo exited with 0 and printed [%s]", first_line(r.out).substr(0, 200).c_str()); c.cls("lstopo:synthetic-refused"); }
    else { if (!(r.rc == 0 && r.out == std::string(buf) + "\n")) { size_t pp = 0; std::string e = std::string(buf) + "\n"; while (pp < r.out.size() && pp < e.size() && r.out[pp] == e[pp]) pp++; c.fail("lstopo_synthetic", "lstopo printed %zu bytes (exit %d), the library export has %zu; first difference at byte %zu: [%s] vs [%s]", r.out.size(), r.rc, e.size(), pp, qstr(r.out.substr(pp > 30 ? pp - 30 : 0, 80).c_str()).c_str(), qstr(e.substr(pp > 30 ? pp - 30 : 0, 80).c_str()).c_str()); } c.checks();
      // and it reloads to the same machine
      if (!(libflags & HWLOC_TOPOLOGY_EXPORT_SYNTHETIC_FLAG_NO_ATTRS) && longsyn) { hwloc_topology_t q; hwloc_topology_init(&q); std::string sd = first_line(r.out); CHECK(c, hwloc_topology_set_synthetic(q, sd.c_str()) == 0 && hwloc_topology_load(q) == 0, "lstopo_synthetic_reload", "lstopo's synthetic output does not reload"); for (unsigned i = 0; i < (unsigned)hwloc_get_nbobjs_by_type(t, HWLOC_OBJ_PU); i++) CHECK(c, hwloc_get_obj_by_type(q, HWLOC_OBJ_PU, i)->os_index == hwloc_get_obj_by_type(t, HWLOC_OBJ_PU, i)->os_index, "lstopo_synthetic_reload", "PU L#%u differs after reloading lstopo's synthetic output", i); hwloc_topology_destroy(q); }
      c.cls("lstopo:synthetic"); }
  }
  c.nontrivial(); hwloc_topology_destroy(t);
}

// ---------------------------------------------------------------------------------------------------------------------------------
static void scenario_diff_patch(Case &c, Draw &d) {
  Input in = gen_input(c, d); unsigned long fl = HWLOC_TOPOLOGY_FLAG_INCLUDE_DISALLOWED | HWLOC_TOPOLOGY_FLAG_IMPORT_SUPPORT; hwloc_topology_t A = load_like(c, in, -1, false, fl), B = load_like(c, in, -1, false, fl);
  // two cases in three keep to what a diff can express (every object gets a name first, then renames and size changes), so that hwloc-patch really runs;
  // one case in three first disallows some PUs in both topologies (the tools must keep disallowed objects, or the patched file is not B)
  bool repr = d.chance(2, 3); if (repr) { auto oa = all_objs(A), ob = all_objs(B); for (size_t i = 0; i < oa.size() && i < ob.size(); i++) if (!oa[i]->name) { oa[i]->name = strdup(strf("n%zu", i).c_str()); free(ob[i]->name); ob[i]->name = strdup(strf("n%zu", i).c_str()); } }
  if (d.chance(1, 3)) { hwloc_bitmap_t al = gen_subset(d, hwloc_topology_get_topology_cpuset(A), 2, 3); if (hwloc_bitmap_iszero(al)) hwloc_bitmap_set(al, hwloc_bitmap_first(hwloc_topology_get_topology_cpuset(A))); int r1 = hwloc_topology_allow(A, al, NULL, HWLOC_ALLOW_FLAG_CUSTOM), r2 = hwloc_topology_allow(B, al, NULL, HWLOC_ALLOW_FLAG_CUSTOM); CHECK(c, r1 == 0 && r2 == 0, "harness", "allow failed"); c.descf("\n | allowed cpuset %s in both", bstr(al).c_str()); c.cls("diffpatch:disallowed-pus"); hwloc_bitmap_free(al); }
  auto objs = all_objs(B); int nedits = d.range(1, 6);
  // bulk renames: every object gets a long new name, so that the diff grows past the sizes the tools read in one piece (4 kB, 8 kB, 16 kB ...)
  if (repr && d.chance(1, 3)) { int pad = d.range(10, 120); for (size_t i = 0; i < objs.size(); i++) { free(objs[i]->name); objs[i]->name = strdup((strf("renamed-%zu-", i) + std::string((size_t)pad, 'a' + (char)(i % 26))).c_str()); } c.descf("\n | every object renamed (%zu objects, %d padding bytes)", objs.size(), pad); c.cls("diffpatch:bulk-rename"); }
  for (int i = 0; i < nedits; i++) { hwloc_obj_t o = objs[d.raw() % objs.size()]; int k = d.range(0, 2); if (repr && k == 0) k = 1; std::string nm = strf("k%d", i), val = strf("v%u", d.raw() % 1000);
    if (k == 0) { hwloc_obj_add_info(o, nm.c_str(), val.c_str()); c.descf("\n | add info %s=%s on %s#%u", nm.c_str(), val.c_str(), hwloc_obj_type_string(o->type), o->logical_index); }
    else if (k == 1) { free(o->name); o->name = strdup(val.c_str()); c.descf("\n | name of %s#%u = %s", hwloc_obj_type_string(o->type), o->logical_index, val.c_str()); }
    else if (o->type == HWLOC_OBJ_NUMANODE || hwloc_obj_type_is_cache(o->type)) { if (o->type == HWLOC_OBJ_NUMANODE) o->attr->numanode.local_memory += 4096; else o->attr->cache.size += 1024; c.descf("\n | size of %s#%u changed", hwloc_obj_type_string(o->type), o->logical_index); }
  }
  std::string wd = h_workdir(), pa = wd + strf("/A.%d.xml", (int)getpid()), pb = wd + strf("/B.%d.xml", (int)getpid()), pd = wd + strf("/D.%d.xml", (int)getpid()), pp = wd + strf("/P.%d.xml", (int)getpid());
  CHECK(c, hwloc_topology_export_xml(A, pa.c_str(), 0) == 0 && hwloc_topology_export_xml(B, pb.c_str(), 0) == 0, "harness", "cannot export the two topologies");
  Run r = run_tool(c, "hwloc-diff", {pa, pb, pd});
  if (r.rc == 0) {
    // the diff is given as a file, or piped on standard input ("-")
    std::string dtext; { FILE *f = fopen(pd.c_str(), "rb"); char b[65536]; size_t n; while (f && (n = fread(b, 1, sizeof b, f)) > 0) dtext.append(b, n); if (f) fclose(f); }
    bool via_stdin = d.chance(1, 2); c.cls(via_stdin ? "diffpatch:diff-on-stdin" : "diffpatch:diff-file"); c.cls(dtext.size() > 16384 ? "diffpatch:diff>16k" : dtext.size() > 8192 ? "diffpatch:diff>8k" : dtext.size() > 4096 ? "diffpatch:diff>4k" : "diffpatch:diff<=4k");
    Run q = via_stdin ? run_tool(c, "hwloc-patch", {pa, "-", pp}, &dtext) : run_tool(c, "hwloc-patch", {pa, pd, pp}); CHECK(c, q.rc == 0, "patch_exit", "hwloc-patch (diff of %zu bytes %s) exited with %d: %s", dtext.size(), via_stdin ? "on standard input" : "as a file", q.rc, q.err.substr(0, 300).c_str());
    hwloc_topology_t P; hwloc_topology_init(&P); hwloc_topology_set_flags(P, fl); hwloc_topology_set_all_types_filter(P, HWLOC_TYPE_FILTER_KEEP_ALL); CHECK(c, hwloc_topology_set_xml(P, pp.c_str()) == 0 && hwloc_topology_load(P) == 0, "patch_reload", "the patched XML does not load");
    // total_memory is derived: B was edited in place (local_memory without propagation), compare what an XML reload of B gives
    hwloc_topology_t B2; hwloc_topology_init(&B2); hwloc_topology_set_flags(B2, fl); hwloc_topology_set_all_types_filter(B2, HWLOC_TYPE_FILTER_KEEP_ALL); CHECK(c, hwloc_topology_set_xml(B2, pb.c_str()) == 0 && hwloc_topology_load(B2) == 0, "harness", "B does not reload");
    std::string df = first_diff(dump_topology(B2, DUMP_GP | DUMP_EXTRAS), dump_topology(P, DUMP_GP | DUMP_EXTRAS)); CHECK(c, df.empty(), "diff_patch", "hwloc-patch(A, hwloc-diff(A,B)) differs from B: %s", df.c_str());
    // and back: hwloc-patch -R on the patched file gives A again
    if (d.chance(1, 2)) { std::string pr = wd + strf("/R.%d.xml", (int)getpid()); bool rs = d.chance(1, 2); Run q2 = rs ? run_tool(c, "hwloc-patch", {d.chance(1, 2) ? "-R" : "--reverse", pp, "-", pr}, &dtext) : run_tool(c, "hwloc-patch", {"-R", pp, pd, pr});
      CHECK(c, q2.rc == 0, "patch_exit", "hwloc-patch -R exited with %d: %s", q2.rc, q2.err.substr(0, 300).c_str());
      hwloc_topology_t R, A2; hwloc_topology_init(&R); hwloc_topology_set_flags(R, fl); hwloc_topology_set_all_types_filter(R, HWLOC_TYPE_FILTER_KEEP_ALL); CHECK(c, hwloc_topology_set_xml(R, pr.c_str()) == 0 && hwloc_topology_load(R) == 0, "patch_reload", "the reverse-patched XML does not load");
      hwloc_topology_init(&A2); hwloc_topology_set_flags(A2, fl); hwloc_topology_set_all_types_filter(A2, HWLOC_TYPE_FILTER_KEEP_ALL); CHECK(c, hwloc_topology_set_xml(A2, pa.c_str()) == 0 && hwloc_topology_load(A2) == 0, "harness", "A does not reload");
      std::string dr = first_diff(dump_topology(A2, DUMP_GP | DUMP_EXTRAS), dump_topology(R, DUMP_GP | DUMP_EXTRAS)); CHECK(c, dr.empty(), "diff_patch", "hwloc-patch -R (patched, diff) differs from A: %s", dr.c_str());
      hwloc_topology_destroy(R); hwloc_topology_destroy(A2); unlink(pr.c_str()); c.cls("diffpatch:reversed"); }
    hwloc_topology_destroy(P); hwloc_topology_destroy(B2); c.cls("diffpatch:applied"); c.nontrivial();
  } else { CHECK(c, r.rc == 1 || r.rc == 2 || r.rc == EXIT_FAILURE, "diff_exit", "hwloc-diff exited with %d", r.rc); c.cls("diffpatch:diff-refused"); }
  unlink(pa.c_str()); unlink(pb.c_str()); unlink(pd.c_str()); unlink(pp.c_str()); hwloc_topology_destroy(A); hwloc_topology_destroy(B);
}

// ---------------------------------------------------------------------------------------------------------------------------------
static void scenario_distrib(Case &c, Draw &d) {
  Input in = gen_input(c, d); hwloc_topology_t t = load_like(c, in, -1, true, HWLOC_TOPOLOGY_FLAG_IMPORT_SUPPORT);
  unsigned n = d.chance(1, 6) ? (unsigned)d.range(30, 90) : (unsigned)d.range(1, 24); bool single = d.chance(1, 3), rev = d.chance(1, 3); int fmt = d.chance(1, 3) ? 2 : 0;
  std::vector<std::string> a = in.args; if (single) a.push_back("--single"); if (rev) a.push_back("--reverse"); if (fmt == 2) a.push_back("--taskset"); a.push_back(strf("%u", n));
  c.descf("\n hwloc-distrib%s%s%s %u", single ? " --single" : "", rev ? " --reverse" : "", fmt == 2 ? " --taskset" : "", n);
  Run r = run_tool(c, "hwloc-distrib", a); CHECK(c, r.rc == 0, "distrib_exit", "hwloc-distrib exited with %d: %s", r.rc, r.err.substr(0, 300).c_str());
  std::vector<hwloc_bitmap_t> exp(n, (hwloc_bitmap_t)NULL); hwloc_obj_t root = hwloc_get_root_obj(t);
  CHECK(c, hwloc_distrib(t, &root, 1, exp.data(), n, INT_MAX, rev ? HWLOC_DISTRIB_FLAG_REVERSE : 0) == 0, "harness", "hwloc_distrib failed");
  std::vector<std::string> lines; { size_t p = 0; while (p < r.out.size()) { size_t e = r.out.find('\n', p); if (e == std::string::npos) e = r.out.size(); lines.push_back(r.out.substr(p, e - p)); p = e + 1; } }
  CHECK(c, lines.size() == n, "distrib_count", "hwloc-distrib %u printed %zu lines", n, lines.size());
  for (unsigned i = 0; i < n; i++) { hwloc_bitmap_t g = hwloc_bitmap_alloc(); CHECK(c, parse_set(fmt, lines[i], g), "distrib_format", "line %u [%s] is not a %s-format set", i, lines[i].substr(0, 100).c_str(), fmt_name[fmt]);
    CHECK(c, !hwloc_bitmap_iszero(g) && hwloc_bitmap_isincluded(g, root->cpuset), "distrib_guarantee", "line %u: %s is empty or not included in the topology cpuset", i, bstr(g).c_str());
    if (single) CHECK(c, hwloc_bitmap_weight(g) == 1, "distrib_guarantee", "--single line %u has %d bits", i, hwloc_bitmap_weight(g));
    // --single: "singlify each output to a single CPU" - any CPU of the corresponding set (the tool takes the last one with --reverse)
    if (single) CHECK(c, hwloc_bitmap_isincluded(g, exp[i]), "distrib_result", "line %u: --single printed %s, which is not part of the set %s that hwloc_distrib() gives", i, bstr(g).c_str(), bstr(exp[i]).c_str());
    else CHECK(c, hwloc_bitmap_isequal(g, exp[i]), "distrib_result", "line %u: hwloc-distrib printed %s, hwloc_distrib() gives %s", i, bstr(g).c_str(), bstr(exp[i]).c_str());
    hwloc_bitmap_free(g); }
  for (auto b : exp) hwloc_bitmap_free(b); hwloc_topology_destroy(t); c.cls("distrib"); c.nontrivial();
}

// ---------------------------------------------------------------------------------------------------------------------------------
static void scenario_malformed(Case &c, Draw &d) {
  Input in = gen_input(c, d); static const char *tools[] = {"hwloc-calc", "hwloc-distrib", "lstopo-no-graphics", "hwloc-diff", "hwloc-patch", "hwloc-info"}; std::string tool = d.pick(tools); int kind = d.range(0, 6);
  std::vector<std::string> a; bool must_fail = false; const char *what = "";
  static const char *garbage[] = {"", "core:", ":", "core:1.", "core:1.pu", "pu:1-0x", "pu:99999999999999999999", "l9cache:0", "foo:1", "~", "x^", "0x", "0xzz", "core:-1", "pack:0:0:0", "pu:0-1-2", "....", "core:all.pu:all.pu:0", "numa[tier=]:0", "os=", "pci=zz:zz.z", "pci[:]:0", "core:1:", "pu:4294967296", "node:0.core:0x1", "\xff\xfe", "--", "-"};
  switch (kind) {
  case 0: a = in.args; a.push_back(strf("--%s", d.chance(1, 2) ? "bogus-option" : "cof-")); a.push_back("all"); must_fail = tool == "hwloc-calc" || tool == "hwloc-distrib" || tool == "lstopo-no-graphics"; what = "unknown option"; break;
  case 1: a = {"-i"}; must_fail = tool == "hwloc-calc" || tool == "hwloc-distrib" || tool == "lstopo-no-graphics"; what = "missing option value"; break;
  case 2: a = {"-i", "/nonexistent/dir/file.xml", "all"}; if (tool == "hwloc-diff" || tool == "hwloc-patch") a = {"/nonexistent/a.xml", "/nonexistent/b.xml", "/nonexistent/c.xml"}; must_fail = true; what = "unreadable input"; break;
  case 3: a = in.args; if (tool == "hwloc-calc") { a.push_back("--cof"); } else if (tool == "hwloc-distrib") { a.push_back("--from"); } else a.push_back("--of"); must_fail = tool == "hwloc-calc" || tool == "hwloc-distrib" || tool == "lstopo-no-graphics"; what = "option without its value at the end"; break;
  default: a = in.args; if (tool == "hwloc-distrib") a.push_back(d.pick(garbage)); else { int n = d.range(1, 3); for (int i = 0; i < n; i++) a.push_back(d.pick(garbage)); } what = "garbage location tokens"; break;
  }
  if (tool == "hwloc-diff" || tool == "hwloc-patch" || tool == "hwloc-info") { if (kind >= 4 && tool != "hwloc-info") { a = {d.pick(garbage), d.pick(garbage)}; } if (kind != 2) must_fail = false; }
  c.descf("\n malformed (%s): %s", what, tool.c_str()); for (auto &x : a) c.desc(" " + qstr(x.c_str()));
  Run r = run_tool(c, tool, a);   // crash / sanitizer / hang are checked inside
  if (must_fail) CHECK(c, r.rc != 0, "malformed_exit", "%s exited with 0 on %s", tool.c_str(), what);
  c.cls((std::string("malformed:") + what).c_str()); c.cls(r.rc ? "malformed:exit-nonzero" : "malformed:exit-zero");
}

void h_run(Case &c) {
  Draw &d = c.head; int s = d.range(0, 11);
  if (s <= 5) scenario_calc(c, d); else if (s <= 7) scenario_lstopo(c, d); else if (s == 8) scenario_diff_patch(c, d); else if (s == 9) scenario_distrib(c, d); else scenario_malformed(c, d);
}
