// C13 — distances: what is added is what is returned, and it follows the objects (DESIGN.md section 4, C13).
// Stateful, model-based: an ordered reference list of {name, kind, [(type, os_index|gp_index)], values}.
#include "ops.hpp"
#include <algorithm>

void h_configure(HConfig &cfg) {
  cfg.property = "C13"; cfg.name = "c13_distances";
  cfg.rule = "case = small synthetic topology + history over {add (create/values/commit with legal and illegal kinds/flags/sizes), get / get_by_type / get_by_depth / get_by_name with undersized arrays, transform x4, release_remove, remove_by_depth, remove, restrict, dup, XML reload}; non-trivial = a get after at least one add and at least one of {restrict that removed a listed object, dup, reload, remove}; distinct by hash of the history";
  cfg.head_len = 64; cfg.op_len = 140; cfg.max_ops = 14; cfg.leak_check = true;
}

// (the _ALL masks are private to hwloc; spelled out from the public bits)
static const unsigned long KIND_FROM_ALL = HWLOC_DISTANCES_KIND_FROM_OS | HWLOC_DISTANCES_KIND_FROM_USER;
static const unsigned long KIND_VALUE_ALL = HWLOC_DISTANCES_KIND_VALUE_LATENCY | HWLOC_DISTANCES_KIND_VALUE_BANDWIDTH | HWLOC_DISTANCES_KIND_VALUE_HOPS;
static const unsigned long KIND_ALL = KIND_FROM_ALL | KIND_VALUE_ALL | HWLOC_DISTANCES_KIND_HETEROGENEOUS_TYPES;
struct Ent { bool hasname; std::string name; unsigned long kind; std::vector<std::pair<int, uint64_t>> objs; int utype; std::vector<uint64_t> vals; };
static bool useos(int utype) { return utype == HWLOC_OBJ_PU || utype == HWLOC_OBJ_NUMANODE; }
static hwloc_obj_t lookup(hwloc_topology_t t, int type, uint64_t key, bool os) { hwloc_obj_t o = NULL; while ((o = hwloc_get_next_obj_by_type(t, (hwloc_obj_type_t)type, o))) if (os ? o->os_index == key : o->gp_index == key) return o; return NULL; }
static std::vector<Ent> model;

static std::string same(hwloc_topology_t t, struct hwloc_distances_s *d, const Ent &e) {
  if (d->nbobjs != e.objs.size()) return strf("nbobjs %u vs model %zu", d->nbobjs, e.objs.size());
  if (d->kind != e.kind) return strf("kind 0x%lx vs model 0x%lx", d->kind, e.kind);
  const char *n = hwloc_distances_get_name(t, d);
  if ((n != NULL) != e.hasname || (n && e.name != n)) return strf("name %s vs model %s", n ? n : "(null)", e.hasname ? e.name.c_str() : "(null)");
  for (unsigned i = 0; i < d->nbobjs; i++) {
    hwloc_obj_t o = d->objs[i]; if (!o || (int)o->type != e.objs[i].first) return strf("object %u has the wrong type", i);
    uint64_t k = useos(e.utype) ? o->os_index : o->gp_index; if (k != e.objs[i].second) return strf("object %u is %llu, model %llu", i, (unsigned long long)k, (unsigned long long)e.objs[i].second);
    if (lookup(t, o->type, k, useos(e.utype)) != o) return strf("object %u does not belong to this topology", i);
  }
  for (size_t i = 0; i < e.vals.size(); i++) if (d->values[i] != e.vals[i]) return strf("value %zu is %llu, model %llu", i, (unsigned long long)d->values[i], (unsigned long long)e.vals[i]);
  return "";
}
static void fullcheck(Case &c, hwloc_topology_t t, const char *after, bool anyorder) {
  unsigned nr = 64; struct hwloc_distances_s *d[64]; CHECK(c, hwloc_distances_get(t, &nr, d, 0, 0) == 0, "get", "get failed after %s", after);
  CHECK(c, nr == model.size(), "list", "after %s: %u structures, model has %zu", after, nr, model.size());
  if (!anyorder) { for (unsigned i = 0; i < nr; i++) { std::string m = same(t, d[i], model[i]); CHECK(c, m.empty(), "list", "after %s: structure %u differs: %s", after, i, m.c_str()); } }
  else { std::vector<Ent> nm; std::vector<bool> used(model.size(), false);   // XML reload may reorder (pitfall 9.2): compare as a multiset, adopt hwloc's order
    for (unsigned i = 0; i < nr; i++) { bool f = false; for (size_t j = 0; j < model.size(); j++) if (!used[j] && same(t, d[i], model[j]).empty()) { used[j] = true; nm.push_back(model[j]); f = true; break; } CHECK(c, f, "list", "after %s: structure %u is not in the model", after, i); }
    model = nm; }
  for (unsigned i = 0; i < nr; i++) hwloc_distances_release(t, d[i]);
}
static bool matches(const Ent &e, const char *name, int type, unsigned long kind) {
  unsigned long kf = kind & KIND_FROM_ALL, kv = kind & KIND_VALUE_ALL;
  if (name && (!e.hasname || e.name != name)) return false; if (type != -1 && type != e.utype) return false;
  if (kf && !(kf & e.kind)) return false; if (kv && !(kv & e.kind)) return false; return true;
}
static void checkget(Case &c, hwloc_topology_t t, int rc, unsigned nrin, unsigned nr, struct hwloc_distances_s **d, const char *name, int type, unsigned long kind, const char *what) {
  CHECK(c, rc == 0, "get", "%s returned %d errno %d", what, rc, errno);
  std::vector<const Ent *> exp; for (auto &e : model) if (matches(e, name, type, kind)) exp.push_back(&e);
  CHECK(c, nr == exp.size(), "get_filter", "%s kind=0x%lx type=%d name=%s: *nr=%u, %zu structures match the documented filter", what, kind, type, name ? name : "(null)", nr, exp.size());
  for (unsigned i = 0; i < nrin; i++) {
    if (i < nr) { CHECK(c, d[i] != NULL, "get_filter", "%s slot %u is NULL", what, i); std::string m = same(t, d[i], *exp[i]); CHECK(c, m.empty(), "get_filter", "%s slot %u: %s", what, i, m.c_str()); hwloc_distances_release(t, d[i]); }
    else CHECK(c, d[i] == NULL, "get_surplus", "%s surplus slot %u is not NULL", what, i);
  }
}

static void do_transform(Case &c, Draw &o, hwloc_topology_t t) {
  if (model.empty()) return;
  unsigned nr = 64; struct hwloc_distances_s *ds[64]; hwloc_distances_get(t, &nr, ds, 0, 0); unsigned k = o.raw() % nr; for (unsigned i = 0; i < nr; i++) if (i != k) hwloc_distances_release(t, ds[i]);
  struct hwloc_distances_s *d = ds[k]; const Ent e = model[k]; int nb = (int)e.objs.size(); const std::vector<uint64_t> &v = e.vals;
  std::vector<hwloc_obj_t> objs(d->objs, d->objs + nb); std::vector<bool> sw(nb); int nsw = 0; for (int i = 0; i < nb; i++) { sw[i] = objs[i]->subtype && !strcmp(objs[i]->subtype, "NVSwitch"); nsw += sw[i]; }
  bool bw = e.kind & HWLOC_DISTANCES_KIND_VALUE_BANDWIDTH; int tr = o.range(0, 4);
  c.descf("\n | transform(%d) of #%u nb=%d switches=%d", tr, k, nb, nsw);
  if (tr == 0) {
    std::vector<int> keep; for (int i = 0; i < nb; i++) { if (o.chance(1, 3)) d->objs[i] = NULL; else keep.push_back(i); } errno = 0; int r = hwloc_distances_transform(t, d, HWLOC_DISTANCES_TRANSFORM_REMOVE_NULL, NULL, 0);
    if (keep.size() < 2) { CHECK(c, r == -1 && errno == EINVAL, "transform_remove_null", "fewer than 2 objects left: ret %d errno %d", r, errno); CHECK(c, d->nbobjs == (unsigned)nb, "transform_remove_null", "nbobjs changed on failure"); for (int i = 0; i < nb * nb; i++) CHECK(c, d->values[i] == v[i], "transform_remove_null", "values changed on failure"); }
    else { CHECK(c, r == 0, "transform_remove_null", "ret %d", r); CHECK(c, d->nbobjs == keep.size(), "transform_remove_null", "nbobjs %u, expected %zu", d->nbobjs, keep.size());
      bool het = false; for (size_t a = 0; a < keep.size(); a++) { CHECK(c, d->objs[a] == objs[keep[a]], "transform_remove_null", "object %zu is not the %d-th original one", a, keep[a]); if (objs[keep[a]]->type != objs[keep[0]]->type) het = true; for (size_t b = 0; b < keep.size(); b++) CHECK(c, d->values[a * keep.size() + b] == v[keep[a] * nb + keep[b]], "transform_remove_null", "value (%zu,%zu) is not the original (%d,%d)", a, b, keep[a], keep[b]); }
      if (keep.size() < (size_t)nb)   /* the bit is recomputed only when something was removed; otherwise the kind stays the one fixed at commit time (pitfall 9.18) */
      CHECK(c, !!(d->kind & HWLOC_DISTANCES_KIND_HETEROGENEOUS_TYPES) == het, "transform_remove_null", "HETEROGENEOUS_TYPES bit %d, object types differ %d", !!(d->kind & HWLOC_DISTANCES_KIND_HETEROGENEOUS_TYPES), het); c.cls("transform:remove_null"); }
  } else if (tr == 1) {
    errno = 0; int r = hwloc_distances_transform(t, d, HWLOC_DISTANCES_TRANSFORM_LINKS, NULL, 0);
    if (!bw) { CHECK(c, r == -1 && errno == EINVAL, "transform_links", "not a bandwidth matrix: ret %d errno %d", r, errno); for (int i = 0; i < nb * nb; i++) CHECK(c, d->values[i] == v[i], "transform_links", "values changed on failure"); }
    else { uint64_t div = 0; for (int i = 0; i < nb; i++) for (int j = 0; j < nb; j++) if (i != j && v[i * nb + j] && (!div || v[i * nb + j] < div)) div = v[i * nb + j];
      bool ok = true; if (div) for (int i = 0; i < nb; i++) for (int j = 0; j < nb; j++) if (i != j && v[i * nb + j] % div) ok = false;
      if (ok) { CHECK(c, r == 0, "transform_links", "ret %d errno %d", r, errno); for (int i = 0; i < nb; i++) for (int j = 0; j < nb; j++) { uint64_t x = i == j ? 0 : div ? v[i * nb + j] / div : v[i * nb + j]; CHECK(c, d->values[i * nb + j] == x, "transform_links", "value (%d,%d) is %llu, expected %llu", i, j, (unsigned long long)d->values[i * nb + j], (unsigned long long)x); } c.cls("transform:links"); }
      else { CHECK(c, r == -1 && errno == ENOENT, "transform_links", "values not multiples of the smallest: ret %d errno %d", r, errno); for (int i = 0; i < nb; i++) for (int j = 0; j < nb; j++) if (i != j) CHECK(c, d->values[i * nb + j] == v[i * nb + j], "transform_links", "off-diagonal value changed on failure"); } }
  } else if (tr == 2) {
    int r = hwloc_distances_transform(t, d, HWLOC_DISTANCES_TRANSFORM_TRANSITIVE_CLOSURE, NULL, 0); CHECK(c, r == 0, "transform_closure", "ret %d", r); CHECK(c, d->nbobjs == (unsigned)nb, "transform_closure", "nbobjs changed");
    for (int i = 0; i < nb; i++) { CHECK(c, d->objs[i] == objs[i], "transform_closure", "object %d changed", i); for (int j = 0; j < nb; j++) { uint64_t x = v[i * nb + j]; if (!sw[i] && !sw[j] && i != j) { uint64_t a = 0, b = 0; for (int q = 0; q < nb; q++) if (sw[q]) { a += v[i * nb + q]; b += v[q * nb + j]; } x += a < b ? a : b; } CHECK(c, d->values[i * nb + j] == x, "transform_closure", "value (%d,%d) is %llu, expected %llu", i, j, (unsigned long long)d->values[i * nb + j], (unsigned long long)x); } }
    if (nsw) c.cls("transform:closure-with-switch");
  } else if (tr == 3) {
    errno = 0; int r = hwloc_distances_transform(t, d, HWLOC_DISTANCES_TRANSFORM_MERGE_SWITCH_PORTS, NULL, 0); int first = -1; std::vector<int> keep; for (int i = 0; i < nb; i++) { if (sw[i]) { if (first < 0) { first = i; keep.push_back(i); } } else keep.push_back(i); }
    if (first < 0) CHECK(c, r == -1 && errno == ENOENT, "transform_merge", "no switch port: ret %d errno %d", r, errno);
    else if (keep.size() < 2) CHECK(c, r == -1, "transform_merge", "fewer than 2 objects would remain: ret %d", r);
    else { CHECK(c, r == 0, "transform_merge", "ret %d errno %d", r, errno);
      CHECK(c, d->nbobjs == keep.size(), "transform_merge", "%u objects remain, expected %zu: every non-switch object and the first port must be kept", d->nbobjs, keep.size());
      for (size_t a = 0; a < keep.size(); a++) { CHECK(c, d->objs[a] == objs[keep[a]], "transform_merge", "object %zu is not the expected one", a); for (size_t b = 0; b < keep.size(); b++) { int i = keep[a], j = keep[b]; uint64_t x;
          if (!sw[i] && !sw[j]) x = v[i * nb + j]; else if (sw[i] && sw[j]) { x = 0; for (int q = 0; q < nb; q++) if (sw[q]) x += v[q * nb + q]; } else if (sw[i]) { x = 0; for (int q = 0; q < nb; q++) if (sw[q]) x += v[q * nb + j]; } else { x = 0; for (int q = 0; q < nb; q++) if (sw[q]) x += v[i * nb + q]; }
          CHECK(c, d->values[a * keep.size() + b] == x, "transform_merge", "value between kept objects %d,%d is %llu, expected %llu", i, j, (unsigned long long)d->values[a * keep.size() + b], (unsigned long long)x); } }
      c.cls("transform:merge-ports"); }
  } else { errno = 0; int r = hwloc_distances_transform(t, d, (enum hwloc_distances_transform_e)o.range(4, 9), NULL, 0); CHECK(c, r == -1 && errno == EINVAL, "transform_invalid", "unknown transform: ret %d errno %d", r, errno);
    r = hwloc_distances_transform(t, d, HWLOC_DISTANCES_TRANSFORM_LINKS, NULL, 1); CHECK(c, r == -1, "transform_invalid", "non-zero flags accepted"); }
  hwloc_distances_release(t, d);
  fullcheck(c, t, "transform (acts on the caller's copy only)", false);
}

void h_run(Case &c) {
  Draw &d = c.head; model.clear();
  static const char *syns[] = {"pack:2 [numa] l3:2 core:2 pu:2", "numa:3 pack:2 core:2 pu:1", "pack:3 [numa] [numa] core:3 pu:1", "group:2 pack:2 [numa] l2:2 core:1 pu:2", "[numa] pack:4 pu:2", "pack:2 core:4 pu:2"};
  const char *syn = d.pick(syns); bool ks = d.chance(1, 3); c.descf("synthetic=\"%s\"%s", syn, ks ? " all filters KEEP_STRUCTURE" : "");
  hwloc_topology_t t; hwloc_topology_init(&t); hwloc_topology_set_synthetic(t, syn); if (ks) hwloc_topology_set_all_types_filter(t, HWLOC_TYPE_FILTER_KEEP_STRUCTURE);
  // the NO_* flags only ignore what the OS/XML reports: everything the application adds must behave the same (F-C13-c)
  { unsigned long tf = 0; if (d.chance(1, 3)) { if (d.chance(1, 2)) tf |= HWLOC_TOPOLOGY_FLAG_NO_DISTANCES; if (d.chance(1, 3)) tf |= HWLOC_TOPOLOGY_FLAG_NO_MEMATTRS; if (d.chance(1, 3)) tf |= HWLOC_TOPOLOGY_FLAG_NO_CPUKINDS; } if (tf) { hwloc_topology_set_flags(t, tf); c.descf(" flags=0x%lx", tf); c.cls("topology-flags:NO_*"); } }
  CHECK(c, hwloc_topology_load(t) == 0, "setup", "load failed");
  { int nswitch = d.range(0, 3); for (int i = 0; i < nswitch; i++) { hwloc_obj_t o = sel_obj_with_sets(d, t); hwloc_obj_set_subtype(t, o, "NVSwitch"); } }
  static const int types[] = {HWLOC_OBJ_PU, HWLOC_OBJ_CORE, HWLOC_OBJ_PACKAGE, HWLOC_OBJ_NUMANODE, HWLOC_OBJ_L2CACHE, HWLOC_OBJ_L3CACHE, HWLOC_OBJ_GROUP, HWLOC_OBJ_MACHINE};
  static const char *names[] = {"a", "b", "NUMALatency", "x<&>\"y"};
  int adds = 0, events = 0, gets_after = 0; bool tail_removed = false; size_t nprefix = (size_t)c.head.range(0, 3);
  for (size_t s = 0; s < c.ops.size(); s++) {
    Draw &o = c.ops[s]; int op = o.range(0, 15); bool force_valid = s < nprefix; if (force_valid) op = 0;   // histories start with up to three valid adds: every other operation needs a populated list
    if (op <= 3) {  // add
      unsigned long kind = 0; int kf = o.range(0, 5); kind |= kf == 0 ? 0 : kf <= 2 ? HWLOC_DISTANCES_KIND_FROM_OS : kf <= 4 ? HWLOC_DISTANCES_KIND_FROM_USER : (HWLOC_DISTANCES_KIND_FROM_OS | HWLOC_DISTANCES_KIND_FROM_USER);
      int kv = o.range(0, 7); kind |= kv == 0 ? 0 : kv <= 2 ? HWLOC_DISTANCES_KIND_VALUE_LATENCY : kv <= 4 ? HWLOC_DISTANCES_KIND_VALUE_BANDWIDTH : kv <= 6 ? HWLOC_DISTANCES_KIND_VALUE_HOPS : (HWLOC_DISTANCES_KIND_VALUE_LATENCY | HWLOC_DISTANCES_KIND_VALUE_BANDWIDTH);
      if (force_valid) { if (kf == 5) kind &= ~(unsigned long)HWLOC_DISTANCES_KIND_FROM_OS, kf = 3; if (kv == 7) kind &= ~(unsigned long)HWLOC_DISTANCES_KIND_VALUE_BANDWIDTH, kv = 2; }
      if (!force_valid && o.chance(1, 16)) kind |= 1UL << o.range(7, 20);
      bool bad = kf == 5 || kv == 7 || (kind >> 7);
      bool hn = o.chance(1, 2); const char *nm = hn ? o.pick(names) : NULL;
      std::vector<hwloc_obj_t> pool; bool hetero = o.chance(1, 4); int ty = o.pick(types);
      if (hetero) { for (int k = 0; k < 3; k++) { int ty2 = o.pick(types); hwloc_obj_t x = NULL; while ((x = hwloc_get_next_obj_by_type(t, (hwloc_obj_type_t)ty2, x))) if (std::find(pool.begin(), pool.end(), x) == pool.end()) pool.push_back(x); } }
      else { hwloc_obj_t x = NULL; while ((x = hwloc_get_next_obj_by_type(t, (hwloc_obj_type_t)ty, x))) pool.push_back(x); }
      for (size_t i = pool.size(); i > 1; i--) std::swap(pool[i - 1], pool[o.raw() % i]);   // generated permutation
      unsigned nb = o.chance(1, 8) ? o.range(0, 1) : o.range(2, 6); if (force_valid && nb < 2) nb = 2; if (nb > pool.size()) nb = (unsigned)pool.size(); pool.resize(nb);
      unsigned long cflags = o.chance(1, 20) ? 1 : 0; if (force_valid) cflags = 0; std::string what = strf("add(name=%s kind=0x%lx nb=%u %s cflags=%lu)", nm ? nm : "NULL", kind, nb, hetero ? "mixed" : hwloc_obj_type_string((hwloc_obj_type_t)ty), cflags); c.attempt(what);
      hwloc_distances_add_handle_t h = hwloc_distances_add_create(t, nm, kind, cflags);
      if (!h) { CHECK(c, bad || cflags, "add_create", "%s: add_create failed for a legal kind (errno %d)", what.c_str(), errno); c.desc("\n | " + what + " -> create rejected"); fullcheck(c, t, "rejected add_create", false); continue; }
      CHECK(c, !bad && !cflags, "add_invalid", "%s: add_create accepted an invalid kind or flags", what.c_str());
      std::vector<uint64_t> v(nb * nb + 1); int base = o.range(1, 5); for (unsigned i = 0; i < nb * nb; i++) v[i] = o.chance(1, 8) ? 0 : o.chance(1, 8) ? ((uint64_t)o.raw() << o.range(0, 33)) : (uint64_t)base * o.range(1, 4);
      std::vector<hwloc_obj_t> arr(pool); arr.push_back(NULL); unsigned long aflags = o.chance(1, 20) ? 2 : 0; if (force_valid) aflags = 0;
      int r = hwloc_distances_add_values(t, h, nb, arr.data(), v.data(), aflags);
      if (nb < 2 || aflags) { CHECK(c, r == -1, "add_invalid", "%s: add_values accepted nbobjs=%u flags=%lu", what.c_str(), nb, aflags); c.desc("\n | " + what + " -> values rejected"); fullcheck(c, t, "rejected add_values", false); continue; }
      CHECK(c, r == 0, "add_values", "%s: add_values failed errno %d", what.c_str(), errno);
      unsigned long cf = o.chance(1, 12) ? 1UL << o.range(2, 8) : 0; if (force_valid) cf = 0; r = hwloc_distances_add_commit(t, h, cf);
      if (cf) { CHECK(c, r == -1, "add_invalid", "%s: commit accepted unknown flag 0x%lx", what.c_str(), cf); c.desc("\n | " + what + " -> commit rejected"); fullcheck(c, t, "rejected add_commit", false); continue; }
      CHECK(c, r == 0, "add_commit", "%s: commit failed errno %d", what.c_str(), errno);
      Ent e; e.hasname = hn; if (hn) e.name = nm; int ut = pool[0]->type; for (auto x : pool) if ((int)x->type != ut) ut = -1; e.utype = ut; e.kind = kind | (ut == -1 ? HWLOC_DISTANCES_KIND_HETEROGENEOUS_TYPES : 0);
      for (auto x : pool) e.objs.push_back({(int)x->type, useos(ut) ? x->os_index : x->gp_index}); v.resize(nb * nb); e.vals = v; model.push_back(e);
      c.desc("\n | " + what + " -> added"); adds++; if (tail_removed) { c.cls("add:after-the-list-tail-was-removed"); tail_removed = false; } c.cls(ut == -1 ? "add:heterogeneous" : "add:homogeneous"); fullcheck(c, t, "add", false);
    } else if (op <= 5) { unsigned long kind = o.range(0, 63); unsigned nrin = o.range(0, (int)model.size() + 1), nr = nrin; struct hwloc_distances_s *dd[80]; memset(dd, 0x5a, sizeof dd); errno = 0; int r = hwloc_distances_get(t, &nr, dd, kind, 0);
      if (kind & ~(unsigned long)KIND_ALL) CHECK(c, r == -1 && errno == EINVAL, "get_invalid", "get with unknown kind bits 0x%lx: ret %d", kind, r); else { checkget(c, t, r, nrin, nr, dd, NULL, -1, kind, "get"); if (adds && events) gets_after++; c.cls(nrin < model.size() ? "get:undersized-array" : "get:full-array"); }
      c.descf("\n | get(kind=0x%lx, array=%u)", kind, nrin);
    } else if (op == 6) { int ty = o.pick(types); unsigned long kind = o.chance(3, 4) ? 0 : o.range(0, 63); unsigned nrin = o.range(0, (int)model.size() + 1), nr = nrin; struct hwloc_distances_s *dd[80]; memset(dd, 0x5a, sizeof dd); int r = hwloc_distances_get_by_type(t, (hwloc_obj_type_t)ty, &nr, dd, kind, 0);
      if (kind & ~(unsigned long)KIND_ALL) CHECK(c, r == -1, "get_invalid", "get_by_type with unknown kind bits"); else { checkget(c, t, r, nrin, nr, dd, NULL, ty, kind, "get_by_type"); if (adds && events) gets_after++; } c.descf("\n | get_by_type(%s)", hwloc_obj_type_string((hwloc_obj_type_t)ty));
    } else if (op == 7) { const char *nm = o.pick(names); unsigned nrin = o.range(0, (int)model.size() + 1), nr = nrin; struct hwloc_distances_s *dd[80]; memset(dd, 0x5a, sizeof dd); int r = hwloc_distances_get_by_name(t, nm, &nr, dd, 0); checkget(c, t, r, nrin, nr, dd, nm, -1, 0, "get_by_name"); if (adds && events) gets_after++; c.descf("\n | get_by_name(%s)", nm);
    } else if (op == 8) { int depth = o.range(-8, hwloc_topology_get_depth(t)); unsigned nrin = o.range(0, (int)model.size() + 1), nr = nrin; struct hwloc_distances_s *dd[80]; memset(dd, 0x5a, sizeof dd); int ty = (int)hwloc_get_depth_type(t, depth); errno = 0; int r = hwloc_distances_get_by_depth(t, depth, &nr, dd, 0, 0);
      if (ty == -1) CHECK(c, r == -1 && errno == EINVAL, "get_invalid", "get_by_depth(%d) on a non-existing depth: ret %d errno %d", depth, r, errno); else { checkget(c, t, r, nrin, nr, dd, NULL, ty, 0, "get_by_depth"); if (adds && events) gets_after++; } c.descf("\n | get_by_depth(%d)", depth);
    } else if (op == 9) { int w = o.range(0, 6);
      if (w == 6) { int ty = o.pick(types); if (!model.empty() && o.chance(2, 3)) { int ut = model[o.raw() % model.size()].utype; if (ut >= 0) ty = ut; } int td = hwloc_get_type_depth(t, (hwloc_obj_type_t)ty); int r = hwloc_distances_remove_by_type(t, (hwloc_obj_type_t)ty); CHECK(c, r == 0, "remove", "remove_by_type(%s) failed", hwloc_obj_type_string((hwloc_obj_type_t)ty));
        if (td != HWLOC_TYPE_DEPTH_UNKNOWN && td != HWLOC_TYPE_DEPTH_MULTIPLE) { std::vector<Ent> nm; for (auto &e : model) if (e.utype != ty) nm.push_back(e); if (nm.size() != model.size()) events++; if (!model.empty() && model.back().utype == ty && !nm.empty()) { c.cls("remove:tail-with-survivors"); tail_removed = true; } model = nm; }
        c.descf("\n | remove_by_type(%s)", hwloc_obj_type_string((hwloc_obj_type_t)ty)); fullcheck(c, t, "remove_by_type", false); } else
      if (w == 0) { CHECK(c, hwloc_distances_remove(t) == 0, "remove", "remove failed"); model.clear(); events++; c.desc("\n | remove()"); fullcheck(c, t, "remove", false); }
      else if (w <= 2) { int depth = o.range(-8, hwloc_topology_get_depth(t)); if (!model.empty() && o.chance(2, 3)) { int ut = model[o.raw() % model.size()].utype; if (ut >= 0) { int td = hwloc_get_type_depth(t, (hwloc_obj_type_t)ut); if (td != HWLOC_TYPE_DEPTH_UNKNOWN && td != HWLOC_TYPE_DEPTH_MULTIPLE) depth = td; } } /* usually the depth of an existing structure (first, middle or last of the list) */ int ty = (int)hwloc_get_depth_type(t, depth); int r = hwloc_distances_remove_by_depth(t, depth);
        if (ty == -1) CHECK(c, r == -1, "remove_invalid", "remove_by_depth(%d) on a non-existing depth accepted", depth); else { CHECK(c, r == 0, "remove", "remove_by_depth failed"); std::vector<Ent> nm; for (auto &e : model) if (e.utype != ty) nm.push_back(e); if (nm.size() != model.size()) events++; if (!model.empty() && model.back().utype == ty && !nm.empty()) { c.cls("remove:tail-with-survivors"); tail_removed = true; } model = nm; }
        c.descf("\n | remove_by_depth(%d)", depth); fullcheck(c, t, "remove_by_depth", false); }
      else if (model.size()) { unsigned nr = 64; struct hwloc_distances_s *dd[64]; hwloc_distances_get(t, &nr, dd, 0, 0); unsigned k = o.raw() % nr; for (unsigned i = 0; i < nr; i++) if (i != k) hwloc_distances_release(t, dd[i]);
        CHECK(c, hwloc_distances_release_remove(t, dd[k]) == 0, "remove", "release_remove failed"); model.erase(model.begin() + k); events++; c.descf("\n | release_remove(#%u)", k); fullcheck(c, t, "release_remove", false); }
    } else if (op <= 11) {  // restrict
      hwloc_bitmap_t set = hwloc_bitmap_alloc(); int dens = o.range(3, 9); hwloc_obj_t pu = NULL; while ((pu = hwloc_get_next_obj_by_type(t, HWLOC_OBJ_PU, pu))) if ((int)(o.raw() % 10) < dens) hwloc_bitmap_set(set, pu->os_index);
      unsigned long fl = o.chance(1, 2) ? HWLOC_RESTRICT_FLAG_REMOVE_CPULESS : 0;
      if (o.chance(1, 3)) {   // by nodeset: the same bookkeeping (cached object pointers of the matrices) has to follow
        hwloc_bitmap_zero(set); hwloc_obj_t nn = NULL; while ((nn = hwloc_get_next_obj_by_type(t, HWLOC_OBJ_NUMANODE, nn))) if ((int)(o.raw() % 10) < dens) hwloc_bitmap_set(set, nn->os_index); if (hwloc_bitmap_iszero(set)) hwloc_bitmap_set(set, hwloc_get_obj_by_type(t, HWLOC_OBJ_NUMANODE, 0)->os_index);
        fl = HWLOC_RESTRICT_FLAG_BYNODESET | (o.chance(1, 2) ? HWLOC_RESTRICT_FLAG_REMOVE_MEMLESS : 0); c.cls("restrict:by-nodeset"); }
      c.attempt("restrict " + bstr(set)); int r = hwloc_topology_restrict(t, set, fl); c.descf("\n | restrict(%s, 0x%lx)=%d", bstr(set).c_str(), fl, r); hwloc_bitmap_free(set);
      if (r == 0) { std::vector<Ent> nm; bool changed = false;
        for (auto &e : model) { std::vector<int> keep; for (size_t i = 0; i < e.objs.size(); i++) if (lookup(t, e.objs[i].first, e.objs[i].second, useos(e.utype))) keep.push_back((int)i); if (keep.size() < e.objs.size()) changed = true; if (keep.size() < 2) continue;
          Ent n = e; n.objs.clear(); n.vals.clear(); for (int i : keep) n.objs.push_back(e.objs[i]); for (int i : keep) for (int j : keep) n.vals.push_back(e.vals[i * e.objs.size() + j]); nm.push_back(n); }
        model = nm; if (changed) { events++; c.cls("restrict:removed-listed-object"); } }
      fullcheck(c, t, "restrict", false);
    } else if (op == 12) { hwloc_topology_t n; CHECK(c, hwloc_topology_dup(&n, t) == 0, "dup", "dup failed");
      if (o.chance(1, 2)) { hwloc_topology_destroy(t); t = n; fullcheck(c, t, "dup (continue on the copy)", false); } else { fullcheck(c, n, "dup (copy)", false); hwloc_topology_destroy(n); fullcheck(c, t, "dup (original)", false); } events++; c.desc("\n | dup");
    } else if (op == 13) { std::string x = export_xml(t); hwloc_topology_t n; hwloc_topology_init(&n); hwloc_topology_set_all_types_filter(n, HWLOC_TYPE_FILTER_KEEP_ALL); hwloc_topology_set_xmlbuffer(n, x.c_str(), (int)x.size() + 1);
      CHECK(c, hwloc_topology_load(n) == 0, "xml_reload", "reload of the exported XML failed"); hwloc_topology_destroy(t); t = n; events++; c.desc("\n | xml reload"); fullcheck(c, t, "xml reload", true);
    } else do_transform(c, o, t);
  }
  if (adds && events && gets_after) c.nontrivial();
  require_wf(c, t, "end"); hwloc_topology_destroy(t);
}

bool h_named(const std::string &name, Case &c) {
  model.clear(); hwloc_topology_t t; hwloc_topology_init(&t); hwloc_topology_set_synthetic(t, "pack:2 core:4 pu:2"); hwloc_topology_load(t);
  hwloc_obj_t objs[4]; for (int i = 0; i < 4; i++) objs[i] = hwloc_get_obj_by_type(t, HWLOC_OBJ_PU, i); hwloc_uint64_t v[16]; for (int i = 0; i < 16; i++) v[i] = 2 + i % 3;
  if (name == "F-C13-a") {   // MERGE_SWITCH_PORTS dropped every object after the first port
    c.desc("4 PUs, PU#1 and PU#2 are NVSwitch ports, PU#3 is not; MERGE_SWITCH_PORTS must keep PU#0, PU#1, PU#3");
    hwloc_obj_set_subtype(t, objs[1], "NVSwitch"); hwloc_obj_set_subtype(t, objs[2], "NVSwitch");
    hwloc_distances_add_handle_t h = hwloc_distances_add_create(t, "NVLinkBandwidth", HWLOC_DISTANCES_KIND_FROM_USER | HWLOC_DISTANCES_KIND_VALUE_BANDWIDTH, 0); hwloc_distances_add_values(t, h, 4, objs, v, 0); hwloc_distances_add_commit(t, h, 0);
    unsigned nr = 1; struct hwloc_distances_s *d; hwloc_distances_get(t, &nr, &d, 0, 0); int r = hwloc_distances_transform(t, d, HWLOC_DISTANCES_TRANSFORM_MERGE_SWITCH_PORTS, NULL, 0);
    CHECK(c, r == 0 && d->nbobjs == 3 && d->objs[0] == objs[0] && d->objs[1] == objs[1] && d->objs[2] == objs[3], "transform_merge", "ret %d, %u objects remain: every non-switch object and the first port must be kept", r, d->nbobjs);
    CHECK(c, d->values[0 * 3 + 2] == v[0 * 4 + 3] && d->values[2 * 3 + 0] == v[3 * 4 + 0], "transform_merge", "values between the non-switch objects changed");
    hwloc_distances_release(t, d);
  } else if (name == "F-C13-b") {   // named matrix without FROM_ bit never returned by name
    c.desc("add_create(\"a\", VALUE_LATENCY) then get_by_name(\"a\")");
    hwloc_distances_add_handle_t h = hwloc_distances_add_create(t, "a", HWLOC_DISTANCES_KIND_VALUE_LATENCY, 0); hwloc_distances_add_values(t, h, 4, objs, v, 0); hwloc_distances_add_commit(t, h, 0);
    unsigned nr = 0; int r = hwloc_distances_get_by_name(t, "a", &nr, NULL, 0); CHECK(c, r == 0 && nr == 1, "get_filter", "get_by_name returned %d with *nr=%u, expected 1 structure", r, nr);
  } else if (name == "F-C05-b") {   // kind 0 matrix made the whole XML reload fail
    c.desc("matrix committed with kind=0, export, reload");
    hwloc_distances_add_handle_t h = hwloc_distances_add_create(t, "k0", 0, 0); CHECK(c, h != NULL, "named_setup", "kind 0 rejected by add_create"); hwloc_distances_add_values(t, h, 4, objs, v, 0); hwloc_distances_add_commit(t, h, 0);
    std::string x = export_xml(t); hwloc_topology_t n; hwloc_topology_init(&n); hwloc_topology_set_xmlbuffer(n, x.c_str(), (int)x.size() + 1); CHECK(c, hwloc_topology_load(n) == 0, "xml_reload", "reload of the exported XML failed");
    unsigned nr = 0; hwloc_distances_get(n, &nr, NULL, 0, 0); CHECK(c, nr == 1, "list", "reloaded topology has %u distances structures", nr); hwloc_topology_destroy(n);
  } else if (name == "F-C13-c") {   // NO_DISTANCES/NO_MEMATTRS/NO_CPUKINDS topologies: restrict did not invalidate what the application added (dangling object pointers)
    c.desc("flags NO_DISTANCES|NO_MEMATTRS|NO_CPUKINDS; user distances over PU#0..3, a Bandwidth value and a CPU kind; restrict to PU#0-1; distances_get / memattr / cpukinds queries");
    hwloc_topology_destroy(t); hwloc_topology_init(&t); hwloc_topology_set_flags(t, HWLOC_TOPOLOGY_FLAG_NO_DISTANCES | HWLOC_TOPOLOGY_FLAG_NO_MEMATTRS | HWLOC_TOPOLOGY_FLAG_NO_CPUKINDS); hwloc_topology_set_synthetic(t, "pack:2 [numa] core:4 pu:2"); hwloc_topology_load(t);
    for (int i = 0; i < 4; i++) objs[i] = hwloc_get_obj_by_type(t, HWLOC_OBJ_PU, i * 4);
    hwloc_distances_add_handle_t h = hwloc_distances_add_create(t, "user", HWLOC_DISTANCES_KIND_FROM_USER | HWLOC_DISTANCES_KIND_VALUE_LATENCY, 0); CHECK(c, h && hwloc_distances_add_values(t, h, 4, objs, v, 0) == 0 && hwloc_distances_add_commit(t, h, 0) == 0, "named_setup", "cannot add distances");
    struct hwloc_location loc; loc.type = HWLOC_LOCATION_TYPE_CPUSET; loc.location.cpuset = hwloc_get_obj_by_type(t, HWLOC_OBJ_PACKAGE, 0)->cpuset; hwloc_obj_t n1 = hwloc_get_obj_by_type(t, HWLOC_OBJ_NUMANODE, 1);
    // (with NO_MEMATTRS the standard attributes do not exist: the application registers its own)
    { hwloc_memattr_id_t id = 0; errno = 0; int r0 = hwloc_memattr_register(t, "mine", HWLOC_MEMATTR_FLAG_HIGHER_FIRST | HWLOC_MEMATTR_FLAG_NEED_INITIATOR, &id); int r = r0 == 0 ? hwloc_memattr_set_value(t, id, n1, &loc, 0, 77) : -1; CHECK(c, r0 == 0 && r == 0, "named_setup", "cannot register/set a memory attribute: %d %d errno %d", r0, r, errno); }
    hwloc_bitmap_t k = hwloc_bitmap_alloc(); hwloc_bitmap_set_range(k, 6, 11); CHECK(c, hwloc_cpukinds_register(t, k, 3, NULL, 0) == 0, "named_setup", "cannot register a CPU kind"); hwloc_bitmap_free(k);
    hwloc_bitmap_t keep = hwloc_bitmap_alloc(); hwloc_bitmap_set_range(keep, 0, 7); CHECK(c, hwloc_topology_restrict(t, keep, HWLOC_RESTRICT_FLAG_REMOVE_CPULESS) == 0, "named_setup", "restrict failed"); hwloc_bitmap_free(keep);
    require_wf(c, t, "after restrict");
    std::string d1 = dump_topology(t, DUMP_GP | DUMP_EXTRAS);    // distances_get (objects of removed PUs were freed), memattr targets, cpukinds
    unsigned nr = 4; struct hwloc_distances_s *dd[4]; CHECK(c, hwloc_distances_get(t, &nr, dd, 0, 0) == 0, "list", "distances_get failed");
    for (unsigned i = 0; i < nr && i < 4; i++) { for (unsigned j = 0; j < dd[i]->nbobjs; j++) CHECK(c, dd[i]->objs[j] && dd[i]->objs[j]->type == HWLOC_OBJ_PU && hwloc_bitmap_isset(hwloc_topology_get_topology_cpuset(t), dd[i]->objs[j]->os_index), "restrict_objs", "distances structure still refers to a removed object"); hwloc_distances_release(t, dd[i]); }
    hwloc_bitmap_t ks = hwloc_bitmap_alloc(); int nk = hwloc_cpukinds_get_nr(t, 0); for (int i = 0; i < nk; i++) { hwloc_cpukinds_get_info(t, i, ks, NULL, NULL, 0); CHECK(c, hwloc_bitmap_isincluded(ks, hwloc_topology_get_topology_cpuset(t)), "restrict_cpukinds", "CPU kind %d still contains removed PUs: %s", i, bstr(ks).c_str()); } hwloc_bitmap_free(ks);
    CHECK(c, hwloc_topology_refresh(t) == 0, "refresh", "refresh failed"); std::string d2 = dump_topology(t, DUMP_GP | DUMP_EXTRAS); CHECK(c, d1 == d2, "refresh", "refresh changed the observable state: %s", first_diff(d1, d2).c_str());
  } else { hwloc_topology_destroy(t); return false; }
  hwloc_topology_destroy(t); return true;
}
