// C04 — bitmap <-> string conversions round-trip and honour the snprintf contract (DESIGN.md section 4, C04).
// Domain: bitmaps built by lock-step histories (as C03) x three formats x every buffer length; strings = printed text, mutated
// printed text, grammar-generated and arbitrary bytes, always parsed from an exactly-sized heap block.
#include "bitgen.hpp"
#include "bitstr.hpp"

static Case *g_case;
static void fail_cb(const char *rule, const char *msg) { g_case->fail(rule, "%s", msg); }

void h_configure(HConfig &cfg) {
  cfg.property = "C04"; cfg.name = "c04_strings";
  cfg.rule = "case = bitmap history (1..10 calls) + per-format print contract at every buffer length + round trip + 3 mutated/generated strings per format; non-trivial = the bitmap is infinite or multi-word, or a generated string was accepted although it is not the canonical print form; distinct by hash of history and strings";
  cfg.head_len = 200; cfg.op_len = 12; cfg.max_ops = 10; cfg.leak_check = false;
}

static std::string mutate(Draw &d, std::string mu, int fmt) {
  static const char al[] = "0123456789abcdefxXF,-. f~+\t";
  int nm = d.range(1, 3);
  for (int i = 0; i < nm; i++) {
    int w = d.range(0, 5); size_t pos = mu.empty() ? 0 : d.range(0, (int)mu.size());
    if (w == 0 && !mu.empty()) mu.erase(pos < mu.size() ? pos : mu.size() - 1, 1);
    else if (w == 1) mu.insert(pos, 1, al[d.range(0, sizeof al - 2)]);
    else if (w == 2 && !mu.empty()) mu[pos < mu.size() ? pos : mu.size() - 1] = al[d.range(0, sizeof al - 2)];
    else if (w == 3) mu = mu.substr(0, pos);
    else if (w == 4) { static const char *tok0[] = {"0xf...f", "0xf...f,", ",", "0x", "0x0", "0xffffffff", ",0x1", "0x00000000,", "0x1,,0x2"}; static const char *tok1[] = {"-", "0-", "5-3", "1-2-3", ",,", "7,", "0x10", "010", " 3", "4 -6"}; static const char *tok2[] = {"0xf...f", "0x", "0xf...f0", "ff", "0x0000000000000000f", "0xf...ff...f"};
      std::string t = fmt == 0 ? d.pick(tok0) : fmt == 1 ? d.pick(tok1) : d.pick(tok2); mu.insert(pos, t); }
    else mu += (char)d.range(1, 255);
  }
  return mu;
}
static std::string grammar_string(Draw &d, int fmt) {
  std::string s; int n = d.range(0, 5);
  if (fmt == 0) { if (d.chance(1, 4)) s = "0xf...f"; for (int i = 0; i < n; i++) { if (!s.empty()) s += ","; char b[32]; int style = d.range(0, 3); unsigned v = d.chance(1, 4) ? 0 : d.raw() ^ (d.raw() << 2); snprintf(b, sizeof b, style == 0 ? "0x%08x" : style == 1 ? "0x%x" : style == 2 ? "%x" : "0X%X", v); s += b; } }
  else if (fmt == 1) { for (int i = 0; i < n; i++) { if (!s.empty()) s += d.chance(1, 6) ? " " : ","; long a = bit_index(d); s += std::to_string(a); if (d.chance(1, 2)) { s += "-"; if (!(i == n - 1 && d.chance(1, 3))) s += std::to_string(a + d.range(0, 100)); } } }
  else { s = d.chance(1, 8) ? "" : "0x"; if (d.chance(1, 4)) s += "f...f"; int digs = d.range(0, 40); for (int i = 0; i < digs; i++) s += "0123456789abcdefABCDEF"[d.range(0, 21)]; }
  return s;
}

void h_run(Case &c) {
  g_case = &c; bitstr_fail = fail_cb;
  Draw &d = c.head;
  std::vector<Slot> S(2); for (auto &s : S) s.b = hwloc_bitmap_alloc();
  { int n = d.range(1, 3); for (int k = 0; k < n; k++) c.desc(bitmap_step(c, d, S, 0) + "; "); }
  for (size_t k = 0; k < c.ops.size(); k++) c.desc(bitmap_step(c, c.ops[k], S, c.ops[k].range(0, 1)) + "; ");
  const Slot &A = S[0]; same_as_model(c, A.b, A.m, "history");
  c.descf(" A=%s", A.m.str().substr(0, 300).c_str());
  bool nontriv = A.m.inf >= 0 || (!A.m.empty() && A.m.last() >= 64);
  if (A.m.inf >= 0) c.cls("bitmap:infinite"); else if (A.m.empty()) c.cls("bitmap:empty"); else if (A.m.last() >= 64) c.cls("bitmap:multiword"); else c.cls("bitmap:one-word");
  for (int fmt = 0; fmt < 3; fmt++) {
    const BitFmt &f = BITFMT[fmt];
    if (fmt != 1 && A.m.highest_interesting() > 40000) { c.cls("skipped:huge-hex-text"); continue; }  // > 5000 characters x all lengths: cost only
    std::string text = check_print(f, A.b, d.raw());
    // round trip into a fresh and into a dirty destination
    for (int dirty = 0; dirty < 2; dirty++) {
      hwloc_bitmap_t D = hwloc_bitmap_alloc(); if (dirty) { hwloc_bitmap_set_range(D, d.range(0, 300), d.chance(1, 2) ? -1 : 1400); }
      int rc = parse_exact(f, D, text);
      CHECK(c, rc == 0, "roundtrip", "%s sscanf rejected the printed text [%s]", f.name, text.substr(0, 300).c_str());
      same_as_model(c, D, A.m, (std::string(f.name) + " round trip of [" + text.substr(0, 200) + "]").c_str());
      CHECK(c, hwloc_bitmap_isequal(D, A.b), "roundtrip", "%s round trip not isequal", f.name);
      hwloc_bitmap_free(D);
    }
    for (int k = 0; k < 3; k++) {
      int how = d.range(0, 3); std::string s;
      if (how <= 1) s = mutate(d, text.size() > 300 ? text.substr(d.chance(1, 2) ? 0 : text.size() - 300, 300) : text, fmt);
      else if (how == 2) s = grammar_string(d, fmt);
      else { int n = d.range(0, 24); for (int i = 0; i < n; i++) s += (char)d.range(1, 255); }
      int r = check_parse_arbitrary(fmt, s);
      c.descf(" %s:[%s]->%d", f.name, qstr(s.substr(0, 120).c_str()).c_str(), r);
      c.cls(r == 1 ? "string:accepted" : r == 0 ? "string:rejected" : "string:skipped-costly");
      if (r == 1 && s != text) { c.cls("string:accepted-noncanonical"); nontriv = true; }
    }
  }
  c.checks(bitstr_checks);
  if (nontriv) c.nontrivial();
  for (auto &s : S) hwloc_bitmap_free(s.b);
}

bool h_named(const std::string &name, Case &c) {
  g_case = &c; bitstr_fail = fail_cb;
  struct { const char *id; int fmt; const char *s; } T[] = {
    {"F-C04-a", 0, ""},                 // reads past the NUL
    {"F-C04-b1", 0, ",0x1"},            // assert(count > 0)
    {"F-C04-b2", 0, "0xf...f,"},        // accepted with an uninitialised word
    {"F-C04-b3", 0, "0x1,"},
  };
  for (auto &t : T) if (name == t.id) { c.descf("%s sscanf(%s) into fresh/dirty/full destinations", BITFMT[t.fmt].name, qstr(t.s).c_str()); int r = check_parse_arbitrary(t.fmt, t.s); c.descf(" -> %d", r); return true; }
  return false;
}
