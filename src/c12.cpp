// C12 — hwloc_topology_dup yields an equivalent, fully independent topology (DESIGN.md section 4, C12).
// Domain: TopoSpec o history (pre-dup ops, incl. restricts that empty structures without freeing them) -> dup -> second history
// applied to one of the two copies (generated side) -> destroy in generated order.
// Oracle: canonical dumps (incl. gp_index, userdata pointers, filters, flags, support) and XML exports equal right after dup;
// wf_check(copy); after mutating one side the other side's dump and XML are unchanged; both destroys clean under ASan/LSan.
#include "ops.hpp"

void h_configure(HConfig &cfg) {
  cfg.property = "C12"; cfg.name = "c12_dup";
  cfg.rule = "case = TopoSpec + pre-dup history + dup + post-dup history on one side + destroy order; non-trivial = the pre-dup topology has distances, memattr values, cpukinds, infos or Misc objects AND the post-dup history has at least one successful structural call; distinct by hash of the decoded case";
  cfg.head_len = 360; cfg.op_len = 200; cfg.max_ops = 12; cfg.leak_check = true;
}

static bool include_known(const char *id) { const char *e = getenv("VERIF_INCLUDE_KNOWN"); return e && (strstr(e, id) || !strcmp(e, "all")); }

void h_run(Case &c) {
  Draw &d = c.head;
  SpecOpts so; so.misc_keep = d.chance(2, 3); so.syn.max_pus = 48; so.xml_den = 6; so.gx_num = 1; so.gx_den = 6;
  TopoSpec sp = gen_topospec(d, so);
  c.desc(sp.text());
  hwloc_topology_t t; hwloc_topology_init(&t);
  if (apply_spec_and_load(c, t, sp) < 0) { hwloc_topology_destroy(t); c.discard(); }
  OpOpts oo; oo.allow_cpuless_nodeset_group = include_known("F-C02-d");
  size_t npre = c.ops.empty() ? 0 : d.range(0, (int)c.ops.size());
  UDMap ud; ud.tag_all(t); hwloc_topology_set_userdata(t, (void *)0x777);
  // one case in four starts with three or four distances structures (the list a duplicate has to rebuild link by link)
  if (d.chance(1, 4)) { static const hwloc_obj_type_t tys[] = {HWLOC_OBJ_PU, HWLOC_OBJ_NUMANODE, HWLOC_OBJ_CORE, HWLOC_OBJ_PACKAGE, HWLOC_OBJ_PU}; int want = d.range(3, 4), made = 0;
    for (int k = 0; k < 5 && made < want; k++) { hwloc_obj_type_t ty = tys[(k + d.raw()) % 5]; int n = hwloc_get_nbobjs_by_type(t, ty); if (n < 2) continue; if (n > 4) n = 4; std::vector<hwloc_obj_t> objs; for (int i = 0; i < n; i++) objs.push_back(hwloc_get_obj_by_type(t, ty, i)); std::vector<hwloc_uint64_t> v((size_t)n * n); for (size_t i = 0; i < v.size(); i++) v[i] = 10 + made * 100 + i;
      hwloc_distances_add_handle_t h = hwloc_distances_add_create(t, strf("pre%d", made).c_str(), HWLOC_DISTANCES_KIND_FROM_USER | HWLOC_DISTANCES_KIND_VALUE_BANDWIDTH, 0); if (h && hwloc_distances_add_values(t, h, (unsigned)n, objs.data(), v.data(), 0) == 0 && hwloc_distances_add_commit(t, h, 0) == 0) made++; }
    c.descf("\n pre| %d distances structures", made); c.cls("pre:three-or-more-distances"); }
  for (size_t i = 0; i < npre; i++) { OpRes r = apply_op(c, c.ops[i], t, oo); c.desc("\n pre| " + r.desc); ud.tag_all(t); }
  bool rich = false;
  { unsigned nr = 0; hwloc_distances_get(t, &nr, NULL, 0, 0); if (nr) { rich = true; c.cls("pre:distances"); } }
  if (hwloc_cpukinds_get_nr(t, 0) > 0) { rich = true; c.cls("pre:cpukinds"); }
  if (hwloc_get_nbobjs_by_type(t, HWLOC_OBJ_MISC) > 0) { rich = true; c.cls("pre:misc"); }
  { std::string m = dump_memattrs(t, DUMP_GP); if (m.find(" target ") != std::string::npos) { rich = true; c.cls("pre:memattr-values"); } }
  for (auto o : all_objs(t)) if (o->infos.count) { rich = true; break; }
  for (hwloc_obj_t n = NULL; (n = hwloc_get_next_obj_by_type(t, HWLOC_OBJ_NUMANODE, n));) if (!n->attr->numanode.local_memory && n->attr->numanode.page_types_len) { c.cls("pre:memoryless-numa-node-with-page-types"); break; }
  if (!sp.xmlbuf.empty()) c.cls("source:generated-xml");
  std::string dump_o = dump_topology(t), xml_o = export_xml(t);
  hwloc_topology_t cp = NULL;
  int r = hwloc_topology_dup(&cp, t);
  CHECK(c, r == 0 && cp, "dup", "hwloc_topology_dup returned %d", r);
  require_wf(c, cp, "copy after dup");
  std::string df = first_diff(dump_o, dump_topology(cp));
  CHECK(c, df.empty(), "dup_equal", "copy differs from the original right after dup: %s", df.c_str());
  CHECK(c, export_xml(cp) == xml_o, "dup_xml", "XML export of the copy differs from the original's");
  CHECK(c, first_diff(dump_o, dump_topology(t)).empty(), "dup_source_unchanged", "dup changed the original");
  // mutate one side
  bool mutate_copy = d.chance(1, 2); hwloc_topology_t mut = mutate_copy ? cp : t, other = mutate_copy ? t : cp;
  c.descf("\n dup; mutating the %s", mutate_copy ? "copy" : "original");
  bool structural = false;
  for (size_t i = npre; i < c.ops.size(); i++) {
    OpRes rr = apply_op(c, c.ops[i], mut, oo); c.desc("\n post| " + rr.desc); if (rr.ok && rr.structural) structural = true;
    // a few direct mutations of annotations as well
    if (c.ops[i].chance(1, 3)) { hwloc_obj_t o = sel_obj(c.ops[i], mut); hwloc_obj_add_info(o, "dupk", "dupv"); free(o->name); o->name = strdup("renamed"); if (o->type == HWLOC_OBJ_NUMANODE && o->attr->numanode.page_types_len) o->attr->numanode.page_types[0].count += 7; }
    df = first_diff(dump_o, dump_topology(other));
    CHECK(c, df.empty(), "dup_independent", "modifying one topology changed what the other reports (after %s): %s", rr.desc.substr(0, 200).c_str(), df.c_str());
  }
  require_wf(c, mut, "mutated side"); require_wf(c, other, "untouched side");
  CHECK(c, export_xml(other) == xml_o, "dup_independent_xml", "XML export of the untouched side changed");
  if (rich && structural) c.nontrivial();
  // destroy in generated order; the survivor must still be fully usable in between
  bool first_mut = d.chance(1, 2);
  hwloc_topology_destroy(first_mut ? mut : other);
  hwloc_topology_t left = first_mut ? other : mut;
  require_wf(c, left, "survivor after destroying the other");
  std::string dl = dump_topology(left); (void)export_xml(left);
  if (left == other) CHECK(c, first_diff(dump_o, dl).empty(), "dup_independent_destroy", "destroying one topology changed the other");
  hwloc_topology_destroy(left);
  c.descf("\n destroyed %s first", first_mut ? "mutated" : "untouched");
}

static hwloc_bitmap_t bm(const char *list) { hwloc_bitmap_t b = hwloc_bitmap_alloc(); hwloc_bitmap_list_sscanf(b, list); return b; }
bool h_named(const std::string &name, Case &c) {
  if (name == "F-C12-a") {   // emptied memattr initiator array shared between the copies
    c.desc("synthetic numa:2 core:2 pu:2; Bandwidth value node0/initiator PU7; restrict(0-6); refresh; dup; destroy copy; destroy original");
    hwloc_topology_t t; hwloc_topology_init(&t); hwloc_topology_set_synthetic(t, "numa:2 core:2 pu:2"); hwloc_topology_load(t);
    struct hwloc_location loc; loc.type = HWLOC_LOCATION_TYPE_CPUSET; loc.location.cpuset = hwloc_get_obj_by_type(t, HWLOC_OBJ_PU, 7)->cpuset;
    hwloc_memattr_set_value(t, HWLOC_MEMATTR_ID_BANDWIDTH, hwloc_get_obj_by_type(t, HWLOC_OBJ_NUMANODE, 0), &loc, 0, 100);
    hwloc_bitmap_t s = bm("0-6"); hwloc_topology_restrict(t, s, 0); hwloc_bitmap_free(s); hwloc_topology_refresh(t);
    hwloc_topology_t cp; hwloc_topology_dup(&cp, t); hwloc_topology_destroy(cp); hwloc_topology_destroy(t); return true;
  }
  if (name == "F-C15-a") {   // stale cpukind slot after a restrict removed a kind
    c.desc("synthetic pack:2 core:2 pu:1; kinds {0,1} and {2,3} with infos; restrict({0,1}); register {0}; dup; destroy both");
    hwloc_topology_t t; hwloc_topology_init(&t); hwloc_topology_set_synthetic(t, "pack:2 core:2 pu:1"); hwloc_topology_load(t);
    struct hwloc_info_s inf; inf.name = (char *)"CoreType"; inf.value = (char *)"big"; struct hwloc_infos_s infs; infs.array = &inf; infs.count = 1; infs.allocated = 1;
    hwloc_bitmap_t a = bm("0-1"), b = bm("2-3"), z = bm("0"); hwloc_cpukinds_register(t, a, 1, &infs, 0); hwloc_cpukinds_register(t, b, 2, &infs, 0);
    hwloc_topology_restrict(t, a, 0); hwloc_cpukinds_register(t, z, 3, &infs, 0);
    require_wf(c, t, "after register");
    hwloc_topology_t cp; hwloc_topology_dup(&cp, t); (void)dump_topology(cp); hwloc_topology_destroy(cp); (void)dump_topology(t); hwloc_topology_destroy(t);
    hwloc_bitmap_free(a); hwloc_bitmap_free(b); hwloc_bitmap_free(z); return true;
  }
  return false;
}
