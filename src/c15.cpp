// C15 — CPU kinds always partition the registered PUs and are ranked consistently (DESIGN.md section 4, C15).
// Model (independent of hwloc's split/merge algorithm): kind of PU p = the set of registration indexes that covered p; kinds are the
// non-empty classes; infos(kind) = duplicate-free union of those registrations' infos; forced(kind) = efficiency of the last one.
#include "ops.hpp"
#include <algorithm>

void h_configure(HConfig &cfg) {
  cfg.property = "C15"; cfg.name = "c15_cpukinds";
  cfg.rule = "case = small synthetic topology + history over {register (valid/invalid), restrict, dup-and-continue, XML-reload-and-continue} with the full model comparison and get_by_cpuset queries after every step; non-trivial = at least 3 registrations with at least one split (new set intersects/is included in an existing kind) and one merge (contains/equals); distinct by hash of the history";
  cfg.head_len = 64; cfg.op_len = 64; cfg.max_ops = 10; cfg.leak_check = true;
}

struct Reg { USet s; int fe; std::vector<std::pair<std::string, std::string>> infos; };
typedef std::map<std::vector<int>, USet> Classes;

static Classes model_classes(const std::vector<Reg> &regs) {
  Classes cl; USet universe; for (auto &r : regs) universe.insert(r.s.begin(), r.s.end());
  for (auto x : universe) { std::vector<int> key; for (size_t i = 0; i < regs.size(); i++) if (regs[i].s.count(x)) key.push_back((int)i); if (!key.empty()) cl[key].insert(x); }
  return cl;
}

static void compare_with_model(Case &c, hwloc_topology_t t, const std::vector<Reg> &regs, Draw &d, const char *after) {
  Classes classes = model_classes(regs);
  errno = 0; CHECK(c, hwloc_cpukinds_get_nr(t, 1) == -1 && errno == EINVAL, "get_nr_flags", "get_nr with non-zero flags did not fail with EINVAL");
  int nr = hwloc_cpukinds_get_nr(t, 0);
  CHECK(c, nr == (int)classes.size(), "partition", "after %s: %d kinds reported, model has %zu classes", after, nr, classes.size());
  USet seen, uni; for (auto &kv : classes) uni.insert(kv.second.begin(), kv.second.end());
  bool allknown = true, allminus = true; std::vector<int> effs, forced; std::vector<USet> kindsets;
  for (int i = 0; i < nr; i++) {
    hwloc_bitmap_t b = hwloc_bitmap_alloc(); int eff = -2; struct hwloc_infos_s *inf = NULL;
    CHECK(c, hwloc_cpukinds_get_info(t, i, b, &eff, &inf, 0) == 0, "get_info", "get_info(%d) failed", i);
    USet k; std::string why; CHECK(c, to_uset(b, k, &why), "partition", "kind %d cpuset: %s", i, why.c_str());
    CHECK(c, !k.empty(), "partition", "kind %d is empty (after %s)", i, after);
    CHECK(c, disjoint(seen, k), "partition", "kind %d {%s} intersects a previous kind (after %s)", i, ustr(k).c_str(), after);
    seen.insert(k.begin(), k.end()); kindsets.push_back(k);
    const std::vector<int> *key = nullptr; for (auto &kv : classes) if (kv.second == k) key = &kv.first;
    CHECK(c, key != nullptr, "partition", "kind %d {%s} is not a class of the model (after %s)", i, ustr(k).c_str(), after);
    std::vector<std::pair<std::string, std::string>> exp, got;
    for (int ri : *key) for (auto &pr : regs[ri].infos) if (std::find(exp.begin(), exp.end(), pr) == exp.end()) exp.push_back(pr);
    for (unsigned j = 0; inf && j < inf->count; j++) got.push_back({inf->array[j].name, inf->array[j].value});
    auto se = exp, sg = got; std::sort(se.begin(), se.end()); std::sort(sg.begin(), sg.end());
    CHECK(c, se == sg, "infos", "infos of kind %d {%s}: got %zu pairs, the covering registrations carry %zu distinct pairs (after %s)", i, ustr(k).c_str(), got.size(), exp.size(), after);
    effs.push_back(eff); if (eff == -1) allknown = false; else allminus = false; forced.push_back(regs[key->back()].fe);
    CHECK(c, hwloc_cpukinds_get_by_cpuset(t, b, 0) == i, "get_by_cpuset", "get_by_cpuset(cpuset of kind %d) = %d", i, hwloc_cpukinds_get_by_cpuset(t, b, 0));
    // a proper subset of the kind
    if (k.size() > 1) { hwloc_bitmap_clr(b, *k.begin()); CHECK(c, hwloc_cpukinds_get_by_cpuset(t, b, 0) == i, "get_by_cpuset", "get_by_cpuset(subset of kind %d) = %d", i, hwloc_cpukinds_get_by_cpuset(t, b, 0)); }
    // the kind plus a PU outside every kind: only partially covered -> EXDEV
    hwloc_bitmap_set(b, 900); errno = 0; CHECK(c, hwloc_cpukinds_get_by_cpuset(t, b, 0) == -1 && errno == EXDEV, "get_by_cpuset", "partially covered set: errno %d instead of EXDEV", errno);
    hwloc_bitmap_free(b);
  }
  CHECK(c, seen == uni, "partition", "union of kinds {%s} != union of registered cpusets {%s} (after %s)", ustr(seen).c_str(), ustr(uni).c_str(), after);
  CHECK(c, allknown || allminus, "efficiency", "efficiencies are neither all -1 nor all known");
  if (allknown) for (int i = 0; i < nr; i++) CHECK(c, effs[i] == i, "efficiency", "efficiency of kind %d is %d", i, effs[i]);
  bool fk = true; for (int f : forced) if (f < 0) fk = false; std::set<int> fs(forced.begin(), forced.end());
  if (fk && (int)fs.size() == nr && nr > 1) { CHECK(c, allknown, "efficiency", "all forced efficiencies known and distinct but kinds are unranked"); CHECK(c, std::is_sorted(forced.begin(), forced.end()), "efficiency", "kind order is not the order of the forced efficiencies"); c.cls("ranked-by-forced"); }
  // queries
  { hwloc_bitmap_t q = hwloc_bitmap_alloc(); hwloc_bitmap_set(q, 901); errno = 0; CHECK(c, hwloc_cpukinds_get_by_cpuset(t, q, 0) == -1 && errno == ENOENT, "get_by_cpuset", "disjoint set: errno %d instead of ENOENT", errno);
    hwloc_bitmap_zero(q); errno = 0; int r = hwloc_cpukinds_get_by_cpuset(t, q, 0); CHECK(c, r == -1 && errno == EINVAL, "get_by_cpuset", "empty set: ret %d errno %d instead of EINVAL", r, errno);
    errno = 0; r = hwloc_cpukinds_get_by_cpuset(t, NULL, 0); CHECK(c, r == -1 && errno == EINVAL, "get_by_cpuset", "NULL set: ret %d errno %d", r, errno);
    if (nr >= 2) { hwloc_bitmap_zero(q); hwloc_bitmap_set(q, *kindsets[0].begin()); hwloc_bitmap_set(q, *kindsets[1].begin()); errno = 0; CHECK(c, hwloc_cpukinds_get_by_cpuset(t, q, 0) == -1 && errno == EXDEV, "get_by_cpuset", "straddling set: errno %d instead of EXDEV", errno); }
    errno = 0; CHECK(c, hwloc_cpukinds_get_info(t, nr + d.range(0, 3), NULL, NULL, NULL, 0) == -1 && errno == ENOENT, "get_info", "get_info beyond nr: errno %d", errno);
    hwloc_bitmap_free(q); }
}

void h_run(Case &c) {
  Draw &d = c.head;
  static const char *syn[] = {"pack:2 core:4 pu:2", "pu:8", "numa:2 pack:2 core:2 pu:2", "pack:3 [numa] core:2 pu:1", "core:16 pu:1"};
  const char *s = d.pick(syn); c.descf("synthetic=\"%s\"", s);
  hwloc_topology_t t; hwloc_topology_init(&t); hwloc_topology_set_synthetic(t, s);
  // NO_CPUKINDS only ignores the kinds reported by the OS/XML: registered kinds must behave the same (F-C13-c)
  unsigned long tf0 = 0; if (d.chance(1, 3)) { tf0 = HWLOC_TOPOLOGY_FLAG_INCLUDE_DISALLOWED; c.cls("topology-flags:INCLUDE_DISALLOWED"); }   // disallowed PUs stay in the topology: kinds follow the topology, not the allowed set
  { unsigned long tf = tf0; if (d.chance(1, 3)) { if (d.chance(2, 3)) tf |= HWLOC_TOPOLOGY_FLAG_NO_CPUKINDS; if (d.chance(1, 3)) tf |= HWLOC_TOPOLOGY_FLAG_NO_MEMATTRS; if (d.chance(1, 3)) tf |= HWLOC_TOPOLOGY_FLAG_NO_DISTANCES; } if (tf) { hwloc_topology_set_flags(t, tf); c.descf(" flags=0x%lx", tf); c.cls("topology-flags:NO_*"); } }
  CHECK(c, hwloc_topology_load(t) == 0, "setup", "load failed");
  int npu = hwloc_get_nbobjs_by_type(t, HWLOC_OBJ_PU);
  std::vector<Reg> regs; int splits = 0, merges = 0;
  for (size_t op = 0; op < c.ops.size(); op++) {
    Draw &o = c.ops[op]; int k = o.range(0, 11); std::string what;
    if (k <= 6) {
      Reg r; int m = o.range(0, 4);
      if (m == 0) { int a = o.range(0, npu - 1), b = o.range(0, npu - 1); for (int i = std::min(a, b); i <= std::max(a, b); i++) r.s.insert(i); }
      else if (m == 1 && !regs.empty()) { r.s = regs[o.raw() % regs.size()].s; if (o.chance(1, 2) && r.s.size() > 1) r.s.erase(r.s.begin()); }   // equal to / included in an earlier registration
      else { for (int i = 0; i < npu + 2; i++) if (o.chance(1, 4)) r.s.insert(i < npu ? i : 100 + i); }
      if (r.s.empty()) r.s.insert(o.range(0, npu - 1));
      r.fe = o.chance(1, 3) ? -1 : o.range(0, 5); int ni = o.range(0, 3);
      for (int i = 0; i < ni; i++) r.infos.push_back({std::string("k") + char('0' + o.range(0, 2)), std::string("v") + char('0' + o.range(0, 2))});
      { std::vector<std::pair<std::string, std::string>> dd; for (auto &p : r.infos) if (std::find(dd.begin(), dd.end(), p) == dd.end()) dd.push_back(p); /* exact duplicates inside one call count once */ r.infos = dd; }
      // classification against the model before the call
      for (auto &kv : model_classes(regs)) { USet i = inter(kv.second, r.s); if (!i.empty() && i != kv.second) splits++; else if (!i.empty()) merges++; }
      hwloc_bitmap_t b = hwloc_bitmap_alloc(); for (auto x : r.s) hwloc_bitmap_set(b, x);
      std::vector<hwloc_info_s> ia; for (auto &pr : r.infos) ia.push_back({(char *)pr.first.c_str(), (char *)pr.second.c_str()});
      struct hwloc_infos_s is; is.array = ia.data(); is.count = (unsigned)ia.size(); is.allocated = (unsigned)ia.size();
      what = strf("register({%s}, eff=%d, %zu infos)", ustr(r.s).c_str(), r.fe, r.infos.size()); c.attempt(what);
      int rc = hwloc_cpukinds_register(t, b, r.fe, ni ? &is : NULL, 0);
      CHECK(c, rc == 0, "register", "%s returned %d errno %d", what.c_str(), rc, errno);
      hwloc_bitmap_free(b); regs.push_back(r); c.cls("op:register");
    } else if (k == 7) {
      int before = hwloc_cpukinds_get_nr(t, 0); hwloc_bitmap_t b = hwloc_bitmap_alloc(); int w = o.range(0, 2); errno = 0; int rc;
      if (w == 0) { rc = hwloc_cpukinds_register(t, b, 1, NULL, 0); what = "register(empty)"; }
      else if (w == 1) { hwloc_bitmap_set(b, 1); rc = hwloc_cpukinds_register(t, b, 1, NULL, 1UL << o.range(0, 8)); what = "register(non-zero flags)"; }
      else { rc = hwloc_cpukinds_register(t, NULL, 1, NULL, 0); what = "register(NULL)"; }
      CHECK(c, rc == -1 && errno == EINVAL, "register_invalid", "%s returned %d errno %d", what.c_str(), rc, errno);
      CHECK(c, hwloc_cpukinds_get_nr(t, 0) == before, "register_invalid", "%s changed the number of kinds", what.c_str());
      hwloc_bitmap_free(b); c.cls("op:register-invalid");
    } else if (k <= 9 && tf0 && o.chance(1, 2)) {   // change the allowed sets: kinds must not move
      hwloc_bitmap_t b = hwloc_bitmap_alloc(); for (int i = 0; i < npu; i++) if (hwloc_bitmap_isset(hwloc_topology_get_topology_cpuset(t), i) && o.chance(1, 2)) hwloc_bitmap_set(b, i); if (hwloc_bitmap_iszero(b)) hwloc_bitmap_set(b, hwloc_bitmap_first(hwloc_topology_get_topology_cpuset(t)));
      int r = hwloc_topology_allow(t, b, NULL, HWLOC_ALLOW_FLAG_CUSTOM); what = strf("allow(CUSTOM, %s)=%d", bstr(b).c_str(), r); CHECK(c, r == 0, "allow", "%s failed errno %d", what.c_str(), errno); hwloc_bitmap_free(b); c.cls("op:allow");
    } else if (k <= 9) {
      USet keep; for (int i = 0; i < npu; i++) if (hwloc_bitmap_isset(hwloc_topology_get_topology_cpuset(t), i) && !o.chance(1, 3)) keep.insert(i);
      if (keep.empty()) keep.insert(hwloc_bitmap_first(hwloc_topology_get_topology_cpuset(t)));
      hwloc_bitmap_t b = hwloc_bitmap_alloc(); for (auto x : keep) hwloc_bitmap_set(b, x);
      what = strf("restrict({%s})", ustr(keep).c_str()); c.attempt(what);
      if (hwloc_topology_restrict(t, b, 0) == 0) { USet topo; to_uset(hwloc_topology_get_topology_cpuset(t), topo); for (auto &r : regs) r.s = inter(r.s, topo); c.cls("op:restrict"); }
      hwloc_bitmap_free(b);
    } else if (k == 10) {
      hwloc_topology_t cp; CHECK(c, hwloc_topology_dup(&cp, t) == 0, "dup", "dup failed"); hwloc_topology_destroy(t); t = cp; what = "dup-and-continue"; c.cls("op:dup");
    } else {
      std::string x = export_xml(t); hwloc_topology_t n; hwloc_topology_init(&n); hwloc_topology_set_flags(n, tf0); hwloc_topology_set_xmlbuffer(n, x.c_str(), (int)x.size() + 1);
      CHECK(c, hwloc_topology_load(n) == 0, "xml_reload", "reload of the exported XML failed"); hwloc_topology_destroy(t); t = n; what = "xml-reload-and-continue"; c.cls("op:xml-reload");
    }
    c.desc("\n | " + what);
    compare_with_model(c, t, regs, o, what.c_str());
  }
  if (regs.size() >= 3 && splits >= 1 && merges >= 1) c.nontrivial();
  if (splits) c.cls("had-split"); if (merges) c.cls("had-merge");
  require_wf(c, t, "end"); hwloc_topology_destroy(t);
}
