// C02 — well-formedness is preserved by every history of modifying calls (DESIGN.md section 4, C02).
// Domain: TopoSpec x history of 1..12 ops from the alphabet of ops.hpp (valid and invalid arguments).
// Oracle after every step: wf_check + hwloc_topology_check; calls documented to leave the topology untouched on failure leave the
// full canonical dump unchanged; gp_index / userdata of surviving objects and the topology userdata never change.
#include "ops.hpp"

void h_configure(HConfig &cfg) {
  cfg.property = "C02"; cfg.name = "c02_history";
  cfg.rule = "case = TopoSpec + history of modifying calls; non-trivial = at least 2 successful structure-changing calls of different kinds in the history; distinct by hash of the decoded history text";
  cfg.head_len = 360; cfg.op_len = 200; cfg.max_ops = 12; cfg.leak_check = true;
}

static bool include_known(const char *id) { const char *e = getenv("VERIF_INCLUDE_KNOWN"); return e && (strstr(e, id) || !strcmp(e, "all")); }
static OpOpts known_exclusions() {
  OpOpts o;
  // open known findings are excluded by construction (and counted); see known_findings.json.  VERIF_INCLUDE_KNOWN=<ids>|all re-enables them.
  o.allow_dont_merge = true;                                   // F-C02-a was fixed
  o.allow_dist_group = true;                                   // F-C02-b was fixed
  o.allow_cpuless_nodeset_group = include_known("F-C02-d");
  return o;
}

static void run_history(Case &c, hwloc_topology_t t, const OpOpts &oo) {
  UDMap ud; ud.tag_all(t);
  void *topo_ud = (void *)0xabcdef0; hwloc_topology_set_userdata(t, topo_ud);
  int structural_kinds = 0, nstruct = 0; int prev_kind = -1;
  for (size_t s = 0; s < c.ops.size(); s++) {
    std::string before = dump_topology(t);
    OpRes r = apply_op(c, c.ops[s], t, oo);
    c.desc("\n | " + r.desc);
    if (getenv("VERIF_TRACE")) { FILE *tf = fopen(getenv("VERIF_TRACE"), "a"); if (tf) { fprintf(tf, "==== after step %zu: %s\n%s\n", s, r.desc.c_str(), dump_topology(t).c_str()); fclose(tf); } }
    c.cls((std::string("op:") + op_kind_name[r.kind] + (r.ok ? ":ok" : ":failed")).c_str());
    if (prev_kind >= 0) c.cls((std::string("pair:") + op_kind_name[prev_kind] + ">" + op_kind_name[r.kind]).c_str());
    prev_kind = r.kind;
    require_wf(c, t, ("after step " + std::to_string(s) + " " + r.desc.substr(0, 200)).c_str());
    if (r.must_unchanged) {
      std::string after = dump_topology(t);
      std::string df = first_diff(before, after);
      CHECK(c, df.empty(), "unchanged_on_failure", "failed call changed the topology (step %zu: %s): %s", s, r.desc.substr(0, 300).c_str(), df.c_str());
    }
    ud.verify(c, t, r.may_add_objects, r.desc.substr(0, 200).c_str());
    CHECK(c, hwloc_topology_get_userdata(t) == topo_ud, "topology_userdata", "topology userdata pointer changed by %s", r.desc.substr(0, 200).c_str());
    if (r.ok && r.structural) { nstruct++; if (!(structural_kinds >> r.kind & 1)) structural_kinds |= 1 << r.kind; }
  }
  if (__builtin_popcount(structural_kinds) >= 2) c.nontrivial();
  if (nstruct >= 2) c.cls("history:>=2-structural");
}

void h_run(Case &c) {
  Draw &d = c.head;
  SpecOpts so; so.misc_keep = d.chance(2, 3); so.syn.max_pus = 64; so.xml_den = 8; so.gx_num = 1; so.gx_den = 6;
  TopoSpec sp = gen_topospec(d, so);
  // one case in eight: a memory-rich machine (NUMA nodes attached at up to three depths, 4..12 of them at one depth), the shape on which
  // distances between NUMA nodes, memory attributes and Groups of NUMA nodes are realistic
  bool numa_rich = d.chance(1, 8);
  if (numa_rich) { unsigned k1 = d.range(2, 6), k2 = d.range(1, 3), k3 = d.range(1, 2); int a = d.range(0, 1), b = d.range(0, 2), cc = d.range(0, 1); if (!b && !cc) b = 1; std::string sdesc; for (int i = 0; i < a; i++) sdesc += "[numa] ";
    sdesc += strf("%s:%u ", d.chance(1, 2) ? "pack" : "group", k1); if (k2 > 1 || cc) { for (int i = 0; i < b; i++) sdesc += "[numa] "; sdesc += strf("%s:%u ", d.chance(1, 2) ? "die" : "l3", k2); for (int i = 0; i < cc; i++) sdesc += "[numa] "; } else for (int i = 0; i < b; i++) sdesc += "[numa] ";
    sdesc += strf("pu:%u", k3); if (d.chance(1, 3)) { size_t pos; while ((pos = sdesc.find("[numa]")) != std::string::npos) sdesc.replace(pos, 6, "[numa(memorysidecachesize=64MB)]"); sp.filters[HWLOC_OBJ_MEMCACHE] = HWLOC_TYPE_FILTER_KEEP_ALL; sp.filters[HWLOC_OBJ_MISC] = HWLOC_TYPE_FILTER_KEEP_ALL; c.cls("source:numa-rich+memcache"); }
    sp.is_xml = false; sp.xmlpath.clear(); sp.xmlbuf.clear(); sp.synth = sdesc; c.cls("source:numa-rich"); }
  c.desc(sp.text());
  hwloc_topology_t t; hwloc_topology_init(&t);
  if (apply_spec_and_load(c, t, sp) < 0) { hwloc_topology_destroy(t); c.discard(); }
  require_wf(c, t, "after load");
  // one start in three: Misc objects below an object AND below its parent, so that level merges caused by later restricts have
  // special children to combine on both sides (seeded change C02: the merged parent's misc_arity)
  if (so.misc_keep && d.chance(1, 3)) { int k = d.range(1, 3); auto objs = all_objs(t); std::vector<hwloc_obj_t> cand; for (auto o : objs) if (o->cpuset && o->parent && !hwloc_obj_type_is_memory(o->type)) cand.push_back(o);
    for (int i = 0; i < k && !cand.empty(); i++) { hwloc_obj_t o = cand[d.raw() % cand.size()]; hwloc_obj_t m1 = hwloc_topology_insert_misc_object(t, o, "below-child"), m2 = hwloc_topology_insert_misc_object(t, o->parent, "below-parent"); CHECK(c, m1 && m2, "misc_insert", "Misc insertion failed although the Misc filter keeps them"); c.descf("\n | start: Misc below %s#%u and below its parent", hwloc_obj_type_string(o->type), o->logical_index); }
    require_wf(c, t, "after the initial Misc insertions"); c.cls("start:misc-on-parent-and-child");
    // half of these starts continue with a restrict to one decorated object's cpuset (or to one of its children's): everything above it becomes
    // a single-child chain, which is what makes levels merge
    if (d.chance(1, 2) && !cand.empty()) { hwloc_obj_t o = cand[d.raw() % cand.size()]; if (o->first_child && d.chance(1, 2)) o = o->first_child; hwloc_bitmap_t set = hwloc_bitmap_dup(o->cpuset);
      static const unsigned long fl[] = {0, HWLOC_RESTRICT_FLAG_ADAPT_MISC, HWLOC_RESTRICT_FLAG_ADAPT_MISC | HWLOC_RESTRICT_FLAG_ADAPT_IO, HWLOC_RESTRICT_FLAG_REMOVE_CPULESS, HWLOC_RESTRICT_FLAG_REMOVE_CPULESS | HWLOC_RESTRICT_FLAG_ADAPT_MISC}; unsigned long f = d.pick(fl);
      std::string ty = hwloc_obj_type_string(o->type); unsigned li = o->logical_index; int r = hwloc_topology_restrict(t, set, f); c.descf("\n | start: restrict(cpuset of %s#%u %s, flags=0x%lx)=%d", ty.c_str(), li, bstr(set).c_str(), f, r); hwloc_bitmap_free(set);
      require_wf(c, t, "after the initial restrict to a decorated object"); c.cls("start:restrict-to-decorated-object"); } }
  // one start in five: nested clusters of a whole level (NUMA nodes, packages, cores, ...) grouped by distances, which inserts one or two
  // Group levels at once (the completion of their sets depends on the order in which the new levels are visited)
  if (d.chance(1, 5) || (numa_rich && d.chance(1, 2))) { static const hwloc_obj_type_t tys[] = {HWLOC_OBJ_NUMANODE, HWLOC_OBJ_PACKAGE, HWLOC_OBJ_CORE, HWLOC_OBJ_PU, HWLOC_OBJ_L2CACHE, HWLOC_OBJ_DIE}; hwloc_obj_type_t ty = d.pick(tys); if (numa_rich && d.chance(2, 3)) ty = HWLOC_OBJ_NUMANODE; int n = hwloc_get_nbobjs_by_type(t, ty);
    bool cpuless = false; for (hwloc_obj_t nn = NULL; (nn = hwloc_get_next_obj_by_type(t, HWLOC_OBJ_NUMANODE, nn));) if (hwloc_bitmap_iszero(nn->cpuset)) cpuless = true;
    std::vector<hwloc_obj_t> objs; { // NUMA nodes attached at several depths are different populations: take those whose parent sits at one depth
      std::vector<hwloc_obj_t> all; for (int i = 0; i < n; i++) all.push_back(hwloc_get_obj_by_type(t, ty, i)); if (ty == HWLOC_OBJ_NUMANODE && n) { int pd = all[d.raw() % all.size()]->parent->depth; for (auto o : all) if (o->parent->depth == pd) objs.push_back(o); } else objs = all; if (objs.size() > 12) { size_t st = d.raw() % (objs.size() - 11); objs = std::vector<hwloc_obj_t>(objs.begin() + st, objs.begin() + st + 12); } n = (int)objs.size(); }
    if (n >= 4 && !cpuless) { size_t in = 1 + d.range(0, 2), out = in * (2 + d.range(0, 1)); std::vector<hwloc_uint64_t> v((size_t)n * n);
      for (int i = 0; i < n; i++) for (int j = 0; j < n; j++) v[(size_t)i * n + j] = i == j ? 10 : i / in == j / in ? 20 : i / out == j / out ? 40 : 80;
      hwloc_distances_add_handle_t h = hwloc_distances_add_create(t, "nested", HWLOC_DISTANCES_KIND_FROM_USER | HWLOC_DISTANCES_KIND_VALUE_LATENCY, 0); int r = -1; c.attempt("start: nested grouping by distances");
      if (h && hwloc_distances_add_values(t, h, (unsigned)n, objs.data(), v.data(), 0) == 0) r = hwloc_distances_add_commit(t, h, HWLOC_DISTANCES_ADD_FLAG_GROUP);
      c.descf("\n | start: %d %s objects grouped by nested distances (inner %zu, outer %zu)=%d", n, hwloc_obj_type_string(ty), in, out, r); require_wf(c, t, "after the initial grouping by nested distances"); c.cls("start:nested-distance-groups"); if (r == 0 && hwloc_get_type_depth(t, HWLOC_OBJ_GROUP) == HWLOC_TYPE_DEPTH_MULTIPLE) c.cls(ty == HWLOC_OBJ_NUMANODE ? "start:two-group-levels-over-numa-nodes" : "start:two-group-levels"); } }
  run_history(c, t, known_exclusions());
  hwloc_topology_destroy(t);
}

// ---- named regressions ----------------------------------------------------------------------------------------------
static hwloc_topology_t load_syn(const char *s, unsigned long flags = 0) { hwloc_topology_t t; hwloc_topology_init(&t); hwloc_topology_set_flags(t, flags); hwloc_topology_set_type_filter(t, HWLOC_OBJ_MISC, HWLOC_TYPE_FILTER_KEEP_ALL); hwloc_topology_set_synthetic(t, s); hwloc_topology_load(t); return t; }
static hwloc_bitmap_t bm(const char *list) { hwloc_bitmap_t b = hwloc_bitmap_alloc(); hwloc_bitmap_list_sscanf(b, list); return b; }

bool h_named(const std::string &name, Case &c) {
  if (name == "F-C02-j") {  // KEEP_STRUCTURE merge: a child that replaces its parent has a complete_cpuset that starts later than the parent's (offline CPUs)
    c.desc("16em64t-4s2c2t-offlines.xml, all types KEEP_STRUCTURE, restrict to {1-2,11-15}: Packages/Cores with one PU are replaced by their PU, whose complete_cpuset starts after its siblings'");
    for (int variant = 0; variant < 2; variant++) { hwloc_topology_t t; hwloc_topology_init(&t); hwloc_topology_set_flags(t, variant ? HWLOC_TOPOLOGY_FLAG_INCLUDE_DISALLOWED : 0); hwloc_topology_set_all_types_filter(t, HWLOC_TYPE_FILTER_KEEP_STRUCTURE);
      CHECK(c, hwloc_topology_set_xml(t, (std::string(verif_repo()) + "/tests/hwloc/xml/16em64t-4s2c2t-offlines.xml").c_str()) == 0 && hwloc_topology_load(t) == 0, "named_setup", "load failed"); require_wf(c, t, "load");
      hwloc_bitmap_t s = bm("1-2,11-15"); int r = hwloc_topology_restrict(t, s, 0); hwloc_bitmap_free(s); CHECK(c, r == 0, "named_setup", "restrict failed"); require_wf(c, t, "after restrict({1-2,11-15})"); hwloc_topology_destroy(t); }
    return true; }
  if (name == "nested-numa-groups") {  // shape of a seeded change: two Group levels inserted at once above NUMA nodes, with a NUMA node attached above them
    c.desc("[numa] pack:8 [numa] pu:2; the 8 package NUMA nodes grouped by distances 20/40/80");
    hwloc_topology_t t = load_syn("[numa] pack:8 [numa] pu:2"); require_wf(c, t, "load"); std::vector<hwloc_obj_t> objs; for (hwloc_obj_t n = NULL; (n = hwloc_get_next_obj_by_type(t, HWLOC_OBJ_NUMANODE, n));) if (n->parent->depth > 0) objs.push_back(n);
    CHECK(c, objs.size() == 8, "named_setup", "%zu package NUMA nodes", objs.size()); hwloc_uint64_t v[64]; for (int i = 0; i < 8; i++) for (int j = 0; j < 8; j++) v[i * 8 + j] = i == j ? 10 : i / 2 == j / 2 ? 20 : i / 4 == j / 4 ? 40 : 80;
    hwloc_distances_add_handle_t h = hwloc_distances_add_create(t, "nested", HWLOC_DISTANCES_KIND_FROM_USER | HWLOC_DISTANCES_KIND_VALUE_LATENCY, 0); CHECK(c, h && hwloc_distances_add_values(t, h, 8, objs.data(), v, 0) == 0 && hwloc_distances_add_commit(t, h, HWLOC_DISTANCES_ADD_FLAG_GROUP) == 0, "named_setup", "add failed");
    CHECK(c, hwloc_get_type_depth(t, HWLOC_OBJ_GROUP) == HWLOC_TYPE_DEPTH_MULTIPLE, "named_setup", "two Group levels expected"); require_wf(c, t, "after the nested grouping"); hwloc_topology_destroy(t); return true; }
  if (name == "F-C01-b3") {  // the "two-step restrict with KEEP_STRUCTURE" defect named in the property list
    c.desc("synthetic pack:2 [numa] core:2 [numa] pu:1, Core filter KEEP_STRUCTURE; restrict({0-2}, REMOVE_CPULESS) then restrict({0,2}, REMOVE_CPULESS)");
    hwloc_topology_t t; hwloc_topology_init(&t); hwloc_topology_set_type_filter(t, HWLOC_OBJ_CORE, HWLOC_TYPE_FILTER_KEEP_STRUCTURE);
    hwloc_topology_set_synthetic(t, "pack:2 [numa] core:2 [numa] pu:1"); hwloc_topology_load(t); require_wf(c, t, "load");
    hwloc_bitmap_t s = bm("0-2"); hwloc_topology_restrict(t, s, HWLOC_RESTRICT_FLAG_REMOVE_CPULESS); hwloc_bitmap_free(s); require_wf(c, t, "restrict 0-2");
    s = bm("0,2"); hwloc_topology_restrict(t, s, HWLOC_RESTRICT_FLAG_REMOVE_CPULESS); hwloc_bitmap_free(s); require_wf(c, t, "restrict 0,2");
    hwloc_topology_destroy(t); return true;
  }
  if (name == "F-C02-c") {   // allow(CUSTOM) with a usable cpuset and a nodeset outside the topology: EINVAL must leave everything untouched
    c.desc("synthetic pack:2 core:2 pu:2 INCLUDE_DISALLOWED; allow(CUSTOM, cpuset={0-3}, nodeset={40})");
    hwloc_topology_t t = load_syn("pack:2 core:2 pu:2", HWLOC_TOPOLOGY_FLAG_INCLUDE_DISALLOWED);
    std::string before = dump_topology(t); hwloc_bitmap_t cs = bm("0-3"), ns = bm("40");
    int r = hwloc_topology_allow(t, cs, ns, HWLOC_ALLOW_FLAG_CUSTOM); CHECK(c, r == -1 && errno == EINVAL, "named_setup", "allow returned %d", r);
    std::string df = first_diff(before, dump_topology(t)); CHECK(c, df.empty(), "unchanged_on_failure", "failed allow changed the topology: %s", df.c_str());
    hwloc_bitmap_free(cs); hwloc_bitmap_free(ns); hwloc_topology_destroy(t); return true;
  }
  if (name == "F-C02-a") {   // dont_merge Group equal to an existing Group of a different kind
    c.desc("synthetic group:2 pack:2 pu:2; insert Group(cpuset of Group#0, kind=3, dont_merge=1)");
    hwloc_topology_t t = load_syn("group:2 pack:2 pu:2");
    hwloc_obj_t g0 = hwloc_get_obj_by_type(t, HWLOC_OBJ_GROUP, 0); CHECK(c, g0 != NULL, "named_setup", "no Group level");
    hwloc_obj_t g = hwloc_topology_alloc_group_object(t); g->cpuset = hwloc_bitmap_dup(g0->cpuset); g->attr->group.kind = 3; g->attr->group.dont_merge = 1;
    hwloc_topology_insert_group_object(t, g); require_wf(c, t, "after dont_merge group insertion");
    hwloc_topology_destroy(t); return true;
  }
  if (name == "F-C02-g") {   // two dont_merge Groups with identical sets and different kinds became siblings, the second one childless
    c.desc("synthetic l1:2 pu:2; insert Group(cpuset of PU#2, dont_merge, kind 0 subkind 2) then Group(same cpuset, dont_merge, kind 2)");
    hwloc_topology_t t = load_syn("l1:2 pu:2"); hwloc_obj_t pu = hwloc_get_obj_by_type(t, HWLOC_OBJ_PU, 2);
    hwloc_obj_t g = hwloc_topology_alloc_group_object(t); g->cpuset = hwloc_bitmap_dup(pu->cpuset); g->attr->group.dont_merge = 1; g->attr->group.subkind = 2;
    hwloc_obj_t r1 = hwloc_topology_insert_group_object(t, g); CHECK(c, r1 && r1->type == HWLOC_OBJ_GROUP, "named_setup", "first group not inserted"); require_wf(c, t, "after the first group");
    pu = hwloc_get_obj_by_type(t, HWLOC_OBJ_PU, 2); g = hwloc_topology_alloc_group_object(t); g->cpuset = hwloc_bitmap_dup(pu->cpuset); g->attr->group.dont_merge = 1; g->attr->group.kind = 2;
    hwloc_obj_t r2 = hwloc_topology_insert_group_object(t, g); CHECK(c, r2 != NULL, "named_setup", "second group rejected");
    require_wf(c, t, "after the second dont_merge group with the same cpuset"); std::string x = export_xml(t, 0); CHECK(c, !x.empty(), "export", "export failed");
    hwloc_topology_destroy(t); return true;
  }
  if (name == "F-C02-h") {   // Group inserted by cpuset among siblings that are ordered by complete_cpuset (offline CPUs)
    std::string f = std::string(verif_repo()) + "/tests/hwloc/xml/16em64t-4s2c2t-offlines.xml"; c.desc("16em64t-4s2c2t-offlines.xml; insert dont_merge Group(cpuset {6})");
    hwloc_topology_t t; hwloc_topology_init(&t); CHECK(c, hwloc_topology_set_xml(t, f.c_str()) == 0 && hwloc_topology_load(t) == 0, "named_setup", "cannot load %s", f.c_str());
    hwloc_obj_t g = hwloc_topology_alloc_group_object(t); g->cpuset = hwloc_bitmap_alloc(); hwloc_bitmap_set(g->cpuset, 6); g->attr->group.dont_merge = 1;
    hwloc_obj_t r = hwloc_topology_insert_group_object(t, g); CHECK(c, r && r->type == HWLOC_OBJ_GROUP, "named_setup", "group not inserted");
    require_wf(c, t, "after inserting the Group"); hwloc_topology_destroy(t); return true;
  }
  if (name == "F-C13-d") {   // NO_DISTANCES left topology->grouping uninitialised: add_commit(GROUP) grouped depending on garbage, even with Groups filtered out
    c.desc("flags NO_DISTANCES, Group filter KEEP_NONE, pack:4 pu:2 (heap pre-filled with 0x5a); add user distances over the 4 Packages with GROUP flags");
    // fill the heap with non-zero bytes so that an uninitialised field does not read as 0 by luck
    { std::vector<void *> blocks; for (int i = 0; i < 64; i++) { void *p = malloc(4096 + 64 * i); memset(p, 0x5a, 4096 + 64 * i); blocks.push_back(p); } for (void *p : blocks) free(p); }
    hwloc_topology_t t; hwloc_topology_init(&t); hwloc_topology_set_flags(t, HWLOC_TOPOLOGY_FLAG_NO_DISTANCES); hwloc_topology_set_type_filter(t, HWLOC_OBJ_GROUP, HWLOC_TYPE_FILTER_KEEP_NONE); hwloc_topology_set_synthetic(t, "pack:4 pu:2"); CHECK(c, hwloc_topology_load(t) == 0, "named_setup", "load failed");
    hwloc_obj_t objs[4]; for (int i = 0; i < 4; i++) objs[i] = hwloc_get_obj_by_type(t, HWLOC_OBJ_PACKAGE, i); hwloc_uint64_t v[16]; for (int i = 0; i < 4; i++) for (int j = 0; j < 4; j++) v[i * 4 + j] = i == j ? 10 : (i / 2 == j / 2) ? 20 : 40;
    hwloc_distances_add_handle_t h = hwloc_distances_add_create(t, "user", HWLOC_DISTANCES_KIND_FROM_USER | HWLOC_DISTANCES_KIND_VALUE_LATENCY, 0); CHECK(c, h && hwloc_distances_add_values(t, h, 4, objs, v, 0) == 0, "named_setup", "cannot add distances");
    int r = hwloc_distances_add_commit(t, h, HWLOC_DISTANCES_ADD_FLAG_GROUP | HWLOC_DISTANCES_ADD_FLAG_GROUP_INACCURATE); CHECK(c, r == 0, "named_setup", "commit failed");
    CHECK(c, hwloc_get_nbobjs_by_type(t, HWLOC_OBJ_GROUP) == 0, "no_grouping", "%d Groups were created although NO_DISTANCES disables grouping (and Groups are filtered out)", hwloc_get_nbobjs_by_type(t, HWLOC_OBJ_GROUP));
    require_wf(c, t, "after add_commit"); hwloc_topology_destroy(t); return true;
  }
  if (name == "F-C02-i") {   // restrict merges/removes Group levels but did not renumber attr->group.depth (an XML reload does)
    c.desc("synthetic numa:3(memory=512MB) group:2 l2:2 l1i:1 pu:2, all types KEEP_STRUCTURE; restrict({2,4,6}, REMOVE_CPULESS|ADAPT_MISC); the Group depths must be what an XML reload computes");
    hwloc_topology_t t; hwloc_topology_init(&t); hwloc_topology_set_all_types_filter(t, HWLOC_TYPE_FILTER_KEEP_STRUCTURE); hwloc_topology_set_synthetic(t, "numa:3(memory=512MB) group:2 l2:2(size=12582912) l1i:1 pu:2"); CHECK(c, hwloc_topology_load(t) == 0, "named_setup", "load failed");
    hwloc_bitmap_t s = bm("2,4,6"); CHECK(c, hwloc_topology_restrict(t, s, HWLOC_RESTRICT_FLAG_REMOVE_CPULESS | HWLOC_RESTRICT_FLAG_ADAPT_MISC) == 0, "named_setup", "restrict failed"); hwloc_bitmap_free(s); require_wf(c, t, "after restrict");
    std::string x = export_xml(t, 0); hwloc_topology_t n; hwloc_topology_init(&n); hwloc_topology_set_all_types_filter(n, HWLOC_TYPE_FILTER_KEEP_ALL); hwloc_topology_set_xmlbuffer(n, x.c_str(), (int)x.size() + 1); CHECK(c, hwloc_topology_load(n) == 0, "named_setup", "reload failed");
    std::string df = first_diff(dump_topology(t, DUMP_GP), dump_topology(n, DUMP_GP)); CHECK(c, df.empty(), "group_depth_after_restrict", "the topology differs from its XML reload after restrict: %s", df.c_str()); hwloc_topology_destroy(n); hwloc_topology_destroy(t); return true;
  }
  if (name == "F-C02-e") {   // Group inserted above an object with equal cpuset that owns memory children: stale total_memory
    c.desc("synthetic pack:2 l2:2 [numa] core:1 pu:1; insert dont_merge Group with the cpuset of L2#0");
    hwloc_topology_t t = load_syn("pack:2 l2:2 [numa] core:1 pu:1"); hwloc_obj_t l2 = hwloc_get_obj_by_type(t, HWLOC_OBJ_L2CACHE, 0);
    hwloc_obj_t g = hwloc_topology_alloc_group_object(t); g->cpuset = hwloc_bitmap_dup(l2->cpuset); g->attr->group.dont_merge = 1;
    hwloc_obj_t r = hwloc_topology_insert_group_object(t, g); CHECK(c, r && r->type == HWLOC_OBJ_GROUP, "named_setup", "group not inserted");
    require_wf(c, t, "after group insertion above L2"); hwloc_topology_destroy(t); return true;
  }
  if (name == "F-C14-a") {   // object initiator added after load: get_initiators returned an uninitialised object pointer
    c.desc("synthetic pu:1; Bandwidth value with a cpuset initiator, then with an object initiator; dump (get_initiators)");
    hwloc_topology_t t = load_syn("pu:1"); hwloc_obj_t n = hwloc_get_obj_by_type(t, HWLOC_OBJ_NUMANODE, 0); struct hwloc_location loc;
    loc.type = HWLOC_LOCATION_TYPE_CPUSET; loc.location.cpuset = hwloc_get_obj_by_type(t, HWLOC_OBJ_PU, 0)->cpuset; hwloc_memattr_set_value(t, HWLOC_MEMATTR_ID_BANDWIDTH, n, &loc, 0, 11);
    { volatile char pad[256]; for (unsigned i = 0; i < sizeof pad; i++) pad[i] = 0x5a; }
    loc.type = HWLOC_LOCATION_TYPE_OBJECT; loc.location.object = hwloc_get_root_obj(t); hwloc_memattr_set_value(t, HWLOC_MEMATTR_ID_BANDWIDTH, n, &loc, 0, 805);
    unsigned nr = 4; struct hwloc_location in[4]; hwloc_uint64_t v[4]; int r = hwloc_memattr_get_initiators(t, HWLOC_MEMATTR_ID_BANDWIDTH, n, 0, &nr, in, v);
    CHECK(c, r == 0 && nr == 2, "named_setup", "get_initiators returned %d nr=%u", r, nr);
    for (unsigned i = 0; i < nr; i++) if (in[i].type == HWLOC_LOCATION_TYPE_OBJECT) CHECK(c, in[i].location.object == hwloc_get_root_obj(t), "memattr_initiator_object", "object initiator is %p, expected the root object %p", (void *)in[i].location.object, (void *)hwloc_get_root_obj(t));
    hwloc_topology_destroy(t); return true;
  }
  if (name == "F-C02-f") {   // allow(ALL) on a topology whose complete sets contain offline resources
    c.desc("xml 16amd64-8n2c-cpusets.xml INCLUDE_DISALLOWED; allow(ALL)");
    hwloc_topology_t t; hwloc_topology_init(&t); hwloc_topology_set_flags(t, HWLOC_TOPOLOGY_FLAG_INCLUDE_DISALLOWED);
    hwloc_topology_set_xml(t, (std::string(verif_repo()) + "/tests/hwloc/xml/16amd64-8n2c-cpusets.xml").c_str());
    CHECK(c, hwloc_topology_load(t) == 0, "named_setup", "load failed"); require_wf(c, t, "load");
    int r = hwloc_topology_allow(t, NULL, NULL, HWLOC_ALLOW_FLAG_ALL); CHECK(c, r == 0, "named_setup", "allow(ALL) returned %d", r);
    require_wf(c, t, "after allow(ALL)"); hwloc_topology_destroy(t); return true;
  }
  if (name == "F-C12-b") {   // grouping parameters not copied by dup
    c.desc("synthetic pack:2 core:4 pu:1; dup; on the copy: distances over 8 PUs clustered 4+4 committed with GROUP");
    hwloc_topology_t t = load_syn("pack:2 core:4 pu:1"), cp; hwloc_topology_dup(&cp, t);
    hwloc_obj_t objs[8]; for (int i = 0; i < 8; i++) objs[i] = hwloc_get_obj_by_type(cp, HWLOC_OBJ_PU, i);
    hwloc_uint64_t v[64]; for (int i = 0; i < 8; i++) for (int j = 0; j < 8; j++) v[i * 8 + j] = i == j ? 10 : (i / 2 == j / 2) ? 12 : 40;
    hwloc_distances_add_handle_t h = hwloc_distances_add_create(cp, "d", HWLOC_DISTANCES_KIND_FROM_USER | HWLOC_DISTANCES_KIND_VALUE_LATENCY, 0);
    hwloc_distances_add_values(cp, h, 8, objs, v, 0); hwloc_distances_add_commit(cp, h, HWLOC_DISTANCES_ADD_FLAG_GROUP | HWLOC_DISTANCES_ADD_FLAG_GROUP_INACCURATE);
    require_wf(c, cp, "copy after grouping"); hwloc_topology_destroy(cp); hwloc_topology_destroy(t); return true;
  }
  if (name == "F-C02-b") {   // grouping by distances after load
    c.desc("synthetic numa:4 core:2 pu:1; distances over the 4 NUMA nodes clustered 2+2, commit with GROUP");
    hwloc_topology_t t = load_syn("numa:4 core:2 pu:1");
    hwloc_obj_t objs[4]; for (int i = 0; i < 4; i++) objs[i] = hwloc_get_obj_by_type(t, HWLOC_OBJ_NUMANODE, i);
    hwloc_uint64_t v[16]; for (int i = 0; i < 4; i++) for (int j = 0; j < 4; j++) v[i * 4 + j] = i == j ? 10 : (i / 2 == j / 2) ? 12 : 40;
    hwloc_distances_add_handle_t h = hwloc_distances_add_create(t, "d", HWLOC_DISTANCES_KIND_FROM_USER | HWLOC_DISTANCES_KIND_VALUE_LATENCY, 0);
    hwloc_distances_add_values(t, h, 4, objs, v, 0); int r = hwloc_distances_add_commit(t, h, HWLOC_DISTANCES_ADD_FLAG_GROUP);
    c.descf(" commit=%d groups=%d", r, hwloc_get_nbobjs_by_type(t, HWLOC_OBJ_GROUP));
    require_wf(c, t, "after distance-based grouping"); hwloc_topology_destroy(t); return true;
  }
  if (name == "F-C02-d") {   // Group given only a nodeset that names a CPU-less NUMA node
    c.desc("synthetic pack:4 [numa] pu:2; restrict({0-5}); Group with nodeset {0,1,3}");
    hwloc_topology_t t = load_syn("pack:4 [numa] pu:2"); hwloc_bitmap_t s = bm("0-5"); hwloc_topology_restrict(t, s, 0); hwloc_bitmap_free(s); require_wf(c, t, "restrict");
    hwloc_obj_t g = hwloc_topology_alloc_group_object(t); g->nodeset = bm("0,1,3"); hwloc_topology_insert_group_object(t, g);
    require_wf(c, t, "after nodeset-only group insertion"); hwloc_topology_destroy(t); return true;
  }
  return false;
}
