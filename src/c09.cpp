// C09 — traversal and locality helpers agree with their set-theoretic definitions (DESIGN.md section 4, C09).
// Oracle: brute force over all objects through child links, sets converted with isset only.
#include "ops.hpp"
#include <climits>
#include <algorithm>

void h_configure(HConfig &cfg) {
  cfg.property = "C09"; cfg.name = "c09_helpers";
  cfg.rule = "case = TopoSpec (symmetric, corpus XML with I/O) optionally followed by a restrict (CPU-less NUMA nodes, asymmetry) + 30 query sets x {covering, largest objects, inside/covering iterators, cpuset<->nodeset, singlify_per_core} + 30 ancestor pairs + 10 closest-objects queries + same-locality, type/depth lookups + 20 hwloc_distrib calls; non-trivial = a query set straddles at least 2 siblings or the topology is asymmetric; distinct by hash of the decoded case";
  cfg.head_len = 900; cfg.op_len = 1; cfg.max_ops = 1; cfg.leak_check = false;
}

void h_run(Case &c) {
  Draw &d = c.head;
  SpecOpts so; so.syn.max_pus = 64; so.gen_flags = false; TopoSpec sp = gen_topospec(d, so);
  if (sp.is_xml && d.chance(1, 2)) sp.filters[HWLOC_OBJ_PCI_DEVICE] = sp.filters[HWLOC_OBJ_OS_DEVICE] = sp.filters[HWLOC_OBJ_BRIDGE] = HWLOC_TYPE_FILTER_KEEP_ALL;
  c.desc(sp.text()); hwloc_topology_t t; hwloc_topology_init(&t);
  if (apply_spec_and_load(c, t, sp) < 0) { hwloc_topology_destroy(t); c.discard(); }
  if (d.chance(1, 2)) { hwloc_bitmap_t s = gen_subset(d, hwloc_topology_get_topology_cpuset(t), 3, 4); if (!hwloc_bitmap_iszero(s)) { int r = hwloc_topology_restrict(t, s, d.chance(1, 3) ? HWLOC_RESTRICT_FLAG_REMOVE_CPULESS : 0); c.descf(" restrict(%s)=%d", bstr(s).c_str(), r); } hwloc_bitmap_free(s); }
  require_wf(c, t, "topology");
  std::vector<hwloc_obj_t> normal, all = all_objs(t); for (auto o : all) if (is_normal(o->type)) normal.push_back(o);
  hwloc_obj_t root = hwloc_get_root_obj(t); USet rootcs; to_uset(root->cpuset, rootcs); std::vector<unsigned> pus(rootcs.begin(), rootcs.end());
  std::map<hwloc_obj_t, USet> CS; for (auto o : all) if (o->cpuset) to_uset(o->cpuset, CS[o]);
  bool nontrivial = !root->symmetric_subtree; int topodepth = hwloc_topology_get_depth(t);
  for (int q = 0; q < 30; q++) {
    USet S; int mode = d.range(0, 6);
    if (mode == 0) S = CS[normal[d.raw() % normal.size()]]; else if (mode == 1) { for (auto x : pus) if (d.chance(1, 2)) S.insert(x); } else if (mode == 2) { for (auto x : pus) if (d.chance(1, 6)) S.insert(x); } else if (mode == 3) S = rootcs; else if (mode == 4) { for (auto x : pus) if (d.chance(1, 2)) S.insert(x); S.insert(pus.back() + 1 + d.range(0, 40)); } else if (mode == 5) { S = CS[normal[d.raw() % normal.size()]]; USet o2 = CS[normal[d.raw() % normal.size()]]; S.insert(o2.begin(), o2.end()); }
    hwloc_bitmap_t bs = hwloc_bitmap_alloc(); for (auto x : S) hwloc_bitmap_set(bs, x); std::string Ss = ustr(S);
    // covering object = deepest normal object whose cpuset includes S (NULL for the empty set or S not in the root)
    { hwloc_obj_t cov = hwloc_get_obj_covering_cpuset(t, bs), best = NULL; if (!S.empty()) for (auto o : normal) if (subset(S, CS[o]) && (!best || o->depth > best->depth)) best = o;
      CHECK(c, cov == best, "covering", "get_obj_covering_cpuset({%s}) = %s, brute force gives %s", Ss.c_str(), cov ? oid(cov).c_str() : "NULL", best ? oid(best).c_str() : "NULL"); }
    // largest objects
    { unsigned cap = d.chance(1, 4) ? d.range(0, 4) : 200; std::vector<hwloc_obj_t> objs(cap + 1, (hwloc_obj_t)0x1); int nb = hwloc_get_largest_objs_inside_cpuset(t, bs, objs.data(), cap);
      if (!subset(S, rootcs)) CHECK(c, nb == -1, "largest", "S={%s} is not included in the root but largest_objs returned %d", Ss.c_str(), nb);
      else { CHECK(c, nb >= 0 && (unsigned)nb <= cap && objs[cap] == (hwloc_obj_t)0x1, "largest", "largest_objs returned %d for max %u", nb, cap); USet u;
        for (int i = 0; i < nb; i++) { const USet &oc = CS[objs[i]]; CHECK(c, disjoint(u, oc), "largest", "largest objects are not pairwise disjoint (S={%s})", Ss.c_str()); u.insert(oc.begin(), oc.end()); CHECK(c, subset(oc, S), "largest", "%s is not inside S={%s}", oid(objs[i]).c_str(), Ss.c_str()); if (objs[i]->parent) CHECK(c, !subset(CS[objs[i]->parent], S), "largest", "%s is not maximal: its parent is inside S={%s} too", oid(objs[i]).c_str(), Ss.c_str()); }
        if ((unsigned)nb < cap) CHECK(c, u == S, "largest", "union of the largest objects {%s} != S={%s}", ustr(u).c_str(), Ss.c_str()); else CHECK(c, subset(u, S), "largest", "prefix not inside S"); }
      if (nb > 1) nontrivial = true; }
    // inside / covering iterators at a generated depth (normal or NUMA level)
    { int dp = d.chance(1, 6) ? HWLOC_TYPE_DEPTH_NUMANODE : d.range(0, topodepth - 1); std::vector<hwloc_obj_t> ins, covs;
      for (unsigned i = 0; i < hwloc_get_nbobjs_by_depth(t, dp); i++) { hwloc_obj_t o = hwloc_get_obj_by_depth(t, dp, i); const USet &oc = CS[o]; if (!oc.empty() && subset(oc, S)) ins.push_back(o); if (!disjoint(oc, S)) covs.push_back(o); }
      std::vector<hwloc_obj_t> got; hwloc_obj_t o = NULL; while ((o = hwloc_get_next_obj_inside_cpuset_by_depth(t, bs, dp, o))) got.push_back(o); CHECK(c, got == ins, "inside_iter", "inside iterator at depth %d returns %zu objects, %zu are included in S={%s}", dp, got.size(), ins.size(), Ss.c_str());
      CHECK(c, hwloc_get_nbobjs_inside_cpuset_by_depth(t, bs, dp) == ins.size(), "inside_iter", "nbobjs_inside_cpuset_by_depth = %u, expected %zu", hwloc_get_nbobjs_inside_cpuset_by_depth(t, bs, dp), ins.size());
      for (unsigned i = 0; i <= ins.size(); i++) CHECK(c, hwloc_get_obj_inside_cpuset_by_depth(t, bs, dp, i) == (i < ins.size() ? ins[i] : NULL), "inside_iter", "obj_inside_cpuset_by_depth(idx %u) mismatch", i);
      if (dp >= 0) { hwloc_obj_type_t ty = hwloc_get_depth_type(t, dp); if (hwloc_get_type_depth(t, ty) == dp) { CHECK(c, hwloc_get_nbobjs_inside_cpuset_by_type(t, bs, ty) == (int)ins.size(), "inside_iter", "nbobjs_inside_cpuset_by_type mismatch"); for (unsigned i = 0; i < ins.size(); i++) CHECK(c, hwloc_get_obj_index_inside_cpuset(t, bs, ins[i]) == (int)i, "inside_iter", "obj_index_inside_cpuset(%u-th) = %d", i, hwloc_get_obj_index_inside_cpuset(t, bs, ins[i])); } }
      got.clear(); o = NULL; while ((o = hwloc_get_next_obj_covering_cpuset_by_depth(t, bs, dp, o))) got.push_back(o); CHECK(c, got == covs, "covering_iter", "covering iterator at depth %d returns %zu objects, %zu intersect S={%s}", dp, got.size(), covs.size(), Ss.c_str());
      if (covs.size() >= 2) nontrivial = true; }
    // cpuset <-> nodeset follow NUMA-node locality
    { hwloc_bitmap_t ns = hwloc_bitmap_alloc(); hwloc_cpuset_to_nodeset(t, bs, ns); USet got, exp; to_uset(ns, got); for (hwloc_obj_t nn = NULL; (nn = hwloc_get_next_obj_by_type(t, HWLOC_OBJ_NUMANODE, nn));) if (!disjoint(CS[nn], S)) exp.insert(nn->os_index);
      CHECK(c, got == exp, "cpuset_to_nodeset", "cpuset_to_nodeset({%s}) = {%s}, nodes whose locality intersects: {%s}", Ss.c_str(), ustr(got).c_str(), ustr(exp).c_str());
      hwloc_bitmap_t cs2 = hwloc_bitmap_alloc(); hwloc_cpuset_from_nodeset(t, cs2, ns); USet g2, e2; to_uset(cs2, g2); for (hwloc_obj_t nn = NULL; (nn = hwloc_get_next_obj_by_type(t, HWLOC_OBJ_NUMANODE, nn));) if (exp.count(nn->os_index)) e2.insert(CS[nn].begin(), CS[nn].end());
      CHECK(c, g2 == e2, "cpuset_from_nodeset", "cpuset_from_nodeset({%s}) = {%s}, expected {%s}", ustr(exp).c_str(), ustr(g2).c_str(), ustr(e2).c_str()); hwloc_bitmap_free(ns); hwloc_bitmap_free(cs2); }
    // singlify_per_core keeps at most one PU per core: the which-th PU of S in each core, PUs outside cores untouched
    if (hwloc_bitmap_weight(bs) >= 0) { unsigned which = d.range(0, 2); hwloc_bitmap_t w = hwloc_bitmap_dup(bs); int r = hwloc_bitmap_singlify_per_core(t, w, which); USet got, exp = S; to_uset(w, got);
      for (hwloc_obj_t core = NULL; (core = hwloc_get_next_obj_by_type(t, HWLOC_OBJ_CORE, core));) { USet in = inter(CS[core], S); if (in.empty()) continue; for (auto x : CS[core]) exp.erase(x); if (which < in.size()) { auto it = in.begin(); std::advance(it, which); exp.insert(*it); } }
      CHECK(c, r == 0 && got == exp, "singlify_per_core", "singlify_per_core({%s}, which=%u) = {%s} (ret %d), expected {%s}", Ss.c_str(), which, ustr(got).c_str(), r, ustr(exp).c_str()); hwloc_bitmap_free(w); }
    hwloc_bitmap_free(bs);
  }
  // common ancestor (normal objects, pitfall 9.5)
  for (int q = 0; q < 30; q++) { hwloc_obj_t a = normal[d.raw() % normal.size()], b = normal[d.raw() % normal.size()]; hwloc_obj_t ca = hwloc_get_common_ancestor_obj(t, a, b); std::set<hwloc_obj_t> anc; for (hwloc_obj_t x = a; x; x = x->parent) anc.insert(x); hwloc_obj_t e = b; while (!anc.count(e)) e = e->parent;
    CHECK(c, ca == e, "common_ancestor", "common ancestor of %s and %s is %s, first common node of the parent chains is %s", oid(a).c_str(), oid(b).c_str(), ca ? oid(ca).c_str() : "NULL", oid(e).c_str());
 }
  // closest objects: same-level objects grouped by the smallest strictly larger ancestor cpuset containing them, logical order, truncated
  for (int q = 0; q < 10; q++) { bool mem = d.chance(1, 6); hwloc_obj_t src = mem ? sel_type(d, t, HWLOC_OBJ_NUMANODE) : normal[d.raw() % normal.size()]; unsigned max = d.range(0, 20); std::vector<hwloc_obj_t> objs(max + 2, (hwloc_obj_t)0x1);
    c.attempt("get_closest_objs(src " + oid(src) + ")"); unsigned nb = hwloc_get_closest_objs(t, src, objs.data(), max);
    CHECK(c, nb <= max && objs[max] == (hwloc_obj_t)0x1, "closest", "closest_objs returned %u for max %u or wrote past the array", nb, max);
    if (mem) { for (unsigned i = 0; i < nb; i++) CHECK(c, objs[i] && objs[i] != src && objs[i]->type == src->type, "closest", "closest object of a NUMA node is not another NUMA node"); continue; }   // only safety and type are asserted for memory sources
    std::vector<hwloc_obj_t> exp; USet prevc = CS[src]; for (hwloc_obj_t a = src->parent; a; a = a->parent) { const USet &ac = CS[a]; if (ac == prevc) continue; for (unsigned i = 0; i < hwloc_get_nbobjs_by_depth(t, src->depth); i++) { hwloc_obj_t o = hwloc_get_obj_by_depth(t, src->depth, i); if (subset(CS[o], ac) && !subset(CS[o], prevc)) exp.push_back(o); } prevc = ac; }
    if (exp.size() > max) exp.resize(max); CHECK(c, nb == exp.size(), "closest", "closest_objs(%s, max %u) returned %u objects, ancestor-distance order has %zu", oid(src).c_str(), max, nb, exp.size()); for (unsigned i = 0; i < nb; i++) CHECK(c, objs[i] == exp[i], "closest", "closest object %u of %s is %s, expected %s", i, oid(src).c_str(), oid(objs[i]).c_str(), oid(exp[i]).c_str()); }
  // same locality; type/depth lookups mutually inverse
  for (int q = 0; q < 12; q++) { hwloc_obj_t src = all[d.raw() % all.size()]; hwloc_obj_type_t ty = (hwloc_obj_type_t)d.range(0, HWLOC_OBJ_TYPE_MAX - 1); hwloc_obj_t r = hwloc_get_obj_with_same_locality(t, src, ty, NULL, NULL, 0);
    if (r) { CHECK(c, r->type == ty, "same_locality", "same_locality(%s, %s) returned a %s", oid(src).c_str(), hwloc_obj_type_string(ty), hwloc_obj_type_string(r->type)); if (src->cpuset && r->cpuset) CHECK(c, hwloc_bitmap_isequal(src->cpuset, r->cpuset) && hwloc_bitmap_isequal(src->nodeset, r->nodeset), "same_locality", "same_locality(%s, %s) returned an object with different sets", oid(src).c_str(), hwloc_obj_type_string(ty)); }
    else if (src->cpuset && hwloc_get_type_depth(t, ty) >= 0) { for (hwloc_obj_t o = NULL; (o = hwloc_get_next_obj_by_type(t, ty, o));) CHECK(c, !(hwloc_bitmap_isequal(src->cpuset, o->cpuset) && hwloc_bitmap_isequal(src->nodeset, o->nodeset)), "same_locality", "same_locality(%s, %s) returned NULL although %s has equal sets", oid(src).c_str(), hwloc_obj_type_string(ty), oid(o).c_str()); } }
  for (int ty = 0; ty < HWLOC_OBJ_TYPE_MAX; ty++) { hwloc_obj_type_t T = (hwloc_obj_type_t)ty; int td = hwloc_get_type_depth(t, T); if (td != HWLOC_TYPE_DEPTH_UNKNOWN && td != HWLOC_TYPE_DEPTH_MULTIPLE) { CHECK(c, hwloc_get_depth_type(t, td) == T, "type_depth", "depth_type(type_depth(%s)) is %s", hwloc_obj_type_string(T), hwloc_obj_type_string(hwloc_get_depth_type(t, td))); CHECK(c, hwloc_get_nbobjs_by_type(t, T) == (int)hwloc_get_nbobjs_by_depth(t, td), "type_depth", "nbobjs_by_type != nbobjs_by_depth for %s", hwloc_obj_type_string(T)); }
    if (hwloc_obj_type_is_normal(T)) { int below = hwloc_get_type_or_below_depth(t, T), above = hwloc_get_type_or_above_depth(t, T);
      if (td >= 0) CHECK(c, below == td && above == td, "type_depth", "type_or_below/above_depth(%s) = %d/%d, type depth %d", hwloc_obj_type_string(T), below, above, td);
      else if (td == HWLOC_TYPE_DEPTH_UNKNOWN) CHECK(c, below >= 0 && above >= 0 && above < below && below < topodepth, "type_depth", "absent type %s: or_above %d / or_below %d", hwloc_obj_type_string(T), above, below); } }
  // hwloc_distrib
  for (int q = 0; q < 20; q++) { std::vector<hwloc_obj_t> roots; int rm = d.range(0, 3);
    if (rm == 0) roots.push_back(root); else { int dp = d.range(0, topodepth - 1); for (unsigned i = 0; i < hwloc_get_nbobjs_by_depth(t, dp); i++) if (d.chance(2, 3)) roots.push_back(hwloc_get_obj_by_depth(t, dp, i)); if (roots.empty()) roots.push_back(hwloc_get_obj_by_depth(t, dp, 0)); }
    USet U; unsigned tw = 0; for (auto r : roots) { U.insert(CS[r].begin(), CS[r].end()); tw += CS[r].size(); } if (tw == 0) continue;   // documented precondition: roots have a CPU set
    unsigned nn = d.range(1, 2 * std::max(1u, tw) + 2); int until = d.chance(2, 3) ? INT_MAX : d.range(0, topodepth); unsigned long fl = d.chance(1, 4) ? HWLOC_DISTRIB_FLAG_REVERSE : 0; std::vector<hwloc_cpuset_t> sets(nn + 1, (hwloc_cpuset_t)0x1);
    c.attempt(strf("hwloc_distrib(%zu roots, n=%u, until=%d, flags=%lu)", roots.size(), nn, until, fl)); int r = hwloc_distrib(t, roots.data(), (unsigned)roots.size(), sets.data(), nn, until, fl);
    CHECK(c, r == 0 && sets[nn] == (hwloc_cpuset_t)0x1, "distrib", "hwloc_distrib returned %d or wrote past the array", r); USet cov; bool dj = true;
    for (unsigned i = 0; i < nn; i++) { CHECK(c, sets[i] && sets[i] != (hwloc_cpuset_t)0x1, "distrib", "set %u of %u is NULL", i, nn); USet x; to_uset(sets[i], x); CHECK(c, !x.empty(), "distrib", "set %u of %u is empty", i, nn); CHECK(c, subset(x, U), "distrib", "set %u {%s} is not included in the roots {%s}", i, ustr(x).c_str(), ustr(U).c_str()); if (!disjoint(cov, x)) dj = false; cov.insert(x.begin(), x.end()); hwloc_bitmap_free(sets[i]); }
    CHECK(c, cov == U, "distrib", "the %u sets cover {%s}, the roots are {%s} (until=%d)", nn, ustr(cov).c_str(), ustr(U).c_str(), until);
    if (nn <= tw && until == INT_MAX && (unsigned)U.size() == tw) CHECK(c, dj, "distrib", "n=%u <= %u PUs below disjoint roots but the sets are not pairwise disjoint", nn, tw);
    if (d.chance(1, 5)) { errno = 0; hwloc_cpuset_t one[1]; CHECK(c, hwloc_distrib(t, roots.data(), (unsigned)roots.size(), one, 1, until, 1UL << d.range(1, 8)) == -1 && errno == EINVAL, "distrib_flags", "unknown flags accepted"); } }
  if (nontrivial) c.nontrivial();
  hwloc_topology_destroy(t);
}

bool h_named(const std::string &name, Case &c) {
  if (name == "F-C09-a") { c.desc("hwloc_get_closest_objs(src = NUMA node) on pack:2 [numa] core:2 pu:2"); hwloc_topology_t t; hwloc_topology_init(&t); hwloc_topology_set_synthetic(t, "pack:2 [numa] core:2 pu:2"); hwloc_topology_load(t);
    hwloc_obj_t objs[8]; unsigned nb = hwloc_get_closest_objs(t, hwloc_get_obj_by_type(t, HWLOC_OBJ_NUMANODE, 0), objs, 8); CHECK(c, nb <= 8, "closest", "returned %u", nb); hwloc_topology_destroy(t); return true; }
  return false;
}
