// C09 — traversal and locality helpers agree with their set-theoretic definitions (DESIGN.md section 4, C09).
// Oracle: brute force over all objects through child links, sets converted with isset only.
#include "ops.hpp"
#include <climits>
#include <algorithm>

void h_configure(HConfig &cfg) {
  cfg.property = "C09"; cfg.name = "c09_helpers";
  cfg.rule = "case = TopoSpec (symmetric, corpus XML with I/O) optionally followed by a restrict (CPU-less NUMA nodes, asymmetry) + 30 query sets x {covering, largest objects, inside/covering iterators, cpuset<->nodeset, singlify_per_core} + 30 ancestor pairs + 10 closest-objects queries + same-locality, type/depth lookups + 20 hwloc_distrib calls + child/cache covering, shared cache, first largest object, ancestors by depth/type, next_child, PU/NUMA by os_index, below-by-type chains, cache/group depth lookups, PCI/bridge/OS-device helpers, info lookup; non-trivial = a query set straddles at least 2 siblings or the topology is asymmetric; distinct by hash of the decoded case";
  cfg.head_len = 1400; cfg.op_len = 1; cfg.max_ops = 1; cfg.leak_check = false;
}

void h_run(Case &c) {
  Draw &d = c.head;
  SpecOpts so; so.syn.max_pus = 64; so.gen_flags = false; so.gx_num = 1; so.gx_den = 5; TopoSpec sp = gen_topospec(d, so);
  if (d.chance(1, 3)) sp.filters[HWLOC_OBJ_MEMCACHE] = HWLOC_TYPE_FILTER_KEEP_ALL;
  if (sp.is_xml && d.chance(1, 2)) sp.filters[HWLOC_OBJ_PCI_DEVICE] = sp.filters[HWLOC_OBJ_OS_DEVICE] = sp.filters[HWLOC_OBJ_BRIDGE] = HWLOC_TYPE_FILTER_KEEP_ALL;
  c.desc(sp.text()); hwloc_topology_t t; hwloc_topology_init(&t);
  if (apply_spec_and_load(c, t, sp) < 0) { hwloc_topology_destroy(t); c.discard(); }
  if (d.chance(1, 2)) { hwloc_bitmap_t s = gen_subset(d, hwloc_topology_get_topology_cpuset(t), 3, 4); if (!hwloc_bitmap_iszero(s)) { int r = hwloc_topology_restrict(t, s, d.chance(1, 3) ? HWLOC_RESTRICT_FLAG_REMOVE_CPULESS : 0); c.descf(" restrict(%s)=%d", bstr(s).c_str(), r); } hwloc_bitmap_free(s); }
  require_wf(c, t, "topology");
  std::vector<hwloc_obj_t> normal, all = all_objs(t); for (auto o : all) if (is_normal(o->type)) normal.push_back(o);
  hwloc_obj_t root = hwloc_get_root_obj(t); USet rootcs; to_uset(root->cpuset, rootcs); std::vector<unsigned> pus(rootcs.begin(), rootcs.end());
  std::map<hwloc_obj_t, USet> CS; for (auto o : all) if (o->cpuset) to_uset(o->cpuset, CS[o]);
  bool nontrivial = !root->symmetric_subtree; int topodepth = hwloc_topology_get_depth(t);
  for (int q = 0; q < 30; q++) {
    USet S; int mode = d.range(0, 6); USet offl; { USet rc; to_uset(root->complete_cpuset, rc); for (auto x : rc) if (!rootcs.count(x)) offl.insert(x); }
    if (mode == 0) S = CS[normal[d.raw() % normal.size()]]; else if (mode == 1) { for (auto x : pus) if (d.chance(1, 2)) S.insert(x); } else if (mode == 2) { for (auto x : pus) if (d.chance(1, 6)) S.insert(x); } else if (mode == 3) S = rootcs; else if (mode == 4) { for (auto x : pus) if (d.chance(1, 2)) S.insert(x); S.insert(pus.back() + 1 + d.range(0, 40)); } else if (mode == 5) { S = CS[normal[d.raw() % normal.size()]]; USet o2 = CS[normal[d.raw() % normal.size()]]; S.insert(o2.begin(), o2.end()); }
    // offline PUs (in the complete cpuset only) are not part of any object's cpuset: a set that holds one is not included in the root
    if (!offl.empty() && d.chance(1, 3)) { auto it = offl.begin(); std::advance(it, d.raw() % offl.size()); S.insert(*it); if (d.chance(1, 3)) S.insert(offl.begin(), offl.end()); c.cls("query-set:with-offline-pu"); }
    hwloc_bitmap_t bs = hwloc_bitmap_alloc(); for (auto x : S) hwloc_bitmap_set(bs, x); std::string Ss = ustr(S);
    // covering object = deepest normal object whose cpuset includes S (NULL for the empty set or S not in the root)
    { hwloc_obj_t cov = hwloc_get_obj_covering_cpuset(t, bs), best = NULL; if (!S.empty()) for (auto o : normal) if (subset(S, CS[o]) && (!best || o->depth > best->depth)) best = o;
      CHECK(c, cov == best, "covering", "get_obj_covering_cpuset({%s}) = %s, brute force gives %s", Ss.c_str(), cov ? oid(cov).c_str() : "NULL", best ? oid(best).c_str() : "NULL"); }
    // largest objects
    { unsigned cap = d.chance(1, 4) ? d.range(0, 4) : 200; std::vector<hwloc_obj_t> objs(cap + 1, (hwloc_obj_t)0x1); int nb = hwloc_get_largest_objs_inside_cpuset(t, bs, objs.data(), cap);
      if (!subset(S, rootcs)) CHECK(c, nb == -1, "largest", "S={%s} is not included in the root but largest_objs returned %d", Ss.c_str(), nb);
      else { CHECK(c, nb >= 0 && (unsigned)nb <= cap && objs[cap] == (hwloc_obj_t)0x1, "largest", "largest_objs returned %d for max %u", nb, cap); USet u;
        for (int i = 0; i < nb; i++) { const USet &oc = CS[objs[i]]; CHECK(c, disjoint(u, oc), "largest", "largest objects are not pairwise disjoint (S={%s})", Ss.c_str()); u.insert(oc.begin(), oc.end()); CHECK(c, subset(oc, S), "largest", "%s is not inside S={%s}", oid(objs[i]).c_str(), Ss.c_str()); if (objs[i]->parent) CHECK(c, !subset(CS[objs[i]->parent], S), "largest", "%s is not maximal: its parent is inside S={%s} too", oid(objs[i]).c_str(), Ss.c_str()); }
        if ((unsigned)nb < cap) CHECK(c, u == S, "largest", "union of the largest objects {%s} != S={%s}", ustr(u).c_str(), Ss.c_str()); else CHECK(c, subset(u, S), "largest", "prefix not inside S"); }
      if (nb > 1) nontrivial = true; }
    // inside / covering iterators at a generated depth (normal or NUMA level)
    { int dp = d.chance(1, 6) ? HWLOC_TYPE_DEPTH_NUMANODE : d.range(0, topodepth - 1); std::vector<hwloc_obj_t> ins, covs;
      for (unsigned i = 0; i < hwloc_get_nbobjs_by_depth(t, dp); i++) { hwloc_obj_t o = hwloc_get_obj_by_depth(t, dp, i); const USet &oc = CS[o]; if (!oc.empty() && subset(oc, S)) ins.push_back(o); if (!disjoint(oc, S)) covs.push_back(o); }
      std::vector<hwloc_obj_t> got; hwloc_obj_t o = NULL; while ((o = hwloc_get_next_obj_inside_cpuset_by_depth(t, bs, dp, o))) got.push_back(o); CHECK(c, got == ins, "inside_iter", "inside iterator at depth %d returns %zu objects, %zu are included in S={%s}", dp, got.size(), ins.size(), Ss.c_str());
      CHECK(c, hwloc_get_nbobjs_inside_cpuset_by_depth(t, bs, dp) == ins.size(), "inside_iter", "nbobjs_inside_cpuset_by_depth = %u, expected %zu", hwloc_get_nbobjs_inside_cpuset_by_depth(t, bs, dp), ins.size());
      for (unsigned i = 0; i <= ins.size(); i++) CHECK(c, hwloc_get_obj_inside_cpuset_by_depth(t, bs, dp, i) == (i < ins.size() ? ins[i] : NULL), "inside_iter", "obj_inside_cpuset_by_depth(idx %u) mismatch", i);
      if (dp >= 0) { hwloc_obj_type_t ty = hwloc_get_depth_type(t, dp); if (hwloc_get_type_depth(t, ty) == dp) { CHECK(c, hwloc_get_nbobjs_inside_cpuset_by_type(t, bs, ty) == (int)ins.size(), "inside_iter", "nbobjs_inside_cpuset_by_type mismatch"); for (unsigned i = 0; i < ins.size(); i++) CHECK(c, hwloc_get_obj_index_inside_cpuset(t, bs, ins[i]) == (int)i, "inside_iter", "obj_index_inside_cpuset(%u-th) = %d", i, hwloc_get_obj_index_inside_cpuset(t, bs, ins[i])); } }
      got.clear(); o = NULL; while ((o = hwloc_get_next_obj_covering_cpuset_by_depth(t, bs, dp, o))) got.push_back(o); CHECK(c, got == covs, "covering_iter", "covering iterator at depth %d returns %zu objects, %zu intersect S={%s}", dp, got.size(), covs.size(), Ss.c_str());
      if (covs.size() >= 2) nontrivial = true; }
    // cpuset <-> nodeset follow NUMA-node locality
    { hwloc_bitmap_t ns = hwloc_bitmap_alloc(); hwloc_cpuset_to_nodeset(t, bs, ns); USet got, exp; to_uset(ns, got); for (hwloc_obj_t nn = NULL; (nn = hwloc_get_next_obj_by_type(t, HWLOC_OBJ_NUMANODE, nn));) if (!disjoint(CS[nn], S)) exp.insert(nn->os_index);
      CHECK(c, got == exp, "cpuset_to_nodeset", "cpuset_to_nodeset({%s}) = {%s}, nodes whose locality intersects: {%s}", Ss.c_str(), ustr(got).c_str(), ustr(exp).c_str());
      hwloc_bitmap_t cs2 = hwloc_bitmap_alloc(); hwloc_cpuset_from_nodeset(t, cs2, ns); USet g2, e2; to_uset(cs2, g2); for (hwloc_obj_t nn = NULL; (nn = hwloc_get_next_obj_by_type(t, HWLOC_OBJ_NUMANODE, nn));) if (exp.count(nn->os_index)) e2.insert(CS[nn].begin(), CS[nn].end());
      CHECK(c, g2 == e2, "cpuset_from_nodeset", "cpuset_from_nodeset({%s}) = {%s}, expected {%s}", ustr(exp).c_str(), ustr(g2).c_str(), ustr(e2).c_str()); hwloc_bitmap_free(ns); hwloc_bitmap_free(cs2); }
    // singlify_per_core keeps at most one PU per core: the which-th PU of S in each core, PUs outside cores untouched
    if (hwloc_bitmap_weight(bs) >= 0) { unsigned which = d.range(0, 2); hwloc_bitmap_t w = hwloc_bitmap_dup(bs); int r = hwloc_bitmap_singlify_per_core(t, w, which); USet got, exp = S; to_uset(w, got);
      for (hwloc_obj_t core = NULL; (core = hwloc_get_next_obj_by_type(t, HWLOC_OBJ_CORE, core));) { USet in = inter(CS[core], S); if (in.empty()) continue; for (auto x : CS[core]) exp.erase(x); if (which < in.size()) { auto it = in.begin(); std::advance(it, which); exp.insert(*it); } }
      CHECK(c, r == 0 && got == exp, "singlify_per_core", "singlify_per_core({%s}, which=%u) = {%s} (ret %d), expected {%s}", Ss.c_str(), which, ustr(got).c_str(), r, ustr(exp).c_str()); hwloc_bitmap_free(w); }
    hwloc_bitmap_free(bs);
  }
  // common ancestor (normal objects, pitfall 9.5)
  for (int q = 0; q < 30; q++) { hwloc_obj_t a = normal[d.raw() % normal.size()], b = normal[d.raw() % normal.size()]; hwloc_obj_t ca = hwloc_get_common_ancestor_obj(t, a, b); std::set<hwloc_obj_t> anc; for (hwloc_obj_t x = a; x; x = x->parent) anc.insert(x); hwloc_obj_t e = b; while (!anc.count(e)) e = e->parent;
    CHECK(c, ca == e, "common_ancestor", "common ancestor of %s and %s is %s, first common node of the parent chains is %s", oid(a).c_str(), oid(b).c_str(), ca ? oid(ca).c_str() : "NULL", oid(e).c_str());
 }
  // closest objects: same-level objects grouped by the smallest strictly larger ancestor cpuset containing them, logical order, truncated
  for (int q = 0; q < 10; q++) { bool mem = d.chance(1, 6); hwloc_obj_t src = mem ? sel_type(d, t, HWLOC_OBJ_NUMANODE) : normal[d.raw() % normal.size()]; unsigned max = d.range(0, 20); std::vector<hwloc_obj_t> objs(max + 2, (hwloc_obj_t)0x1);
    c.attempt("get_closest_objs(src " + oid(src) + ")"); unsigned nb = hwloc_get_closest_objs(t, src, objs.data(), max);
    CHECK(c, nb <= max && objs[max] == (hwloc_obj_t)0x1, "closest", "closest_objs returned %u for max %u or wrote past the array", nb, max);
    if (mem) { for (unsigned i = 0; i < nb; i++) CHECK(c, objs[i] && objs[i] != src && objs[i]->type == src->type, "closest", "closest object of a NUMA node is not another NUMA node"); continue; }   // only safety and type are asserted for memory sources
    std::vector<hwloc_obj_t> exp; USet prevc = CS[src]; for (hwloc_obj_t a = src->parent; a; a = a->parent) { const USet &ac = CS[a]; if (ac == prevc) continue; for (unsigned i = 0; i < hwloc_get_nbobjs_by_depth(t, src->depth); i++) { hwloc_obj_t o = hwloc_get_obj_by_depth(t, src->depth, i); if (subset(CS[o], ac) && !subset(CS[o], prevc)) exp.push_back(o); } prevc = ac; }
    if (exp.size() > max) exp.resize(max); CHECK(c, nb == exp.size(), "closest", "closest_objs(%s, max %u) returned %u objects, ancestor-distance order has %zu", oid(src).c_str(), max, nb, exp.size()); for (unsigned i = 0; i < nb; i++) CHECK(c, objs[i] == exp[i], "closest", "closest object %u of %s is %s, expected %s", i, oid(src).c_str(), oid(objs[i]).c_str(), oid(exp[i]).c_str()); }
  // same locality; type/depth lookups mutually inverse
  for (int q = 0; q < 12; q++) { hwloc_obj_t src = all[d.raw() % all.size()]; hwloc_obj_type_t ty = (hwloc_obj_type_t)d.range(0, HWLOC_OBJ_TYPE_MAX - 1); hwloc_obj_t r = hwloc_get_obj_with_same_locality(t, src, ty, NULL, NULL, 0);
    if (r) { CHECK(c, r->type == ty, "same_locality", "same_locality(%s, %s) returned a %s", oid(src).c_str(), hwloc_obj_type_string(ty), hwloc_obj_type_string(r->type)); if (src->cpuset && r->cpuset) CHECK(c, hwloc_bitmap_isequal(src->cpuset, r->cpuset) && hwloc_bitmap_isequal(src->nodeset, r->nodeset), "same_locality", "same_locality(%s, %s) returned an object with different sets", oid(src).c_str(), hwloc_obj_type_string(ty)); }
    else if (src->cpuset && hwloc_get_type_depth(t, ty) >= 0) { for (hwloc_obj_t o = NULL; (o = hwloc_get_next_obj_by_type(t, ty, o));) CHECK(c, !(hwloc_bitmap_isequal(src->cpuset, o->cpuset) && hwloc_bitmap_isequal(src->nodeset, o->nodeset)), "same_locality", "same_locality(%s, %s) returned NULL although %s has equal sets", oid(src).c_str(), hwloc_obj_type_string(ty), oid(o).c_str()); } }
  for (int ty = 0; ty < HWLOC_OBJ_TYPE_MAX; ty++) { hwloc_obj_type_t T = (hwloc_obj_type_t)ty; int td = hwloc_get_type_depth(t, T); if (td != HWLOC_TYPE_DEPTH_UNKNOWN && td != HWLOC_TYPE_DEPTH_MULTIPLE) { CHECK(c, hwloc_get_depth_type(t, td) == T, "type_depth", "depth_type(type_depth(%s)) is %s", hwloc_obj_type_string(T), hwloc_obj_type_string(hwloc_get_depth_type(t, td))); CHECK(c, hwloc_get_nbobjs_by_type(t, T) == (int)hwloc_get_nbobjs_by_depth(t, td), "type_depth", "nbobjs_by_type != nbobjs_by_depth for %s", hwloc_obj_type_string(T)); }
    if (hwloc_obj_type_is_normal(T)) { int below = hwloc_get_type_or_below_depth(t, T), above = hwloc_get_type_or_above_depth(t, T);
      if (td >= 0) CHECK(c, below == td && above == td, "type_depth", "type_or_below/above_depth(%s) = %d/%d, type depth %d", hwloc_obj_type_string(T), below, above, td);
      else if (td == HWLOC_TYPE_DEPTH_UNKNOWN) CHECK(c, below >= 0 && above >= 0 && above < below && below < topodepth, "type_depth", "absent type %s: or_above %d / or_below %d", hwloc_obj_type_string(T), above, below); } }
  // ---- further helpers, each against a brute-force definition over the child links ----
  auto is_dc = [](hwloc_obj_type_t ty) { return ty >= HWLOC_OBJ_L1CACHE && ty <= HWLOC_OBJ_L5CACHE; };
  for (int q = 0; q < 16; q++) {
    // child covering: the (first) normal child whose cpuset includes S, NULL if none or S is empty
    hwloc_obj_t p = normal[d.raw() % normal.size()]; USet S; int m = d.range(0, 3);
    if (m == 0) S = CS[normal[d.raw() % normal.size()]]; else if (m == 1 && p->arity) { hwloc_obj_t ch = p->children[d.raw() % p->arity]; for (auto x : CS[ch]) if (d.chance(2, 3)) S.insert(x); } else if (m == 2) { for (auto x : CS[p]) if (d.chance(1, 3)) S.insert(x); }
    hwloc_bitmap_t bs = hwloc_bitmap_alloc(); for (auto x : S) hwloc_bitmap_set(bs, x); std::string Ss = ustr(S);
    { hwloc_obj_t e = NULL; if (!S.empty()) for (hwloc_obj_t ch = p->first_child; ch && !e; ch = ch->next_sibling) if (subset(S, CS[ch])) e = ch; hwloc_obj_t g = hwloc_get_child_covering_cpuset(t, bs, p);
      CHECK(c, g == e, "child_covering", "child_covering_cpuset({%s}, %s) = %s, expected %s", Ss.c_str(), oid(p).c_str(), g ? oid(g).c_str() : "NULL", e ? oid(e).c_str() : "NULL"); }
    // first data/unified cache covering S = first such cache on the parent chain of the covering object
    { hwloc_obj_t best = NULL; if (!S.empty()) for (auto o : normal) if (subset(S, CS[o]) && (!best || o->depth > best->depth)) best = o; while (best && !is_dc(best->type)) best = best->parent; hwloc_obj_t g = hwloc_get_cache_covering_cpuset(t, bs);
      CHECK(c, g == best, "cache_covering", "cache_covering_cpuset({%s}) = %s, expected %s", Ss.c_str(), g ? oid(g).c_str() : "NULL", best ? oid(best).c_str() : "NULL"); }
    // first largest object: NULL iff S misses the topology, else included in S with a parent that is not
    { hwloc_obj_t g = hwloc_get_first_largest_obj_inside_cpuset(t, bs); if (disjoint(S, rootcs)) CHECK(c, g == NULL, "first_largest", "S={%s} misses the topology but first_largest returned %s", Ss.c_str(), oid(g).c_str());
      else { CHECK(c, g && subset(CS[g], S) && !CS[g].empty(), "first_largest", "first_largest_obj_inside_cpuset({%s}) = %s is not inside the set", Ss.c_str(), g ? oid(g).c_str() : "NULL"); if (g->parent) CHECK(c, !subset(CS[g->parent], S), "first_largest", "first_largest_obj_inside_cpuset({%s}) = %s whose parent is inside the set too", Ss.c_str(), oid(g).c_str()); } }
    hwloc_bitmap_free(bs);
  }
  for (int q = 0; q < 16; q++) { hwloc_obj_t o = all[d.raw() % all.size()];
    // shared cache: first data/unified cache ancestor whose cpuset differs from the object's; NULL for objects without sets
    { hwloc_obj_t e = NULL; if (o->cpuset) for (hwloc_obj_t a = o->parent; a && !e; a = a->parent) if (is_dc(a->type) && CS[a] != CS[o]) e = a; hwloc_obj_t g = hwloc_get_shared_cache_covering_obj(t, o);
      CHECK(c, g == e, "shared_cache", "shared_cache_covering_obj(%s) = %s, expected %s", oid(o).c_str(), g ? oid(g).c_str() : "NULL", e ? oid(e).c_str() : "NULL"); }
    // ancestor by type (strict ancestors, lowest first) and by depth (normal objects)
    { hwloc_obj_type_t ty = (hwloc_obj_type_t)d.range(0, HWLOC_OBJ_TYPE_MAX - 1); hwloc_obj_t e = o->parent; while (e && e->type != ty) e = e->parent; hwloc_obj_t g = hwloc_get_ancestor_obj_by_type(t, ty, o);
      CHECK(c, g == e, "ancestor", "ancestor_obj_by_type(%s, %s) = %s, expected %s", hwloc_obj_type_string(ty), oid(o).c_str(), g ? oid(g).c_str() : "NULL", e ? oid(e).c_str() : "NULL");
      if (is_normal(o->type)) { int dp = d.range(0, topodepth - 1); hwloc_obj_t e2 = o; while (e2 && e2->depth != dp) e2 = e2->parent; hwloc_obj_t g2 = hwloc_get_ancestor_obj_by_depth(t, dp, o);
        // when the parent chain skips that depth (asymmetric trees) the code returns the next ancestor above although the documentation says NULL: outside the property, only "never a non-ancestor, never deeper than asked" is asserted there
        if (e2) CHECK(c, g2 == e2, "ancestor", "ancestor_obj_by_depth(%d, %s) = %s, expected %s", dp, oid(o).c_str(), g2 ? oid(g2).c_str() : "NULL", oid(e2).c_str());
        else if (g2) { bool anc = false; for (hwloc_obj_t a = o; a; a = a->parent) if (a == g2) anc = true; CHECK(c, anc && g2->depth < dp, "ancestor", "ancestor_obj_by_depth(%d, %s) = %s is not an ancestor above that depth", dp, oid(o).c_str(), oid(g2).c_str()); } } }
    // next_child enumerates the normal, memory, I/O and Misc children lists in that order
    { std::vector<hwloc_obj_t> e, g; for (hwloc_obj_t x = o->first_child; x; x = x->next_sibling) e.push_back(x); for (hwloc_obj_t x = o->memory_first_child; x; x = x->next_sibling) e.push_back(x); for (hwloc_obj_t x = o->io_first_child; x; x = x->next_sibling) e.push_back(x); for (hwloc_obj_t x = o->misc_first_child; x; x = x->next_sibling) e.push_back(x);
      hwloc_obj_t x = NULL; while ((x = hwloc_get_next_child(t, o, x)) && g.size() <= e.size()) g.push_back(x); CHECK(c, g == e, "next_child", "next_child(%s) enumerates %zu children, the four lists hold %zu", oid(o).c_str(), g.size(), e.size()); }
    // non-I/O ancestor of an I/O object: the closest ancestor that has sets
    if (is_io(o->type)) { hwloc_obj_t e = o; while (e && !e->cpuset) e = e->parent; CHECK(c, hwloc_get_non_io_ancestor_obj(t, o) == e && e, "non_io_ancestor", "non_io_ancestor_obj(%s) mismatch", oid(o).c_str()); }
    // info lookup: the first pair with that name
    if (o->infos.count) { unsigned k = d.raw() % o->infos.count; const char *nm = o->infos.array[k].name, *e = NULL; for (unsigned i = 0; i < o->infos.count && !e; i++) if (!strcmp(o->infos.array[i].name, nm)) e = o->infos.array[i].value; const char *g = hwloc_obj_get_info_by_name(o, nm);
      CHECK(c, g == e, "info_by_name", "obj_get_info_by_name(%s, %s) = %s, the first pair with that name holds %s", oid(o).c_str(), qstr(nm).c_str(), qstr(g).c_str(), qstr(e).c_str()); CHECK(c, hwloc_obj_get_info_by_name(o, "no such name \x01") == NULL, "info_by_name", "unknown info name found"); }
  }
  // PU / NUMA node by os_index
  { unsigned maxos = 0; for (auto o : all) if ((o->type == HWLOC_OBJ_PU || o->type == HWLOC_OBJ_NUMANODE) && o->os_index != HWLOC_UNKNOWN_INDEX && o->os_index > maxos) maxos = o->os_index;
    for (int q = 0; q < 12; q++) { unsigned x = d.raw() % (maxos + 3); hwloc_obj_t ep = NULL, en = NULL; for (auto o : all) { if (o->type == HWLOC_OBJ_PU && o->os_index == x) ep = o; if (o->type == HWLOC_OBJ_NUMANODE && o->os_index == x) en = o; }
      CHECK(c, hwloc_get_pu_obj_by_os_index(t, x) == ep, "by_os_index", "pu_obj_by_os_index(%u) mismatch", x); CHECK(c, hwloc_get_numanode_obj_by_os_index(t, x) == en, "by_os_index", "numanode_obj_by_os_index(%u) mismatch", x); } }
  // chains "idx-th object of type T below the previous one" (objects with an empty cpuset are skipped by the inside-cpuset iterators)
  { std::vector<hwloc_obj_type_t> single; for (int ty = 0; ty < HWLOC_OBJ_TYPE_MAX; ty++) { int td = hwloc_get_type_depth(t, (hwloc_obj_type_t)ty); if (td >= 0 || td == HWLOC_TYPE_DEPTH_NUMANODE) single.push_back((hwloc_obj_type_t)ty); }
    auto below = [&](hwloc_obj_t from, hwloc_obj_type_t ty, unsigned idx) -> hwloc_obj_t { if (!from) return NULL; int td = hwloc_get_type_depth(t, ty); unsigned k = 0; for (unsigned i = 0; i < hwloc_get_nbobjs_by_depth(t, td); i++) { hwloc_obj_t o = hwloc_get_obj_by_depth(t, td, i); if (!CS[o].empty() && subset(CS[o], CS[from])) { if (k == idx) return o; k++; } } return NULL; };
    for (int q = 0; q < 10; q++) { int nr = d.range(1, 3); hwloc_obj_type_t tv[3]; unsigned iv[3]; hwloc_obj_t e = root; std::string ch;
      for (int i = 0; i < nr; i++) { tv[i] = single[d.raw() % single.size()]; iv[i] = d.range(0, 3); ch += strf(" %s:%u", hwloc_obj_type_string(tv[i]), iv[i]); }
      for (int i = 0; i < nr; i++) e = below(e, tv[i], iv[i]); hwloc_obj_t g = hwloc_get_obj_below_array_by_type(t, nr, tv, iv);
      CHECK(c, g == e, "below_by_type", "obj_below_array_by_type(%s) = %s, expected %s", ch.c_str(), g ? oid(g).c_str() : "NULL", e ? oid(e).c_str() : "NULL");
      if (nr >= 2) { int n1 = hwloc_get_nbobjs_by_type(t, tv[0]); unsigned i1 = n1 > 0 ? d.raw() % (n1 + 1) : 0; hwloc_obj_t o1 = hwloc_get_obj_by_type(t, tv[0], i1), e2 = o1 ? below(o1, tv[1], iv[1]) : NULL, g2 = hwloc_get_obj_below_by_type(t, tv[0], i1, tv[1], iv[1]);
        CHECK(c, g2 == e2, "below_by_type", "obj_below_by_type(%s:%u, %s:%u) = %s, expected %s", hwloc_obj_type_string(tv[0]), i1, hwloc_obj_type_string(tv[1]), iv[1], g2 ? oid(g2).c_str() : "NULL", e2 ? oid(e2).c_str() : "NULL"); } } }
  // cache depth lookups: a level found for (level, type) holds caches of that level whose type is the requested one or Unified;
  // an existing data/unified level with exactly these attributes is found (only the sign of the answer is asserted when several levels match)
  for (unsigned lvl = 1; lvl <= 5; lvl++) for (int cty = -1; cty <= 2; cty++) { int g = hwloc_get_cache_type_depth(t, lvl, (hwloc_obj_cache_type_t)cty); std::vector<int> match;
    for (int dp = 0; dp < topodepth; dp++) { hwloc_obj_t o = hwloc_get_obj_by_depth(t, dp, 0); if (is_dc(o->type) && o->attr->cache.depth == lvl && (cty == -1 || (int)o->attr->cache.type == cty || o->attr->cache.type == HWLOC_OBJ_CACHE_UNIFIED)) match.push_back(dp); }
    if (match.empty()) CHECK(c, g == HWLOC_TYPE_DEPTH_UNKNOWN, "cache_type_depth", "cache_type_depth(L%u, type %d) = %d although no data/unified cache level matches", lvl, cty, g);
    else if (match.size() == 1 || cty != -1) CHECK(c, g == match[0], "cache_type_depth", "cache_type_depth(L%u, type %d) = %d, the matching level is at depth %d", lvl, cty, g, match[0]);
    else CHECK(c, g == HWLOC_TYPE_DEPTH_MULTIPLE, "cache_type_depth", "cache_type_depth(L%u, any type) = %d although %zu levels match", lvl, g, match.size()); }
  // Group levels are told apart by their depth attribute; without attributes the lookup is hwloc_get_type_depth()
  { for (int ty = 0; ty < HWLOC_OBJ_TYPE_MAX; ty++) CHECK(c, hwloc_get_type_depth_with_attr(t, (hwloc_obj_type_t)ty, NULL, 0) == hwloc_get_type_depth(t, (hwloc_obj_type_t)ty), "type_depth_attr", "type_depth_with_attr(%s, NULL) differs from type_depth", hwloc_obj_type_string((hwloc_obj_type_t)ty));
    if (hwloc_get_type_depth(t, HWLOC_OBJ_GROUP) == HWLOC_TYPE_DEPTH_MULTIPLE) for (int dp = 0; dp < topodepth; dp++) { hwloc_obj_t o = hwloc_get_obj_by_depth(t, dp, 0); if (o->type != HWLOC_OBJ_GROUP) continue; union hwloc_obj_attr_u a; memset(&a, 0, sizeof a); a.group.depth = o->attr->group.depth; int g = hwloc_get_type_depth_with_attr(t, HWLOC_OBJ_GROUP, &a, sizeof a);
      int e = -1; for (int d2 = 0; d2 < topodepth && e < 0; d2++) { hwloc_obj_t o2 = hwloc_get_obj_by_depth(t, d2, 0); if (o2->type == HWLOC_OBJ_GROUP && o2->attr->group.depth == a.group.depth) e = d2; }
      CHECK(c, g == e, "type_depth_attr", "type_depth_with_attr(Group, depth %u) = %d, the first Group level with that attribute is at depth %d", a.group.depth, g, e); nontrivial = true; } }
  // I/O helpers
  { std::vector<hwloc_obj_t> pci, osd, br; for (unsigned i = 0; i < hwloc_get_nbobjs_by_depth(t, HWLOC_TYPE_DEPTH_PCI_DEVICE); i++) pci.push_back(hwloc_get_obj_by_depth(t, HWLOC_TYPE_DEPTH_PCI_DEVICE, i)); for (unsigned i = 0; i < hwloc_get_nbobjs_by_depth(t, HWLOC_TYPE_DEPTH_OS_DEVICE); i++) osd.push_back(hwloc_get_obj_by_depth(t, HWLOC_TYPE_DEPTH_OS_DEVICE, i)); for (unsigned i = 0; i < hwloc_get_nbobjs_by_depth(t, HWLOC_TYPE_DEPTH_BRIDGE); i++) br.push_back(hwloc_get_obj_by_depth(t, HWLOC_TYPE_DEPTH_BRIDGE, i));
    std::vector<hwloc_obj_t> g; hwloc_obj_t x = NULL; while ((x = hwloc_get_next_pcidev(t, x)) && g.size() <= pci.size()) g.push_back(x); CHECK(c, g == pci, "io_iter", "next_pcidev enumerates %zu devices, the PCI level holds %zu", g.size(), pci.size());
    g.clear(); x = NULL; while ((x = hwloc_get_next_osdev(t, x)) && g.size() <= osd.size()) g.push_back(x); CHECK(c, g == osd, "io_iter", "next_osdev enumerates %zu devices, the level holds %zu", g.size(), osd.size());
    g.clear(); x = NULL; while ((x = hwloc_get_next_bridge(t, x)) && g.size() <= br.size()) g.push_back(x); CHECK(c, g == br, "io_iter", "next_bridge enumerates %zu bridges, the level holds %zu", g.size(), br.size());
    for (int q = 0; q < 8 && !pci.empty(); q++) { hwloc_obj_t o = pci[d.raw() % pci.size()]; auto &a = o->attr->pcidev; unsigned dom = a.domain, bus = a.bus, dev = a.dev, fn = a.func; int mut = d.range(0, 5); if (mut == 1) fn ^= 1; else if (mut == 2) bus ^= 0x80; else if (mut == 3) dom += 1;
      hwloc_obj_t e = NULL; for (auto p : pci) if (!e && p->attr->pcidev.domain == dom && p->attr->pcidev.bus == bus && p->attr->pcidev.dev == dev && p->attr->pcidev.func == fn) e = p;
      CHECK(c, hwloc_get_pcidev_by_busid(t, dom, bus, dev, fn) == e, "pci_busid", "pcidev_by_busid(%04x:%02x:%02x.%x) mismatch", dom, bus, dev, fn);
      std::string s1 = strf("%04x:%02x:%02x.%01x", dom, bus, dev, fn); CHECK(c, hwloc_get_pcidev_by_busidstring(t, s1.c_str()) == e, "pci_busid", "pcidev_by_busidstring(%s) mismatch", s1.c_str());
      if (dom == 0) { std::string s2 = strf("%02x:%02x.%01x", bus, dev, fn); CHECK(c, hwloc_get_pcidev_by_busidstring(t, s2.c_str()) == e, "pci_busid", "pcidev_by_busidstring(%s) mismatch", s2.c_str()); }
      // (a PCI device need not lie inside its parent bridge's bus range: the stored file 32em64t-2n8c2t-pci-normalio.xml has 0000:04:00.0 below [84-84])
      nontrivial = true; }
    for (int q = 0; q < 6 && !br.empty(); q++) { hwloc_obj_t b = br[d.raw() % br.size()]; auto &ba = b->attr->bridge; if (ba.downstream_type != HWLOC_OBJ_BRIDGE_PCI) continue; unsigned dom = ba.downstream.pci.domain + (d.chance(1, 4) ? 1 : 0); int bus = d.chance(1, 2) ? (int)ba.downstream.pci.secondary_bus - 1 + d.range(0, 2) : (int)ba.downstream.pci.subordinate_bus - 1 + d.range(0, 2); if (bus < 0 || bus > 255) continue;
      int e = dom == ba.downstream.pci.domain && bus >= ba.downstream.pci.secondary_bus && bus <= ba.downstream.pci.subordinate_bus; CHECK(c, hwloc_bridge_covers_pcibus(b, dom, (unsigned)bus) == e, "bridge_covers", "bridge_covers_pcibus(%s [%02x-%02x], %04x:%02x) != %d", oid(b).c_str(), ba.downstream.pci.secondary_bus, ba.downstream.pci.subordinate_bus, dom, bus, e); }
    errno = 0; CHECK(c, hwloc_get_pcidev_by_busidstring(t, "zz:1") == NULL && errno == EINVAL, "pci_busid", "malformed bus id string accepted"); }
  // hwloc_distrib
  for (int q = 0; q < 20; q++) { std::vector<hwloc_obj_t> roots; int rm = d.range(0, 3);
    if (rm == 0) roots.push_back(root); else if (rm == 3 && d.chance(2, 3)) {   // memory objects as roots (they have a CPU set): NUMA nodes, or memory-side caches when the topology kept them
      int md = (hwloc_get_nbobjs_by_depth(t, HWLOC_TYPE_DEPTH_MEMCACHE) > 0 && d.chance(1, 2)) ? HWLOC_TYPE_DEPTH_MEMCACHE : HWLOC_TYPE_DEPTH_NUMANODE;
      for (unsigned i = 0; i < hwloc_get_nbobjs_by_depth(t, md); i++) if (d.chance(2, 3)) roots.push_back(hwloc_get_obj_by_depth(t, md, i)); if (roots.empty()) roots.push_back(hwloc_get_obj_by_depth(t, md, 0)); c.cls("distrib:memory-roots"); } else { int dp = d.range(0, topodepth - 1); for (unsigned i = 0; i < hwloc_get_nbobjs_by_depth(t, dp); i++) if (d.chance(2, 3)) roots.push_back(hwloc_get_obj_by_depth(t, dp, i)); if (roots.empty()) roots.push_back(hwloc_get_obj_by_depth(t, dp, 0)); }
    USet U; unsigned tw = 0; for (auto r : roots) { U.insert(CS[r].begin(), CS[r].end()); tw += CS[r].size(); } if (tw == 0) continue;   // documented precondition: roots have a CPU set
    unsigned nn = d.range(1, 2 * std::max(1u, tw) + 2); int until = d.chance(2, 3) ? INT_MAX : d.range(0, topodepth); unsigned long fl = d.chance(1, 4) ? HWLOC_DISTRIB_FLAG_REVERSE : 0; std::vector<hwloc_cpuset_t> sets(nn + 1, (hwloc_cpuset_t)0x1);
    c.attempt(strf("hwloc_distrib(%zu roots, n=%u, until=%d, flags=%lu)", roots.size(), nn, until, fl)); int r = hwloc_distrib(t, roots.data(), (unsigned)roots.size(), sets.data(), nn, until, fl);
    CHECK(c, r == 0 && sets[nn] == (hwloc_cpuset_t)0x1, "distrib", "hwloc_distrib returned %d or wrote past the array", r); USet cov; bool dj = true;
    for (unsigned i = 0; i < nn; i++) { CHECK(c, sets[i] && sets[i] != (hwloc_cpuset_t)0x1, "distrib", "set %u of %u is NULL", i, nn); USet x; to_uset(sets[i], x); CHECK(c, !x.empty(), "distrib", "set %u of %u is empty", i, nn); CHECK(c, subset(x, U), "distrib", "set %u {%s} is not included in the roots {%s}", i, ustr(x).c_str(), ustr(U).c_str()); if (!disjoint(cov, x)) dj = false; cov.insert(x.begin(), x.end()); hwloc_bitmap_free(sets[i]); }
    CHECK(c, cov == U, "distrib", "the %u sets cover {%s}, the roots are {%s} (until=%d)", nn, ustr(cov).c_str(), ustr(U).c_str(), until);
    if (nn <= tw && until == INT_MAX && (unsigned)U.size() == tw) CHECK(c, dj, "distrib", "n=%u <= %u PUs below disjoint roots but the sets are not pairwise disjoint", nn, tw);
    if (d.chance(1, 5)) { errno = 0; hwloc_cpuset_t one[1]; CHECK(c, hwloc_distrib(t, roots.data(), (unsigned)roots.size(), one, 1, until, 1UL << d.range(1, 8)) == -1 && errno == EINVAL, "distrib_flags", "unknown flags accepted"); } }
  if (nontrivial) c.nontrivial();
  hwloc_topology_destroy(t);
}

bool h_named(const std::string &name, Case &c) {
  if (name == "F-C09-a") { c.desc("hwloc_get_closest_objs(src = NUMA node) on pack:2 [numa] core:2 pu:2"); hwloc_topology_t t; hwloc_topology_init(&t); hwloc_topology_set_synthetic(t, "pack:2 [numa] core:2 pu:2"); hwloc_topology_load(t);
    hwloc_obj_t objs[8]; unsigned nb = hwloc_get_closest_objs(t, hwloc_get_obj_by_type(t, HWLOC_OBJ_NUMANODE, 0), objs, 8); CHECK(c, nb <= 8, "closest", "returned %u", nb); hwloc_topology_destroy(t); return true; }
  return false;
}
