// C14 — memory attributes: stored values are returned, best-of queries are optimal (DESIGN.md section 4, C14).
// Stateful, model-based: attr -> target(gp) -> initiator -> value.
#include "ops.hpp"
#include <algorithm>

void h_configure(HConfig &cfg) {
  cfg.property = "C14"; cfg.name = "c14_memattrs";
  cfg.rule = "case = synthetic topology with 1..8 NUMA nodes (attached at several levels, CPU-less after restricts) + history over {register, set_value (cpuset initiators from a partition of the root cpuset, object initiators), get_value, get_targets/get_initiators with undersized arrays, best_target/best_initiator, local NUMA nodes, default nodeset, restrict, dup, XML reload}; non-trivial = a query after at least 3 stored values on at least 2 targets, or after a restrict/dup/reload; distinct by hash of the history";
  cfg.head_len = 96; cfg.op_len = 96; cfg.max_ops = 16; cfg.leak_check = true;
}

struct Init { bool iscpuset; USet cs; uint64_t objgp; int objtype; uint64_t val; };
struct Tgt { uint64_t gp; unsigned os; std::vector<Init> inits; bool has_noinit = false; uint64_t noinit = 0; };
struct Attr { std::string name; unsigned long flags; std::vector<Tgt> tg; };
typedef std::map<hwloc_memattr_id_t, Attr> Model;

static hwloc_obj_t obj_by_gp(hwloc_topology_t t, uint64_t gp) { for (auto o : all_objs(t)) if (o->gp_index == gp) return o; return NULL; }
static std::string initkey(hwloc_topology_t, const Init &i) { return i.iscpuset ? "cs{" + ustr(i.cs) + "}=" + std::to_string(i.val) : "obj" + std::to_string(i.objgp) + "=" + std::to_string(i.val); }
static std::string lockey(const struct hwloc_location &l, uint64_t v) { if (l.type == HWLOC_LOCATION_TYPE_CPUSET) { USet s; to_uset(l.location.cpuset, s); return "cs{" + ustr(s) + "}=" + std::to_string(v); } return "obj" + std::to_string(l.location.object ? l.location.object->gp_index : 0) + "=" + std::to_string(v); }

// the whole model against the enumeration API
static void compare_all(Case &c, hwloc_topology_t t, Model &model, const char *after) {
  for (auto &kv : model) {
    hwloc_memattr_id_t id = kv.first; Attr &a = kv.second; bool needi = a.flags & HWLOC_MEMATTR_FLAG_NEED_INITIATOR;
    const char *nm = NULL; CHECK(c, hwloc_memattr_get_name(t, id, &nm) == 0 && a.name == nm, "attr_identity", "after %s: attribute %u is named %s, model %s", after, id, nm ? nm : "?", a.name.c_str());
    unsigned long fl = 0; CHECK(c, hwloc_memattr_get_flags(t, id, &fl) == 0 && fl == a.flags, "attr_identity", "after %s: flags of %s are %lu, model %lu", after, a.name.c_str(), fl, a.flags);
    hwloc_memattr_id_t byname = 9999; CHECK(c, hwloc_memattr_get_by_name(t, a.name.c_str(), &byname) == 0 && byname == id, "attr_identity", "get_by_name(%s) = %u, expected %u", a.name.c_str(), byname, id);
    unsigned nr = 0; CHECK(c, hwloc_memattr_get_targets(t, id, NULL, 0, &nr, NULL, NULL) == 0, "get_targets", "get_targets(nr=0) failed");
    CHECK(c, nr == a.tg.size(), "get_targets", "after %s: %s has %u targets, model %zu", after, a.name.c_str(), nr, a.tg.size());
    std::vector<hwloc_obj_t> tv(nr + 1); std::vector<hwloc_uint64_t> vv(nr + 1); unsigned nr2 = nr; hwloc_memattr_get_targets(t, id, NULL, 0, &nr2, tv.data(), vv.data());
    std::vector<std::string> got, exp;
    for (unsigned i = 0; i < nr; i++) { CHECK(c, tv[i] && tv[i]->type == HWLOC_OBJ_NUMANODE && obj_by_gp(t, tv[i]->gp_index) == tv[i], "get_targets", "target %u is not a NUMA node of this topology", i); got.push_back(strf("gp%llu%s", (unsigned long long)tv[i]->gp_index, needi ? "" : ("=" + std::to_string(vv[i])).c_str())); }
    for (auto &x : a.tg) exp.push_back(strf("gp%llu%s", (unsigned long long)x.gp, needi ? "" : ("=" + std::to_string(x.noinit)).c_str()));
    std::sort(got.begin(), got.end()); std::sort(exp.begin(), exp.end());
    CHECK(c, got == exp, "get_targets", "after %s: targets of %s differ from the model (first: %s vs %s)", after, a.name.c_str(), got.empty() ? "-" : got[0].c_str(), exp.empty() ? "-" : exp[0].c_str());
    if (needi) for (auto &x : a.tg) {
      hwloc_obj_t node = obj_by_gp(t, x.gp); unsigned ni = 0; CHECK(c, hwloc_memattr_get_initiators(t, id, node, 0, &ni, NULL, NULL) == 0, "get_initiators", "get_initiators(nr=0) failed");
      CHECK(c, ni == x.inits.size(), "get_initiators", "after %s: %s target gp%llu has %u initiators, model %zu", after, a.name.c_str(), (unsigned long long)x.gp, ni, x.inits.size());
      std::vector<struct hwloc_location> iv(ni + 1); std::vector<hwloc_uint64_t> iw(ni + 1); unsigned ni2 = ni; hwloc_memattr_get_initiators(t, id, node, 0, &ni2, iv.data(), iw.data());
      std::vector<std::string> g2, e2; for (unsigned i = 0; i < ni; i++) { if (iv[i].type == HWLOC_LOCATION_TYPE_OBJECT) CHECK(c, iv[i].location.object && obj_by_gp(t, iv[i].location.object->gp_index) == iv[i].location.object, "get_initiators", "object initiator does not belong to this topology"); g2.push_back(lockey(iv[i], iw[i])); }
      for (auto &i : x.inits) e2.push_back(initkey(t, i)); std::sort(g2.begin(), g2.end()); std::sort(e2.begin(), e2.end());
      CHECK(c, g2 == e2, "get_initiators", "after %s: initiators of %s target gp%llu differ from the model (first: %s vs %s)", after, a.name.c_str(), (unsigned long long)x.gp, g2.empty() ? "-" : g2[0].c_str(), e2.empty() ? "-" : e2[0].c_str());
    }
  }
  // Capacity and Locality are derived, read-only
  for (hwloc_obj_t n = NULL; (n = hwloc_get_next_obj_by_type(t, HWLOC_OBJ_NUMANODE, n));) {
    hwloc_uint64_t v = 0; CHECK(c, hwloc_memattr_get_value(t, HWLOC_MEMATTR_ID_CAPACITY, n, NULL, 0, &v) == 0 && v == n->attr->numanode.local_memory, "capacity", "Capacity of node L%u is %llu, local_memory %llu", n->logical_index, (unsigned long long)v, (unsigned long long)n->attr->numanode.local_memory);
    CHECK(c, hwloc_memattr_get_value(t, HWLOC_MEMATTR_ID_LOCALITY, n, NULL, 0, &v) == 0 && (long)v == hwloc_bitmap_weight(n->cpuset), "locality", "Locality of node L%u is %llu, cpuset weight %d", n->logical_index, (unsigned long long)v, hwloc_bitmap_weight(n->cpuset));
  }
}

static void model_after_restrict(hwloc_topology_t t, Model &model) {
  USet root; to_uset(hwloc_get_root_obj(t)->cpuset, root);
  for (auto &kv : model) { Attr &a = kv.second; bool needi = a.flags & HWLOC_MEMATTR_FLAG_NEED_INITIATOR; std::vector<Tgt> nt;
    for (auto &x : a.tg) { if (!obj_by_gp(t, x.gp)) continue; Tgt n = x; n.inits.clear();
      for (auto &i : x.inits) { Init k = i; if (i.iscpuset) { k.cs = inter(i.cs, root); if (k.cs.empty()) continue; } else if (!obj_by_gp(t, i.objgp)) continue; n.inits.push_back(k); }
      if (needi && n.inits.empty()) continue; nt.push_back(n); }
    a.tg = nt; }
}

void h_run(Case &c) {
  Draw &d = c.head;
  static const char *syns[] = {"pack:2 [numa] [numa] core:2 pu:2", "[numa] pack:2 [numa] l3:2 [numa] pu:2", "numa:4 pu:2", "pack:3 [numa] pu:1", "pu:4", "pack:2 numa:2 core:2 pu:1", "[numa(memory=4GB)] [numa] pack:2 [numa(memory=256MB)] core:2 pu:2", "[numa(indexes=0,2,1)] pack:2 [numa] pu:4", "[numa(indexes=2,0,3,1,4,6,5)] pack:2 [numa] die:2 [numa] pu:2", "pack:2 [numa(indexes=1,5,0,3,4,2)] core:2 [numa] pu:2"};
  const char *syn = d.pick(syns); c.descf("synthetic=\"%s\"", syn);
  hwloc_topology_t t; hwloc_topology_init(&t); hwloc_topology_set_synthetic(t, syn);
  // (NO_MEMATTRS removes the predefined attributes the model starts from, so only the two other NO_* flags are generated here; F-C13-c)
  unsigned long tf = 0; { if (d.chance(1, 4)) { if (d.chance(1, 2)) tf |= HWLOC_TOPOLOGY_FLAG_NO_DISTANCES; if (d.chance(1, 2)) tf |= HWLOC_TOPOLOGY_FLAG_NO_CPUKINDS; } if (tf) c.cls("topology-flags:NO_*");
    if (d.chance(1, 3)) { tf |= HWLOC_TOPOLOGY_FLAG_INCLUDE_DISALLOWED; c.cls("topology-flags:INCLUDE_DISALLOWED"); }   // disallowed PUs stay in the topology: allowed sets must not influence stored initiators
    if (tf) { hwloc_topology_set_flags(t, tf); c.descf(" flags=0x%lx", tf); } }
  CHECK(c, hwloc_topology_load(t) == 0, "setup", "load failed");
  Model model; for (hwloc_memattr_id_t id = 2; id < 8; id++) { const char *nm = NULL; unsigned long fl = 0; CHECK(c, hwloc_memattr_get_name(t, id, &nm) == 0, "setup", "predefined attribute %u missing", id); hwloc_memattr_get_flags(t, id, &fl); model[id] = Attr{nm, fl, {}}; }
  unsigned nextid = 8; { const char *nm; CHECK(c, hwloc_memattr_get_name(t, 8, &nm) < 0, "setup", "unexpected attribute id 8"); }
  USet rootcs; to_uset(hwloc_get_root_obj(t)->cpuset, rootcs); std::vector<unsigned> pus(rootcs.begin(), rootcs.end());
  std::vector<USet> blocks; { size_t i = 0; while (i < pus.size()) { size_t l = d.range(1, 3); USet b; for (size_t j = i; j < std::min(pus.size(), i + l); j++) b.insert(pus[j]); blocks.push_back(b); i += l; } }
  int stored = 0, events = 0, queries_after = 0; std::set<uint64_t> targets_used;
  for (size_t op = 0; op < c.ops.size(); op++) {
    Draw &o = c.ops[op]; int k = o.range(0, 15); int nn = hwloc_get_nbobjs_by_type(t, HWLOC_OBJ_NUMANODE); std::string what;
    std::vector<hwloc_memattr_id_t> ids; for (auto &kv : model) ids.push_back(kv.first);
    if (k == 0) {
      std::string nm = o.chance(3, 4) ? std::string("a") + char('0' + o.range(0, 3)) : o.chance(1, 2) ? "Bandwidth" : o.chance(1, 2) ? "Capacity" : "Locality"; unsigned long fl = o.range(0, 7); hwloc_memattr_id_t id = 999; errno = 0; int rc = hwloc_memattr_register(t, nm.c_str(), fl, &id);
      bool dup = nm == "Capacity" || nm == "Locality"; for (auto &kv : model) if (kv.second.name == nm) dup = true; bool okfl = ((fl & 3) == 1 || (fl & 3) == 2);
      what = strf("register(%s, flags=%lu)=%d", nm.c_str(), fl, rc);
      if (!okfl) CHECK(c, rc == -1 && errno == EINVAL, "register", "%s: exactly one of HIGHER_FIRST/LOWER_FIRST is required: errno %d", what.c_str(), errno);
      else if (dup) CHECK(c, rc == -1 && errno == EBUSY, "register", "%s: duplicate name must fail with EBUSY: errno %d", what.c_str(), errno);
      else { CHECK(c, rc == 0 && id == nextid, "register", "%s: id %u, expected %u", what.c_str(), id, nextid); model[id] = Attr{nm, fl, {}}; nextid++; c.cls("op:register"); }
    } else if (k <= 6) {
      hwloc_memattr_id_t id = ids[o.raw() % ids.size()]; Attr &a = model[id]; hwloc_obj_t node = hwloc_get_obj_by_type(t, HWLOC_OBJ_NUMANODE, o.raw() % nn); uint64_t val = o.chance(1, 10) ? ((uint64_t)o.raw() << 20) : o.chance(1, 5) ? 0 : o.range(1, 50);   /* zero is a value like any other */
      struct hwloc_location loc; hwloc_bitmap_t b = hwloc_bitmap_alloc(); bool needi = a.flags & HWLOC_MEMATTR_FLAG_NEED_INITIATOR; Init in; in.val = val; in.objgp = 0; in.objtype = 0; bool useobj = o.chance(1, 4);
      USet curroot; to_uset(hwloc_get_root_obj(t)->cpuset, curroot);
      if (useobj) { hwloc_obj_t x = sel_obj_with_sets(o, t); if (hwloc_bitmap_iszero(x->cpuset)) x = hwloc_get_root_obj(t); loc.type = HWLOC_LOCATION_TYPE_OBJECT; loc.location.object = x; in.iscpuset = false; in.objgp = x->gp_index; in.objtype = x->type; }
      else { in.iscpuset = true; in.cs = inter(blocks[o.raw() % blocks.size()], curroot); if (in.cs.empty()) in.cs.insert(*curroot.begin()); /* keep stored initiators pairwise disjoint: a block or, if emptied by a restrict, the first PU (itself inside a block) */
             bool clash = false; for (auto &x : a.tg) for (auto &i : x.inits) if (i.iscpuset && i.cs != in.cs && !disjoint(i.cs, in.cs)) clash = true; if (clash) { hwloc_bitmap_free(b); c.cls("skipped:non-disjoint-initiator"); continue; }
             for (auto x : in.cs) hwloc_bitmap_set(b, x); loc.type = HWLOC_LOCATION_TYPE_CPUSET; loc.location.cpuset = b; }
      bool give = needi || o.chance(1, 2);
      what = strf("set_value(%s, node gp%llu, %s, %llu)", a.name.c_str(), (unsigned long long)node->gp_index, give ? (useobj ? strf("obj gp%llu", (unsigned long long)in.objgp).c_str() : ("cs{" + ustr(in.cs) + "}").c_str()) : "NULL", (unsigned long long)val); c.attempt(what);
      int rc = hwloc_memattr_set_value(t, id, node, give ? &loc : NULL, 0, val); CHECK(c, rc == 0, "set_value", "%s failed errno %d", what.c_str(), errno);
      Tgt *tg = nullptr; for (auto &x : a.tg) if (x.gp == node->gp_index) tg = &x; if (!tg) { a.tg.push_back(Tgt{node->gp_index, node->os_index}); tg = &a.tg.back(); }
      if (needi) { Init *e = nullptr; for (auto &x : tg->inits) if (x.iscpuset == in.iscpuset && (in.iscpuset ? x.cs == in.cs : x.objgp == in.objgp)) e = &x; if (e) e->val = val; else tg->inits.push_back(in); } else { tg->has_noinit = true; tg->noinit = val; }
      hwloc_bitmap_free(b); stored++; targets_used.insert(node->gp_index); c.cls(useobj && needi ? "op:set_value-object-initiator" : needi ? "op:set_value-cpuset-initiator" : "op:set_value-no-initiator");
      errno = 0; CHECK(c, hwloc_memattr_set_value(t, HWLOC_MEMATTR_ID_CAPACITY, node, NULL, 0, 5) == -1 && hwloc_memattr_set_value(t, HWLOC_MEMATTR_ID_LOCALITY, node, NULL, 0, 5) == -1, "readonly", "Capacity/Locality accepted a value");
    } else if (k <= 10) {
      hwloc_memattr_id_t id = ids[o.raw() % ids.size()]; Attr &a = model[id]; bool needi = a.flags & HWLOC_MEMATTR_FLAG_NEED_INITIATOR, higher = a.flags & HWLOC_MEMATTR_FLAG_HIGHER_FIRST;
      hwloc_obj_t node = hwloc_get_obj_by_type(t, HWLOC_OBJ_NUMANODE, o.raw() % nn); const Tgt *tg = nullptr; for (auto &x : a.tg) if (x.gp == node->gp_index) tg = &x;
      USet curroot; to_uset(hwloc_get_root_obj(t)->cpuset, curroot);
      int qs = o.range(0, 3); USet q = inter(blocks[o.raw() % blocks.size()], curroot); if (q.empty()) q.insert(*curroot.begin());
      if (qs == 1 && q.size() > 1) q.erase(q.begin());                                   // strict subset of a stored cpuset
      else if (qs == 2) { USet q2 = inter(blocks[o.raw() % blocks.size()], curroot); q.insert(q2.begin(), q2.end()); }   // straddles two blocks
      else if (qs == 3) { q.clear(); q.insert(700 + o.range(0, 9)); }                    // disjoint from everything
      hwloc_bitmap_t b = hwloc_bitmap_alloc(); for (auto x : q) hwloc_bitmap_set(b, x); struct hwloc_location loc; loc.type = HWLOC_LOCATION_TYPE_CPUSET; loc.location.cpuset = b;
      auto matching = [&](const Tgt &x, uint64_t &val) -> bool { if (!needi) { val = x.noinit; return true; } for (auto &i : x.inits) if (i.iscpuset && subset(q, i.cs)) { val = i.val; return true; } return false; };
      hwloc_uint64_t v = 0; int rc = hwloc_memattr_get_value(t, id, node, &loc, 0, &v); uint64_t ev = 0;
      what = strf("queries(%s, node gp%llu, cs{%s})", a.name.c_str(), (unsigned long long)node->gp_index, ustr(q).c_str());
      if (!tg) CHECK(c, rc == -1, "get_value", "%s: get_value on a target without values succeeded", what.c_str());
      else if (matching(*tg, ev)) CHECK(c, rc == 0 && v == ev, "get_value", "%s: get_value = %llu (ret %d), last stored value %llu", what.c_str(), (unsigned long long)v, rc, (unsigned long long)ev);
      else CHECK(c, rc == -1, "get_value", "%s: get_value succeeded without a matching initiator", what.c_str());
      // object initiators match by identity
      if (tg && needi) for (auto &i : tg->inits) if (!i.iscpuset) { struct hwloc_location ol; ol.type = HWLOC_LOCATION_TYPE_OBJECT; ol.location.object = obj_by_gp(t, i.objgp); hwloc_uint64_t ov = 0; int r5 = hwloc_memattr_get_value(t, id, node, &ol, 0, &ov); CHECK(c, r5 == 0 && ov == i.val, "get_value", "%s: object initiator gp%llu: value %llu ret %d, stored %llu", what.c_str(), (unsigned long long)i.objgp, (unsigned long long)ov, r5, (unsigned long long)i.val); }
      // undersized arrays: *nr is always the total
      { unsigned cap = o.range(0, 3), nr = cap; std::vector<hwloc_obj_t> tv(cap + 1, (hwloc_obj_t)0x1); std::vector<hwloc_uint64_t> vv(cap + 1); int r2 = hwloc_memattr_get_targets(t, id, NULL, 0, &nr, tv.data(), o.chance(1, 3) ? NULL : vv.data()); CHECK(c, r2 == 0 && nr == a.tg.size(), "get_targets", "%s: get_targets with array of %u: ret %d *nr=%u, model %zu", what.c_str(), cap, r2, nr, a.tg.size()); CHECK(c, tv[cap] == (hwloc_obj_t)0x1, "get_targets", "get_targets wrote past the array"); }
      if (tg && needi) {
        unsigned cap = o.range(0, 3), nr = cap; std::vector<struct hwloc_location> iv(cap + 1); std::vector<hwloc_uint64_t> vv(cap + 1); iv[cap].type = HWLOC_LOCATION_TYPE_CPUSET; iv[cap].location.cpuset = (hwloc_cpuset_t)0x1; int r2 = hwloc_memattr_get_initiators(t, id, node, 0, &nr, iv.data(), o.chance(1, 3) ? NULL : vv.data());
        CHECK(c, r2 == 0 && nr == tg->inits.size(), "get_initiators", "%s: get_initiators with array of %u: *nr=%u, model %zu", what.c_str(), cap, nr, tg->inits.size()); CHECK(c, iv[cap].location.cpuset == (hwloc_cpuset_t)0x1, "get_initiators", "get_initiators wrote past the array");
        struct hwloc_location best; hwloc_uint64_t bv = 0; errno = 0; int r3 = hwloc_memattr_get_best_initiator(t, id, node, 0, &best, &bv);
        if (tg->inits.empty()) CHECK(c, r3 == -1 && errno == ENOENT, "best_initiator", "%s: no initiator: ret %d errno %d", what.c_str(), r3, errno);
        else { uint64_t opt = tg->inits[0].val; for (auto &x : tg->inits) opt = higher ? std::max(opt, x.val) : std::min(opt, x.val); CHECK(c, r3 == 0 && bv == opt, "best_initiator", "%s: best initiator value %llu, optimum %llu", what.c_str(), (unsigned long long)bv, (unsigned long long)opt);
          bool found = false; for (auto &x : tg->inits) if (x.val == bv && lockey(best, bv) == initkey(t, x)) found = true; CHECK(c, found, "best_initiator", "%s: best initiator is not a stored entry with the optimal value", what.c_str()); }
      }
      { hwloc_obj_t bt = NULL; hwloc_uint64_t bv = 0; errno = 0; int r4 = hwloc_memattr_get_best_target(t, id, &loc, 0, &bt, &bv); bool any = false; uint64_t opt = 0; std::set<uint64_t> optgps;
        for (auto &x : a.tg) { uint64_t val = 0; if (matching(x, val)) { if (!any || (higher ? val > opt : val < opt)) { opt = val; optgps.clear(); } if (val == opt) optgps.insert(x.gp); any = true; } }
        if (!any) CHECK(c, r4 == -1 && errno == ENOENT, "best_target", "%s: no matching target: ret %d errno %d", what.c_str(), r4, errno);
        else CHECK(c, r4 == 0 && bv == opt && bt && optgps.count(bt->gp_index), "best_target", "%s: best target value %llu (ret %d), optimum %llu", what.c_str(), (unsigned long long)bv, r4, (unsigned long long)opt); }
      hwloc_bitmap_free(b); if ((stored >= 3 && targets_used.size() >= 2) || events) queries_after++; c.cls("op:queries");
    } else if (k == 11) {   // local NUMA nodes: exact filter of the NUMA level, logical order, *nr convention
      struct hwloc_location loc; hwloc_obj_t x = sel_obj(o, t); bool byobj = o.chance(1, 2); hwloc_bitmap_t b = hwloc_bitmap_alloc(); USet L;
      if (byobj) { loc.type = HWLOC_LOCATION_TYPE_OBJECT; loc.location.object = x; hwloc_obj_t y = x; while (!y->cpuset) y = y->parent; to_uset(y->cpuset, L); }
      else { hwloc_obj_t y = sel_obj_with_sets(o, t); hwloc_bitmap_copy(b, y->cpuset); if (o.chance(1, 3)) hwloc_bitmap_set(b, 600); if (hwloc_bitmap_iszero(b)) hwloc_bitmap_set(b, 0); to_uset(b, L); loc.type = HWLOC_LOCATION_TYPE_CPUSET; loc.location.cpuset = b; }
      unsigned long fl = o.range(0, 7); std::vector<hwloc_obj_t> exp;
      for (hwloc_obj_t n = NULL; (n = hwloc_get_next_obj_by_type(t, HWLOC_OBJ_NUMANODE, n));) { USet ncs; to_uset(n->cpuset, ncs); bool sel = (fl & HWLOC_LOCAL_NUMANODE_FLAG_ALL) || ncs == L || ((fl & HWLOC_LOCAL_NUMANODE_FLAG_LARGER_LOCALITY) && subset(L, ncs)) || ((fl & HWLOC_LOCAL_NUMANODE_FLAG_SMALLER_LOCALITY) && subset(ncs, L)); if (sel) exp.push_back(n); }
      unsigned cap = o.range(0, (int)exp.size() + 1), nr = cap; std::vector<hwloc_obj_t> got(cap + 1, (hwloc_obj_t)0x1); int r = hwloc_get_local_numanode_objs(t, &loc, &nr, got.data(), fl);
      what = strf("local_numanodes(%s{%s}, flags=%lu, array=%u)", byobj ? "obj" : "cs", ustr(L).c_str(), fl, cap);
      CHECK(c, r == 0 && nr == exp.size(), "local_numanodes", "%s: ret %d *nr=%u, %zu nodes satisfy the documented filter", what.c_str(), r, nr, exp.size());
      for (unsigned i = 0; i < cap && i < exp.size(); i++) CHECK(c, got[i] == exp[i], "local_numanodes", "%s: slot %u is not the expected node (logical order)", what.c_str(), i); CHECK(c, got[cap] == (hwloc_obj_t)0x1, "local_numanodes", "wrote past the array");
      errno = 0; nr = 1; CHECK(c, hwloc_get_local_numanode_objs(t, &loc, &nr, got.data(), 1UL << o.range(3, 9)) == -1 && errno == EINVAL, "local_numanodes", "unknown flag accepted"); hwloc_bitmap_free(b); c.cls("op:local-numanodes");
    } else if (k == 12) {   // default nodeset: existing nodes with pairwise-disjoint cpusets
      hwloc_bitmap_t ns = hwloc_bitmap_alloc(); int r = hwloc_topology_get_default_nodeset(t, ns, 0); CHECK(c, r == 0, "default_nodeset", "ret %d", r);
      CHECK(c, hwloc_bitmap_isincluded(ns, hwloc_topology_get_topology_nodeset(t)), "default_nodeset", "default nodeset %s is not included in the topology nodeset", bstr(ns).c_str());
      std::vector<hwloc_obj_t> nodes; int i; hwloc_bitmap_foreach_begin(i, ns) { hwloc_obj_t n = hwloc_get_numanode_obj_by_os_index(t, i); CHECK(c, n != NULL, "default_nodeset", "node %d of the default nodeset does not exist", i); nodes.push_back(n); } hwloc_bitmap_foreach_end();
      for (size_t a = 0; a < nodes.size(); a++) for (size_t b2 = a + 1; b2 < nodes.size(); b2++) CHECK(c, !hwloc_bitmap_intersects(nodes[a]->cpuset, nodes[b2]->cpuset), "default_nodeset", "default nodes P#%u and P#%u have intersecting cpusets", nodes[a]->os_index, nodes[b2]->os_index);
      errno = 0; CHECK(c, hwloc_topology_get_default_nodeset(t, ns, 1) == -1 && errno == EINVAL, "default_nodeset", "non-zero flags accepted"); hwloc_bitmap_free(ns); what = "default_nodeset"; c.cls("op:default-nodeset");
    } else if (k == 13 && (tf & HWLOC_TOPOLOGY_FLAG_INCLUDE_DISALLOWED) && o.chance(1, 2)) {   // change the allowed sets: nothing stored may change
      hwloc_bitmap_t set = hwloc_bitmap_alloc(); hwloc_obj_t pu = NULL; while ((pu = hwloc_get_next_obj_by_type(t, HWLOC_OBJ_PU, pu))) if (o.chance(1, 2)) hwloc_bitmap_set(set, pu->os_index); if (hwloc_bitmap_iszero(set)) hwloc_bitmap_set(set, hwloc_bitmap_first(hwloc_topology_get_topology_cpuset(t)));
      int r = hwloc_topology_allow(t, set, NULL, HWLOC_ALLOW_FLAG_CUSTOM); what = strf("allow(CUSTOM, %s)=%d", bstr(set).c_str(), r); hwloc_bitmap_free(set); CHECK(c, r == 0, "allow", "%s failed errno %d", what.c_str(), errno); events++; c.cls("op:allow"); if (o.chance(1, 2)) hwloc_topology_refresh(t);
    } else if (k == 13) {
      hwloc_bitmap_t set = hwloc_bitmap_alloc(); int dens = o.range(4, 9); hwloc_obj_t pu = NULL; while ((pu = hwloc_get_next_obj_by_type(t, HWLOC_OBJ_PU, pu))) if ((int)(o.raw() % 10) < dens) hwloc_bitmap_set(set, pu->os_index);
      unsigned long fl = o.chance(1, 2) ? HWLOC_RESTRICT_FLAG_REMOVE_CPULESS : 0; c.attempt("restrict " + bstr(set)); int r = hwloc_topology_restrict(t, set, fl); what = strf("restrict(%s, 0x%lx)=%d", bstr(set).c_str(), fl, r); hwloc_bitmap_free(set);
      if (r == 0) { model_after_restrict(t, model); events++; c.cls("op:restrict"); if (o.chance(1, 2)) hwloc_topology_refresh(t); }
    } else if (k == 14) { hwloc_topology_t n; CHECK(c, hwloc_topology_dup(&n, t) == 0, "dup", "dup failed"); hwloc_topology_destroy(t); t = n; events++; what = "dup-and-continue"; c.cls("op:dup");
    } else { std::string x = export_xml(t); hwloc_topology_t n; hwloc_topology_init(&n); hwloc_topology_set_flags(n, tf); hwloc_topology_set_xmlbuffer(n, x.c_str(), (int)x.size() + 1); CHECK(c, hwloc_topology_load(n) == 0, "xml_reload", "reload of the exported XML failed"); hwloc_topology_destroy(t); t = n; events++; what = "xml-reload-and-continue"; c.cls("op:xml-reload"); }
    c.desc("\n | " + what);
    compare_all(c, t, model, what.c_str());
  }
  if (queries_after) c.nontrivial();
  require_wf(c, t, "end"); hwloc_topology_destroy(t);
}
