// C19 — shared-memory topologies: length suffices, adopted copy is equal and read-only (DESIGN.md section 4, C19).
// Mechanism: a 256 MiB PROT_NONE reservation; exactly [addr, addr+len) is released before hwloc_shmem_topology_write(), so a write past
// get_length() bytes faults; the bytes before the file offset are pre-filled with a pattern that must survive.
#include "ops.hpp"
#include <hwloc/shmem.h>
#include <unistd.h>
#include <fcntl.h>
#include <sys/mman.h>
#include <sys/stat.h>

void h_configure(HConfig &cfg) {
  cfg.property = "C19"; cfg.name = "c19_shmem";
  cfg.rule = "case = TopoSpec + history (distances, memattr values, cpukinds, infos incl. hundreds of odd-length pairs so that the size modulo the page size varies, INCLUDE_DISALLOWED) + file offset in {0,1,3,17} pages + argument mode (exact / wrong address / wrong length / flags / occupied range) + calls on the adopted topology; non-trivial = topology with distances, memattr values or cpukinds adopted at a non-zero offset, or at least 2 modifying calls attempted on the adopted topology; distinct by hash of the decoded case";
  cfg.head_len = 700; cfg.op_len = 200; cfg.max_ops = 5; cfg.leak_check = true;
}

void h_run(Case &c) {
  Draw &d = c.head; long ps = sysconf(_SC_PAGESIZE);
  SpecOpts so; so.misc_keep = true; so.syn.max_pus = 48; so.xml_den = 6; so.gx_num = 1; so.gx_den = 6; TopoSpec sp = gen_topospec(d, so); sp.flags &= ~(unsigned long)HWLOC_TOPOLOGY_FLAG_IS_THISSYSTEM; c.desc(sp.text());
  hwloc_topology_t t; hwloc_topology_init(&t); if (apply_spec_and_load(c, t, sp) < 0) { hwloc_topology_destroy(t); c.discard(); }
  OpOpts oo; { const char *e = getenv("VERIF_INCLUDE_KNOWN"); oo.allow_cpuless_nodeset_group = e && strstr(e, "F-C02-d"); }
  for (size_t i = 0; i < c.ops.size(); i++) { OpRes r = apply_op(c, c.ops[i], t, oo); c.desc("\n | " + r.desc); }
  auto objs = all_objs(t); int ninfo = d.chance(1, 3) ? d.range(100, 600) : d.range(0, 20);
  for (int i = 0; i < ninfo; i++) { hwloc_obj_t o = objs[d.raw() % objs.size()]; char nm[16], val[24]; snprintf(nm, sizeof nm, "k%d", i); int L = d.range(0, 15); for (int j = 0; j < L; j++) val[j] = 'a' + j; val[L] = 0; hwloc_obj_add_info(o, nm, val); }
  hwloc_topology_refresh(t);
  bool rich = false; { unsigned nr = 0; hwloc_distances_get(t, &nr, NULL, 0, 0); if (nr) rich = true; } if (hwloc_cpukinds_get_nr(t, 0) > 0) rich = true; if (dump_memattrs(t, DUMP_GP).find(" target ") != std::string::npos) rich = true;
  require_wf(c, t, "source topology");
  std::string xo = export_xml(t), dumpo = dump_topology(t, DUMP_GP | DUMP_EXTRAS | DUMP_SUPPORT);
  size_t len = 0; CHECK(c, hwloc_shmem_topology_get_length(t, &len, 0) == 0, "get_length", "get_length failed errno %d", errno); CHECK(c, len > 0 && len % ps == 0, "get_length", "length %zu is not a multiple of the page size", len);
  errno = 0; { size_t l2; CHECK(c, hwloc_shmem_topology_get_length(t, &l2, 1UL << d.range(0, 5)) == -1 && errno == EINVAL, "get_length_flags", "non-zero flags accepted by get_length"); }
  size_t RES = 256UL << 20; char *base = (char *)mmap((void *)0x7e0000000000UL, RES, PROT_NONE, MAP_PRIVATE | MAP_ANONYMOUS | MAP_NORESERVE, -1, 0); CHECK(c, base != MAP_FAILED, "harness_reserve", "cannot reserve the address range"); CHECK(c, len + 80 * ps < RES, "harness_reserve", "topology too large for the reservation");
  char *addr = base + (size_t)d.range(1, 64) * ps; munmap(addr, len);   // the pages after addr+len stay PROT_NONE: a write past the length faults
  std::string path = std::string(h_workdir()) + strf("/shm.%d", (int)getpid()); int fd = open(path.c_str(), O_RDWR | O_CREAT | O_TRUNC, 0600); unlink(path.c_str()); CHECK(c, fd >= 0, "harness_file", "cannot create the backing file");
  static const long offp[] = {0, 1, 3, 17}; uint64_t off = (uint64_t)d.pick(offp) * ps; if (off) { std::vector<char> pat(off, 0x5a); CHECK(c, write(fd, pat.data(), off) == (ssize_t)off, "harness_file", "prefill failed"); }
  int mode = d.range(0, 9); c.descf("\n infos=%d len=%zu (%zu pages) offset=%llu mode=%d", ninfo, len, len / ps, (unsigned long long)off, mode);
  if (mode == 0) {   // mismatching arguments at adopt => EINVAL
    CHECK(c, hwloc_shmem_topology_write(t, fd, off, addr, len, 0) == 0, "write", "write failed errno %d", errno); hwloc_topology_t a = NULL; int w = d.range(0, 4), rc; errno = 0;
    if (w == 0) rc = hwloc_shmem_topology_adopt(&a, fd, off, addr + ps, len, 0); else if (w == 1) rc = hwloc_shmem_topology_adopt(&a, fd, off, addr, len + ps, 0); else if (w == 2) rc = hwloc_shmem_topology_adopt(&a, fd, off, addr, len, 1UL << d.range(0, 5)); else if (w == 3) rc = hwloc_shmem_topology_adopt(&a, fd, off, addr + 8, len, 0); else rc = hwloc_shmem_topology_adopt(&a, fd, off + ps, addr, len > (size_t)ps ? len - ps : len, 0);
    CHECK(c, rc == -1 && errno == EINVAL, "adopt_einval", "adopt with mismatching arguments (variant %d) returned %d errno %d", w, rc, errno); c.cls("adopt:wrong-arguments"); hwloc_topology_destroy(t); close(fd); return; }
  if (mode == 1) {   // unavailable range => EBUSY, source untouched
    void *x = mmap(addr, ps, PROT_READ, MAP_PRIVATE | MAP_ANONYMOUS | MAP_FIXED, -1, 0); (void)x; errno = 0; int rc = hwloc_shmem_topology_write(t, fd, off, addr, len, 0);
    CHECK(c, rc == -1 && errno == EBUSY, "write_ebusy", "write into an occupied range returned %d errno %d", rc, errno); CHECK(c, export_xml(t) == xo, "write_source_unchanged", "a failed write changed the source topology"); c.cls("write:occupied-range"); hwloc_topology_destroy(t); close(fd); return; }
  if (mode == 2) { errno = 0; int rc = hwloc_shmem_topology_write(t, fd, off, addr, len, 1UL << d.range(0, 5)); CHECK(c, rc == -1 && errno == EINVAL, "write_flags", "write with non-zero flags returned %d errno %d", rc, errno); hwloc_topology_destroy(t); close(fd); return; }
  c.attempt("hwloc_shmem_topology_write");
  CHECK(c, hwloc_shmem_topology_write(t, fd, off, addr, len, 0) == 0, "write", "write failed errno %d", errno);
  struct stat st; fstat(fd, &st); CHECK(c, (uint64_t)st.st_size == off + len, "write_filesize", "file size %lld, expected offset+length = %llu", (long long)st.st_size, (unsigned long long)(off + len));
  if (off) { std::vector<char> chk(off); CHECK(c, pread(fd, chk.data(), off, 0) == (ssize_t)off, "harness_file", "pread"); for (char ch : chk) CHECK(c, ch == 0x5a, "write_prefix", "bytes before the file offset were modified"); }
  CHECK(c, export_xml(t) == xo, "write_source_unchanged", "write changed the source topology");
  bool destroy_source_first = d.chance(1, 2); if (destroy_source_first) { hwloc_topology_destroy(t); t = NULL; }
  hwloc_topology_t a = NULL; c.attempt("hwloc_shmem_topology_adopt"); CHECK(c, hwloc_shmem_topology_adopt(&a, fd, off, addr, len, 0) == 0, "adopt", "adopt with identical arguments failed errno %d", errno);
  require_wf(c, a, "adopted topology");
  CHECK(c, export_xml(a) == xo, "adopt_equal_xml", "XML export of the adopted topology differs from the original's");
  std::string df = first_diff(dumpo, dump_topology(a, DUMP_GP | DUMP_EXTRAS | DUMP_SUPPORT)); CHECK(c, df.empty(), "adopt_equal", "the adopted topology differs from the original: %s", df.c_str());
  std::vector<char> before(len); CHECK(c, pread(fd, before.data(), len, off) == (ssize_t)len, "harness_file", "pread2");
  // structure-modifying calls must be refused without touching the mapping
  int nmod = d.range(0, 12), done = 0; std::string dump_a = dump_topology(a, DUMP_GP | DUMP_EXTRAS);
  for (int k = 0; k < nmod; k++) { int w = d.range(0, 13); errno = 0; std::string what;
    switch (w) {
    case 0: { hwloc_bitmap_t s = hwloc_bitmap_alloc(); hwloc_bitmap_set(s, hwloc_bitmap_first(hwloc_topology_get_topology_cpuset(a))); int r = hwloc_topology_restrict(a, s, 0); hwloc_bitmap_free(s); what = "restrict"; CHECK(c, r == -1 && errno == EPERM, "adopted_eperm", "restrict on an adopted topology returned %d errno %d", r, errno); break; }
    case 1: what = "insert_misc"; CHECK(c, hwloc_topology_insert_misc_object(a, hwloc_get_root_obj(a), "x") == NULL && errno == EPERM, "adopted_eperm", "insert_misc_object on an adopted topology: errno %d", errno); break;
    case 2: what = "alloc_group"; CHECK(c, hwloc_topology_alloc_group_object(a) == NULL && errno == EPERM, "adopted_eperm", "alloc_group_object on an adopted topology: errno %d", errno); break;
    case 3: what = "distances_add_create"; CHECK(c, hwloc_distances_add_create(a, "z", HWLOC_DISTANCES_KIND_FROM_USER | HWLOC_DISTANCES_KIND_VALUE_LATENCY, 0) == NULL && errno == EPERM, "adopted_eperm", "distances_add_create on an adopted topology: errno %d", errno); break;
    case 4: what = "distances_remove"; CHECK(c, hwloc_distances_remove(a) == -1 && errno == EPERM, "adopted_eperm", "distances_remove: errno %d", errno); break;
    case 5: what = "distances_remove_by_depth"; CHECK(c, hwloc_distances_remove_by_depth(a, 0) == -1 && errno == EPERM, "adopted_eperm", "distances_remove_by_depth: errno %d", errno); break;
    case 6: { what = "diff_apply"; hwloc_topology_diff_t dd = NULL; CHECK(c, hwloc_topology_diff_apply(a, dd, 0) == -1 && errno == EPERM, "adopted_eperm", "diff_apply: errno %d", errno); break; }
    case 7: { what = "memattr_register"; hwloc_memattr_id_t id; int r = hwloc_memattr_register(a, "adopted-attr", HWLOC_MEMATTR_FLAG_HIGHER_FIRST, &id); CHECK(c, r == -1 && errno == EPERM, "adopted_eperm", "memattr_register on an adopted topology returned %d errno %d", r, errno); break; }
    case 8: { what = "memattr_set_value"; struct hwloc_location loc; loc.type = HWLOC_LOCATION_TYPE_CPUSET; loc.location.cpuset = hwloc_get_obj_by_type(a, HWLOC_OBJ_PU, 0)->cpuset; int r = hwloc_memattr_set_value(a, HWLOC_MEMATTR_ID_BANDWIDTH, hwloc_get_obj_by_type(a, HWLOC_OBJ_NUMANODE, 0), &loc, 0, 5); CHECK(c, r == -1, "adopted_eperm", "memattr_set_value on an adopted topology succeeded"); break; }
    case 9: { what = "cpukinds_register"; hwloc_bitmap_t s = hwloc_bitmap_alloc(); hwloc_bitmap_set(s, hwloc_bitmap_first(hwloc_topology_get_topology_cpuset(a))); int r = hwloc_cpukinds_register(a, s, 1, NULL, 0); hwloc_bitmap_free(s); CHECK(c, r == -1 && errno == EPERM, "adopted_eperm", "cpukinds_register on an adopted topology returned %d errno %d", r, errno); break; }
    case 10: { what = "distances_release_remove"; unsigned nr = 1; struct hwloc_distances_s *ds = NULL; hwloc_distances_get(a, &nr, &ds, 0, 0); if (nr >= 1 && ds) { int r = hwloc_distances_release_remove(a, ds); CHECK(c, r == -1 && errno == EPERM, "adopted_eperm", "distances_release_remove on an adopted topology returned %d errno %d", r, errno); hwloc_distances_release(a, ds); } break; }
    case 11: { what = "refresh"; int r = hwloc_topology_refresh(a); CHECK(c, r == -1 && errno == EPERM, "adopted_eperm", "refresh on an adopted topology returned %d errno %d", r, errno); break; }
    case 12: { what = "read-only queries"; unsigned nr = 8; struct hwloc_distances_s *dd[8]; CHECK(c, hwloc_distances_get(a, &nr, dd, 0, 0) == 0, "adopted_query", "distances_get on an adopted topology failed"); for (unsigned i = 0; i < nr && i < 8; i++) hwloc_distances_release(a, dd[i]); hwloc_uint64_t v; for (hwloc_memattr_id_t id = 0; id < 8; id++) { struct hwloc_location loc; loc.type = HWLOC_LOCATION_TYPE_CPUSET; loc.location.cpuset = hwloc_get_root_obj(a)->cpuset; hwloc_obj_t bt; (void)hwloc_memattr_get_best_target(a, id, &loc, 0, &bt, &v); (void)hwloc_memattr_get_value(a, id, hwloc_get_obj_by_type(a, HWLOC_OBJ_NUMANODE, 0), &loc, 0, &v); } (void)hwloc_cpukinds_get_nr(a, 0); hwloc_topology_t cp; if (hwloc_topology_dup(&cp, a) == 0) { CHECK(c, first_diff(dump_a, dump_topology(cp, DUMP_GP | DUMP_EXTRAS)).empty(), "adopted_dup", "dup of the adopted topology differs"); hwloc_topology_destroy(cp); } break; }
    default: { what = "allow"; bool incl = hwloc_topology_get_flags(a) & HWLOC_TOPOLOGY_FLAG_INCLUDE_DISALLOWED; hwloc_bitmap_t cs = hwloc_bitmap_dup(hwloc_topology_get_topology_cpuset(a)); if (hwloc_bitmap_weight(cs) > 1) hwloc_bitmap_clr(cs, hwloc_bitmap_last(cs));
        c.attempt("hwloc_topology_allow on the adopted topology"); int r = hwloc_topology_allow(a, cs, NULL, HWLOC_ALLOW_FLAG_CUSTOM);
        if (!incl) CHECK(c, r == -1 && errno == EINVAL, "adopted_allow", "allow without INCLUDE_DISALLOWED returned %d errno %d", r, errno);
        else { CHECK(c, r == 0, "adopted_allow", "allow on an adopted topology (original loaded with INCLUDE_DISALLOWED) returned %d errno %d", r, errno); CHECK(c, hwloc_bitmap_isequal(hwloc_topology_get_allowed_cpuset(a), cs), "adopted_allow", "allowed cpuset is %s after allow(%s)", bstr(hwloc_topology_get_allowed_cpuset(a)).c_str(), bstr(cs).c_str());
          hwloc_bitmap_t all = hwloc_bitmap_dup(hwloc_topology_get_topology_cpuset(a)); hwloc_topology_allow(a, all, NULL, HWLOC_ALLOW_FLAG_CUSTOM); hwloc_bitmap_free(all); /* back to what the dump holds? only if it was the full set */ dump_a = dump_topology(a, DUMP_GP | DUMP_EXTRAS); c.cls("adopted:allow-worked"); }
        hwloc_bitmap_free(cs); break; } }
    done++; c.desc(" ~" + what);
    if (w != 13) { std::string d2 = first_diff(dump_a, dump_topology(a, DUMP_GP | DUMP_EXTRAS)); CHECK(c, d2.empty(), "adopted_unchanged", "%s on the adopted topology changed what it reports: %s", what.c_str(), d2.c_str()); }
    std::vector<char> after(len); CHECK(c, pread(fd, after.data(), len, off) == (ssize_t)len, "harness_file", "pread3"); CHECK(c, before == after, "adopted_file_untouched", "the backing file was modified through the adopted topology (%s)", what.c_str());
  }
  require_wf(c, a, "adopted topology after the calls");
  c.attempt("destroy of the adopted topology"); hwloc_topology_destroy(a);
  // destroy unmapped the range: it can be mapped again at the same address
  { void *x = mmap(addr, len, PROT_READ, MAP_PRIVATE | MAP_ANONYMOUS | MAP_FIXED_NOREPLACE, -1, 0); CHECK(c, x == (void *)addr, "destroy_unmaps", "the range is still mapped after destroying the adopted topology (errno %d)", errno); munmap(addr, len); }
  if (t) { CHECK(c, export_xml(t) == xo, "write_source_unchanged", "the source topology changed"); hwloc_topology_destroy(t); }
  close(fd); munmap(base, RES);
  if ((rich && off) || done >= 2) c.nontrivial(); if (rich) c.cls("rich-topology"); if (off) c.cls("nonzero-offset"); c.cls("adopt:ok");
}

bool h_named(const std::string &name, Case &c) {
  long ps = sysconf(_SC_PAGESIZE);
  if (name == "F-C19-e") {   // a Group replaced by a later Group insertion changes its gp_index while a distances structure refers to it
    c.desc("pack:1 core:4 pu:1; Groups A={0,1} and B={2,3} (kind 3); distances between A and B; insert Group {0,1} with kind 0 (replaces A); shmem write");
    hwloc_topology_t t; hwloc_topology_init(&t); hwloc_topology_set_synthetic(t, "pack:1 core:4 pu:1"); hwloc_topology_load(t);
    auto grp = [&](const char *l, unsigned kind) { hwloc_obj_t g = hwloc_topology_alloc_group_object(t); g->cpuset = hwloc_bitmap_alloc(); hwloc_bitmap_list_sscanf(g->cpuset, l); g->attr->group.kind = kind; return hwloc_topology_insert_group_object(t, g); };
    hwloc_obj_t A = grp("0-1", 3), B = grp("2-3", 3); CHECK(c, A && B && A->type == HWLOC_OBJ_GROUP && B->type == HWLOC_OBJ_GROUP, "named_setup", "groups not inserted");
    hwloc_obj_t o2[2] = {A, B}; hwloc_uint64_t v[4] = {1, 2, 3, 4}; hwloc_distances_add_handle_t h = hwloc_distances_add_create(t, "g", HWLOC_DISTANCES_KIND_FROM_USER | HWLOC_DISTANCES_KIND_VALUE_LATENCY, 0); hwloc_distances_add_values(t, h, 2, o2, v, 0); CHECK(c, hwloc_distances_add_commit(t, h, 0) == 0, "named_setup", "commit failed");
    uint64_t gpA = A->gp_index; hwloc_obj_t C = grp("0-1", 0); c.descf(" (A gp %llu -> %llu)", (unsigned long long)gpA, (unsigned long long)(C ? C->gp_index : 0)); hwloc_topology_refresh(t);
    hwloc_topology_t cp; CHECK(c, hwloc_topology_dup(&cp, t) == 0, "named_setup", "dup failed"); unsigned n1 = 0, n2 = 0; hwloc_distances_get(t, &n1, NULL, 0, 0); hwloc_distances_get(cp, &n2, NULL, 0, 0);
    CHECK(c, n1 == n2, "dup_equal", "the original reports %u distances structures, its duplicate %u", n1, n2); hwloc_topology_destroy(cp);
    size_t len; hwloc_shmem_topology_get_length(t, &len, 0); char *addr = (char *)mmap((void *)0x7e0000000000UL, len + 16 * ps, PROT_NONE, MAP_PRIVATE | MAP_ANONYMOUS | MAP_NORESERVE, -1, 0); munmap(addr, len);
    std::string path = std::string(h_workdir()) + strf("/shme.%d", (int)getpid()); int fd = open(path.c_str(), O_RDWR | O_CREAT | O_TRUNC, 0600); unlink(path.c_str()); CHECK(c, hwloc_shmem_topology_write(t, fd, 0, addr, len, 0) == 0, "write", "write failed");
    hwloc_topology_destroy(t); close(fd); return true;
  } hwloc_topology_t t; hwloc_topology_init(&t); hwloc_topology_set_flags(t, HWLOC_TOPOLOGY_FLAG_INCLUDE_DISALLOWED); hwloc_topology_set_synthetic(t, "pack:2 [numa] core:2 pu:2"); hwloc_topology_load(t);
  { hwloc_obj_t o2[2] = {hwloc_get_obj_by_type(t, HWLOC_OBJ_PU, 0), hwloc_get_obj_by_type(t, HWLOC_OBJ_PU, 1)}; hwloc_uint64_t v[4] = {1, 2, 3, 4}; hwloc_distances_add_handle_t h = hwloc_distances_add_create(t, "d", HWLOC_DISTANCES_KIND_FROM_USER | HWLOC_DISTANCES_KIND_VALUE_LATENCY, 0); hwloc_distances_add_values(t, h, 2, o2, v, 0); hwloc_distances_add_commit(t, h, 0); }
  size_t len; hwloc_shmem_topology_get_length(t, &len, 0); char *addr = (char *)mmap((void *)0x7e0000000000UL, len + 16 * ps, PROT_NONE, MAP_PRIVATE | MAP_ANONYMOUS | MAP_NORESERVE, -1, 0); munmap(addr, len);
  std::string path = std::string(h_workdir()) + strf("/shmn.%d", (int)getpid()); int fd = open(path.c_str(), O_RDWR | O_CREAT | O_TRUNC, 0600); unlink(path.c_str());
  CHECK(c, hwloc_shmem_topology_write(t, fd, 0, addr, len, 0) == 0, "named_setup", "write failed"); hwloc_topology_t a; CHECK(c, hwloc_shmem_topology_adopt(&a, fd, 0, addr, len, 0) == 0, "named_setup", "adopt failed");
  if (name == "F-C19-a") { c.desc("hwloc_topology_allow(CUSTOM) on an adopted topology whose original was loaded with INCLUDE_DISALLOWED"); hwloc_bitmap_t cs = hwloc_bitmap_alloc(); hwloc_bitmap_set_range(cs, 0, 5); int r = hwloc_topology_allow(a, cs, NULL, HWLOC_ALLOW_FLAG_CUSTOM); CHECK(c, r == 0 && hwloc_bitmap_isequal(hwloc_topology_get_allowed_cpuset(a), cs), "adopted_allow", "allow returned %d", r); hwloc_bitmap_free(cs); }
  else if (name == "F-C19-b") { c.desc("first memattr query and XML export on an adopted topology"); hwloc_uint64_t v; struct hwloc_location loc; loc.type = HWLOC_LOCATION_TYPE_CPUSET; loc.location.cpuset = hwloc_get_root_obj(a)->cpuset; (void)hwloc_memattr_get_value(a, HWLOC_MEMATTR_ID_BANDWIDTH, hwloc_get_obj_by_type(a, HWLOC_OBJ_NUMANODE, 0), &loc, 0, &v); CHECK(c, export_xml(a) == export_xml(t), "adopt_equal_xml", "XML differs"); }
  else if (name == "F-C19-c") { c.desc("memattr_register / memattr_set_value / cpukinds_register / distances_release_remove on an adopted topology must fail with EPERM");
    hwloc_memattr_id_t id; errno = 0; CHECK(c, hwloc_memattr_register(a, "x", HWLOC_MEMATTR_FLAG_HIGHER_FIRST, &id) == -1 && errno == EPERM, "adopted_eperm", "memattr_register: errno %d", errno);
    hwloc_bitmap_t s = hwloc_bitmap_alloc(); hwloc_bitmap_set(s, 0); errno = 0; CHECK(c, hwloc_cpukinds_register(a, s, 1, NULL, 0) == -1 && errno == EPERM, "adopted_eperm", "cpukinds_register: errno %d", errno); hwloc_bitmap_free(s);
    unsigned nr = 1; struct hwloc_distances_s *ds = NULL; hwloc_distances_get(a, &nr, &ds, 0, 0); CHECK(c, nr == 1 && ds, "named_setup", "no distances"); errno = 0; CHECK(c, hwloc_distances_release_remove(a, ds) == -1 && errno == EPERM, "adopted_eperm", "distances_release_remove: errno %d", errno); hwloc_distances_release(a, ds); }
  else if (name == "F-C19-d") { c.desc("hwloc_topology_refresh on an adopted topology"); errno = 0; int r = hwloc_topology_refresh(a); CHECK(c, r == -1 && errno == EPERM, "adopted_eperm", "refresh returned %d errno %d", r, errno); }
  else { hwloc_topology_destroy(a); hwloc_topology_destroy(t); close(fd); return false; }
  hwloc_topology_destroy(a); hwloc_topology_destroy(t); close(fd); return true;
}
