// C16 — topology diffs: build/apply/reverse are inverse, failures roll back (DESIGN.md section 4, C16).
// Domain: A = small synthetic topology with annotations; B = dup(A) + generated representable edits (rename, info value change,
// local memory change with total_memory propagated) and non-representable ones; the diff is exported/loaded as XML on the way.
#include "ops.hpp"

void h_configure(HConfig &cfg) {
  cfg.property = "C16"; cfg.name = "c16_diff";
  cfg.rule = "case = annotated topology A + edit list producing B; checks build/apply/reverse/XML round trip/rollback or TOO_COMPLEX; non-trivial = at least 2 representable edits on different objects, or a rollback with N >= 2; distinct by hash of the edit list";
  cfg.head_len = 160; cfg.op_len = 24; cfg.max_ops = 6; cfg.leak_check = true;
}

// what a diff may carry: names, info values, NUMA local memory and the derived total_memory
static std::string ddump(hwloc_topology_t t) {
  std::string s; char b[256];
  for (auto o : all_objs(t)) { snprintf(b, sizeof b, "%s#%u name=%s tm=%llu lm=%llu infos=", hwloc_obj_type_string(o->type), o->logical_index, o->name ? o->name : "(null)", (unsigned long long)o->total_memory, (unsigned long long)(o->type == HWLOC_OBJ_NUMANODE ? o->attr->numanode.local_memory : 0)); s += b;
    for (unsigned i = 0; i < o->infos.count; i++) { s += o->infos.array[i].name; s += "="; s += o->infos.array[i].value; s += ";"; } s += "\n"; }
  struct hwloc_infos_s *ti = hwloc_topology_get_infos(t); s += "topo:"; for (unsigned i = 0; i < ti->count; i++) { s += ti->array[i].name; s += "="; s += ti->array[i].value; s += ";"; }
  return s;
}
static bool streq(const char *a, const char *b) { return (!a && !b) || (a && b && !strcmp(a, b)); }

void h_run(Case &c) {
  Draw &d = c.head;
  static const char *syns[] = {"pack:2 [numa] l3:2 core:2 pu:2", "numa:3 pack:2 core:2 pu:1", "pack:3 [numa] [numa] core:3 pu:1", "group:2 pack:2 [numa] l2:2 core:1 pu:2", "[numa] pack:4 pu:2"};
  const char *syn = d.pick(syns); bool misc = d.chance(1, 2); c.descf("A: synthetic=\"%s\"%s", syn, misc ? " Misc kept" : "");
  hwloc_topology_t A; hwloc_topology_init(&A); hwloc_topology_set_synthetic(A, syn); if (misc) hwloc_topology_set_type_filter(A, HWLOC_OBJ_MISC, HWLOC_TYPE_FILTER_KEEP_ALL); CHECK(c, hwloc_topology_load(A) == 0, "setup", "load failed");
  { int n = d.range(0, 3); for (int i = 0; i < n; i++) hwloc_topology_insert_misc_object(A, sel_obj(d, A), "miscA"); }
  int nlong = 0;   // info values of several thousand characters: diffs that do not fit the exporters' first buffer
  for (auto o : all_objs(A)) { if (d.chance(1, 3) && !o->name) o->name = strdup(d.chance(1, 2) ? "n<&\"x" : "nm"); int k = d.range(0, 2); bool samename = k == 2 && d.chance(1, 3);   /* two pairs with one name are fine as long as their values differ: only identical pairs are finding F-C16-b */
    for (int i = 0; i < k; i++) { char nm[8]; snprintf(nm, 8, "k%d", samename ? 0 : i); std::string val = samename ? (i ? "v2" : "v&1") : (d.chance(1, 2) ? "v&1" : "v2"); if (d.chance(1, 12)) { val.append((size_t)d.range(3000, 9000), 'x'); val += std::to_string(i); nlong++; } hwloc_obj_add_info(o, nm, val.c_str()); } if (samename) c.cls("annot:same-info-name-twice"); }
  hwloc_modify_infos(hwloc_topology_get_infos(A), HWLOC_MODIFY_INFOS_OP_ADD, "tk", "tv0"); if (nlong) c.cls("annot:long-info-values");
  bool extras = d.chance(1, 3);
  if (extras) {  // something for the memattr/distances comparison to look at
    hwloc_obj_t o2[2] = {hwloc_get_obj_by_type(A, HWLOC_OBJ_PU, 0), hwloc_get_obj_by_type(A, HWLOC_OBJ_PU, 1)}; hwloc_uint64_t v[4] = {1, 2, 3, 4};
    hwloc_distances_add_handle_t h = hwloc_distances_add_create(A, "dA", HWLOC_DISTANCES_KIND_FROM_USER | HWLOC_DISTANCES_KIND_VALUE_LATENCY, 0); hwloc_distances_add_values(A, h, 2, o2, v, 0); hwloc_distances_add_commit(A, h, 0);
    struct hwloc_location loc; loc.type = HWLOC_LOCATION_TYPE_CPUSET; loc.location.cpuset = o2[0]->cpuset; hwloc_memattr_set_value(A, HWLOC_MEMATTR_ID_BANDWIDTH, hwloc_get_obj_by_type(A, HWLOC_OBJ_NUMANODE, 0), &loc, 0, 100); c.desc(" +distances +memattr value");
  }
  hwloc_topology_t B; CHECK(c, hwloc_topology_dup(&B, A) == 0, "setup", "dup failed");
  hwloc_topology_diff_t df = (hwloc_topology_diff_t)0x1; int r = hwloc_topology_diff_build(A, B, 0, &df);
  CHECK(c, r == 0 && df == NULL, "build_identical", "build(A, dup(A)) = %d with diff %p", r, (void *)df);
  errno = 0; CHECK(c, hwloc_topology_diff_build(A, B, 1UL << d.range(0, 5), &df) == -1 && errno == EINVAL, "build_flags", "non-zero flags accepted");
  int nrep = 0, nnon = 0; std::set<uint64_t> repobjs, nonrep_objs; std::string why;
  for (size_t e = 0; e < c.ops.size(); e++) {
    Draw &o = c.ops[e]; int k = o.range(0, 11); hwloc_obj_t x = sel_obj(o, B);
    if (k <= 2) { if (x->name) { std::string nn = std::string(x->name) + "+"; free(x->name); x->name = strdup(nn.c_str()); nrep++; repobjs.insert(x->gp_index); c.descf("\n | rename %s#%u", hwloc_obj_type_string(x->type), x->logical_index); } }
    else if (k <= 4) { if (x->infos.count) { unsigned i = o.raw() % x->infos.count; std::string nv = std::string(x->infos.array[i].value) + "'"; free(x->infos.array[i].value); x->infos.array[i].value = strdup(nv.c_str()); nrep++; repobjs.insert(x->gp_index); c.descf("\n | info value of %s#%u", hwloc_obj_type_string(x->type), x->logical_index); } }
    else if (k == 5) { hwloc_obj_t n = sel_type(o, B, HWLOC_OBJ_NUMANODE); uint64_t dl = (uint64_t)o.range(1, 1000) * 4096; bool sub = o.chance(1, 2) && n->attr->numanode.local_memory >= dl;
      if (sub) { n->attr->numanode.local_memory -= dl; for (hwloc_obj_t p = n; p; p = p->parent) p->total_memory -= dl; } else { n->attr->numanode.local_memory += dl; for (hwloc_obj_t p = n; p; p = p->parent) p->total_memory += dl; } nrep++; repobjs.insert(n->gp_index); c.descf("\n | local_memory of node#%u %s%llu", n->logical_index, sub ? "-" : "+", (unsigned long long)dl); }
    else if (k == 6) { struct hwloc_infos_s *ti = hwloc_topology_get_infos(B); for (unsigned i = 0; i < ti->count; i++) if (!strcmp(ti->array[i].name, "tk")) { std::string nv = std::string(ti->array[i].value) + "!"; free(ti->array[i].value); ti->array[i].value = strdup(nv.c_str()); nrep++; repobjs.insert(0); c.desc("\n | topology info value"); } }
    else if (k <= 8) { int w = o.range(0, 5); if ((w == 0 || w == 3 || w == 4) && !nonrep_objs.insert(x->gp_index).second) continue;   /* one such edit per object: two of them can cancel each other (name set then unset, pair added then removed) */
      if (w == 0) { hwloc_obj_add_info(x, "extra", "1"); nnon++; why += "add-info "; }
      else if (w == 1) { if (hwloc_topology_insert_misc_object(B, x, "miscB")) { nnon++; why += "insert-misc "; } }   // fails under the default Misc filter (pitfall 9.20)
      else if (w == 2) { hwloc_obj_set_subtype(B, x, "st"); nnon++; why += "subtype "; }
      else if (w == 3) { if (x->infos.count) { std::string nm0 = x->infos.array[0].name; hwloc_modify_infos(&x->infos, HWLOC_MODIFY_INFOS_OP_REMOVE, nm0.c_str(), NULL); nnon++; why += "remove-info "; } }
      else if (w == 4) { if (x->name) { free(x->name); x->name = NULL; } else x->name = strdup("fresh"); nnon++; why += "name-set-vs-unset "; }
      else { hwloc_modify_infos(hwloc_topology_get_infos(B), HWLOC_MODIFY_INFOS_OP_ADD, "tk2", "x"); nnon++; why += "add-topology-info "; } }
    else if (k == 9) { hwloc_bitmap_t s = hwloc_bitmap_dup(hwloc_topology_get_topology_cpuset(B)); hwloc_bitmap_clr(s, hwloc_bitmap_last(s)); if (!hwloc_bitmap_iszero(s) && hwloc_topology_restrict(B, s, 0) == 0) { nnon++; why += "restrict "; } hwloc_bitmap_free(s); }
    else { int w = o.range(0, 5);
      if (w == 0) { hwloc_obj_t o2[2] = {hwloc_get_obj_by_type(B, HWLOC_OBJ_PU, 0), hwloc_get_obj_by_type(B, HWLOC_OBJ_PU, 1)}; hwloc_uint64_t v[4] = {1, 2, 3, 4}; hwloc_distances_add_handle_t h = hwloc_distances_add_create(B, "x", HWLOC_DISTANCES_KIND_FROM_USER | HWLOC_DISTANCES_KIND_VALUE_LATENCY, 0); hwloc_distances_add_values(B, h, 2, o2, v, 0); if (hwloc_distances_add_commit(B, h, 0) == 0) { nnon++; why += "add-distances "; } }
      else if (w == 1) { hwloc_bitmap_t s = hwloc_bitmap_alloc(); hwloc_bitmap_set(s, hwloc_get_obj_by_type(B, HWLOC_OBJ_PU, 0)->os_index); if (hwloc_cpukinds_register(B, s, 3, NULL, 0) == 0) { nnon++; why += "cpukind "; } hwloc_bitmap_free(s); }
      else if (w == 2) { hwloc_memattr_id_t id; if (hwloc_memattr_register(B, "mine", HWLOC_MEMATTR_FLAG_HIGHER_FIRST, &id) == 0) { nnon++; why += "memattr-register "; } }
      else if (w == 3 && extras) {   // additional initiator of an existing memattr target
        struct hwloc_location loc; loc.type = HWLOC_LOCATION_TYPE_CPUSET; loc.location.cpuset = hwloc_get_obj_by_type(B, HWLOC_OBJ_PU, 1)->cpuset;
        hwloc_uint64_t old; bool had = hwloc_memattr_get_value(B, HWLOC_MEMATTR_ID_BANDWIDTH, hwloc_get_obj_by_type(B, HWLOC_OBJ_NUMANODE, 0), &loc, 0, &old) == 0;
        if (hwloc_memattr_set_value(B, HWLOC_MEMATTR_ID_BANDWIDTH, hwloc_get_obj_by_type(B, HWLOC_OBJ_NUMANODE, 0), &loc, 0, 55) == 0 && (!had || old != 55)) { nnon++; why += "memattr-extra-initiator "; } }
      else if (w == 4 && extras) {   // same matrix under another name
        unsigned nr = 1; struct hwloc_distances_s *ds = NULL; hwloc_distances_get_by_name(B, "dA", &nr, &ds, 0);
        if (nr >= 1 && ds) { hwloc_obj_t o2[2] = {ds->objs[0], ds->objs[1]}; hwloc_uint64_t v[4] = {ds->values[0], ds->values[1], ds->values[2], ds->values[3]}; unsigned long kind = ds->kind; hwloc_distances_release_remove(B, ds);
          hwloc_distances_add_handle_t h = hwloc_distances_add_create(B, "dB", kind, 0); hwloc_distances_add_values(B, h, 2, o2, v, 0); hwloc_distances_add_commit(B, h, 0); nnon++; why += "distances-renamed "; } }
      else if (w == 5 && extras) {   // same matrix (name, kind, objects) with one value changed at a generated position, first row or not
        unsigned nr = 1; struct hwloc_distances_s *ds = NULL; hwloc_distances_get_by_name(B, "dA", &nr, &ds, 0);
        if (nr >= 1 && ds) { hwloc_obj_t o2[2] = {ds->objs[0], ds->objs[1]}; hwloc_uint64_t v[4] = {ds->values[0], ds->values[1], ds->values[2], ds->values[3]}; unsigned long kind = ds->kind; unsigned pos = o.range(0, 3); v[pos] += 1 + o.range(0, 5); hwloc_distances_release_remove(B, ds);
          hwloc_distances_add_handle_t h = hwloc_distances_add_create(B, "dA", kind, 0); hwloc_distances_add_values(B, h, 2, o2, v, 0); hwloc_distances_add_commit(B, h, 0); nnon++; why += strf("distances-value[%u] ", pos); } } }
  }
  if (nnon) c.desc("\n | non-representable: " + why);
  r = hwloc_topology_diff_build(A, B, 0, &df);
  std::string dA = ddump(A), dB = ddump(B);
  if (nnon) {
    c.cls("non-representable");
    CHECK(c, r == 1, "too_complex", "B differs from A in something a diff cannot express (%s) but build returned %d", why.c_str(), r);
    int tc = 0; for (hwloc_topology_diff_t x = df; x; x = x->generic.next) if (x->generic.type == HWLOC_TOPOLOGY_DIFF_TOO_COMPLEX) tc++;
    CHECK(c, tc >= 1, "too_complex", "build returned 1 without a TOO_COMPLEX entry");
    char *xb = NULL; int xl = 0; errno = 0; CHECK(c, hwloc_topology_diff_export_xmlbuffer(df, "ref", &xb, &xl) == -1 && errno == EINVAL, "too_complex_export", "export of a too-complex diff was accepted");
    hwloc_topology_diff_destroy(df); hwloc_topology_destroy(B); { std::string last = export_xml(A, 0); CHECK(c, last.size() > 50, "export_after_diffs", "XML export of the remaining topology failed after a refused diff export"); } hwloc_topology_destroy(A); return;
  }
  CHECK(c, r == 0, "build_representable", "only representable edits (%d) but build returned %d", nrep, r);
  CHECK(c, (dA != dB) == (df != NULL), "build_null_iff_equal", "diff is %s but the topologies %s", df ? "non-NULL" : "NULL", dA != dB ? "differ" : "are equal");
  if (!df) { hwloc_topology_destroy(A); hwloc_topology_destroy(B); return; }
  // XML round trip of the diff, refname with escapable characters; the loaded list replaces the built one
  { char *xb = NULL; int xl = 0; CHECK(c, hwloc_topology_diff_export_xmlbuffer(df, "r<e&f\"g", &xb, &xl) == 0, "diff_xml", "diff export failed");
    hwloc_topology_diff_t d2 = NULL; char *ref = NULL; bool viafile = d.chance(1, 3);
    if (viafile) {   // the file variants: same bytes as the buffer export, same list when loaded
      std::string path = std::string(h_workdir()) + strf("/c16.%d.xml", (int)getpid()); CHECK(c, hwloc_topology_diff_export_xml(df, "r<e&f\"g", path.c_str()) == 0, "diff_xml", "diff file export failed errno %d", errno);
      std::string fb; { FILE *f = fopen(path.c_str(), "rb"); char b[65536]; size_t n; while (f && (n = fread(b, 1, sizeof b, f)) > 0) fb.append(b, n); if (f) fclose(f); } CHECK(c, fb == std::string(xb, strlen(xb)), "diff_xml", "the diff file export differs from the buffer export (%zu vs %zu bytes)", fb.size(), strlen(xb));
      int lr = hwloc_topology_diff_load_xml(path.c_str(), &d2, &ref); unlink(path.c_str()); CHECK(c, lr == 0, "diff_xml", "diff file load failed"); c.cls("diff-xml:file"); }
    else CHECK(c, hwloc_topology_diff_load_xmlbuffer(xb, xl, &d2, &ref) == 0, "diff_xml", "diff load failed");
    CHECK(c, ref && !strcmp(ref, "r<e&f\"g"), "diff_xml", "refname %s after the round trip", ref ? ref : "(null)");
    hwloc_topology_diff_t x = df, y = d2; int n = 0;
    for (; x && y; x = x->generic.next, y = y->generic.next, n++) {
      CHECK(c, x->generic.type == y->generic.type && x->obj_attr.obj_depth == y->obj_attr.obj_depth && x->obj_attr.obj_index == y->obj_attr.obj_index && x->obj_attr.diff.generic.type == y->obj_attr.diff.generic.type, "diff_xml", "entry %d header differs after the round trip", n);
      if (x->obj_attr.diff.generic.type == HWLOC_TOPOLOGY_DIFF_OBJ_ATTR_SIZE) CHECK(c, x->obj_attr.diff.uint64.oldvalue == y->obj_attr.diff.uint64.oldvalue && x->obj_attr.diff.uint64.newvalue == y->obj_attr.diff.uint64.newvalue, "diff_xml", "entry %d values differ", n);
      else CHECK(c, streq(x->obj_attr.diff.string.name, y->obj_attr.diff.string.name) && streq(x->obj_attr.diff.string.oldvalue, y->obj_attr.diff.string.oldvalue) && streq(x->obj_attr.diff.string.newvalue, y->obj_attr.diff.string.newvalue), "diff_xml", "entry %d strings differ", n);
    }
    CHECK(c, !x && !y, "diff_xml", "list length differs after the round trip"); free(ref); hwloc_free_xmlbuffer(A, xb); hwloc_topology_diff_destroy(df); df = d2; }
  hwloc_topology_t P; hwloc_topology_dup(&P, A); std::string fullA = dump_topology(P);
  r = hwloc_topology_diff_apply(P, df, 0); CHECK(c, r == 0, "apply", "apply returned %d", r);
  CHECK(c, ddump(P) == dB, "apply_equals_B", "the patched topology differs from B: %s", first_diff(ddump(P), dB).c_str());
  hwloc_topology_diff_t d3 = (hwloc_topology_diff_t)0x1; r = hwloc_topology_diff_build(P, B, 0, &d3); CHECK(c, r == 0 && d3 == NULL, "apply_then_build_empty", "build(patched, B) = %d with diff %p", r, (void *)d3);
  require_wf(c, P, "patched topology");
  r = hwloc_topology_diff_apply(P, df, HWLOC_TOPOLOGY_DIFF_APPLY_REVERSE); CHECK(c, r == 0, "reverse", "reverse apply returned %d", r);
  CHECK(c, first_diff(fullA, dump_topology(P)).empty(), "reverse_restores_A", "APPLY_REVERSE did not restore A: %s", first_diff(fullA, dump_topology(P)).c_str());
  // rollback: make the N-th entry inapplicable
  int len = 0; for (hwloc_topology_diff_t x = df; x; x = x->generic.next) len++; int N = d.range(1, len); hwloc_topology_diff_t x = df; for (int i = 1; i < N; i++) x = x->generic.next;
  int how = d.range(0, 2); if (how == 1 && x->obj_attr.obj_depth == hwloc_topology_get_depth(P)) how = 0;   // topology-level info entries have no object index
  int sdepth = x->obj_attr.obj_depth; unsigned sidx = x->obj_attr.obj_index; int stype = x->obj_attr.diff.generic.type;
  if (how == 0) x->obj_attr.obj_depth = 77; else if (how == 1) x->obj_attr.obj_index = 100000; else x->obj_attr.diff.generic.type = (hwloc_topology_diff_obj_attr_type_t)57;
  r = hwloc_topology_diff_apply(P, df, 0); CHECK(c, r == -N, "apply_failure_index", "entry %d of %d cannot be applied but apply returned %d", N, len, r);
  CHECK(c, first_diff(fullA, dump_topology(P)).empty(), "rollback", "rollback inexact (N=%d of %d): %s", N, len, first_diff(fullA, dump_topology(P)).c_str());
  x->obj_attr.obj_depth = sdepth; x->obj_attr.obj_index = sidx; x->obj_attr.diff.generic.type = (hwloc_topology_diff_obj_attr_type_t)stype;
  // an entry whose old value does not match the topology must fail too (and roll back)
  if (x->obj_attr.diff.generic.type == HWLOC_TOPOLOGY_DIFF_OBJ_ATTR_SIZE) { x->obj_attr.diff.uint64.oldvalue += 1; r = hwloc_topology_diff_apply(P, df, 0); CHECK(c, r == -N, "apply_failure_index", "wrong old value in entry %d: apply returned %d", N, r); CHECK(c, first_diff(fullA, dump_topology(P)).empty(), "rollback", "rollback inexact after a wrong old value"); x->obj_attr.diff.uint64.oldvalue -= 1; }
  // an entry that is already applied (the topology holds its NEW value) must fail like any other mismatch, and the rollback must not touch it:
  // (a) Q = A + entry N alone, then the whole diff: fails at N, Q unchanged; (b) the whole diff applied twice: the second apply fails at entry 1
  { hwloc_topology_t Q; hwloc_topology_dup(&Q, A); hwloc_topology_diff_t nx = x->generic.next; x->generic.next = NULL; r = hwloc_topology_diff_apply(Q, x, 0); x->generic.next = nx; CHECK(c, r == 0, "apply", "entry %d alone does not apply to A: %d", N, r);
    std::string pre = dump_topology(Q); r = hwloc_topology_diff_apply(Q, df, 0); CHECK(c, r == -N, "apply_failure_index", "entry %d is already applied, the whole diff returned %d instead of %d", N, r, -N);
    CHECK(c, first_diff(pre, dump_topology(Q)).empty(), "rollback", "rollback inexact when entry %d of %d was already applied: %s", N, len, first_diff(pre, dump_topology(Q)).c_str());
    hwloc_topology_destroy(Q);
    hwloc_topology_dup(&Q, A); r = hwloc_topology_diff_apply(Q, df, 0); CHECK(c, r == 0, "apply", "apply returned %d", r); pre = dump_topology(Q); r = hwloc_topology_diff_apply(Q, df, 0); CHECK(c, r == -1, "apply_failure_index", "applying the diff a second time returned %d instead of -1", r);
    CHECK(c, first_diff(pre, dump_topology(Q)).empty(), "rollback", "a second (failing) apply of the same diff changed the topology: %s", first_diff(pre, dump_topology(Q)).c_str());
    hwloc_topology_destroy(Q); c.cls("rollback:already-applied-entry"); }
  // the same rollback contract for APPLY_REVERSE: Q holds B's values (A + the whole diff), entry N is made inapplicable, the reverse apply returns -N and Q is as before;
  // then the reverse apply on A itself (which holds every OLD value) fails at entry 1 and changes nothing
  { hwloc_topology_t Q; hwloc_topology_dup(&Q, A); r = hwloc_topology_diff_apply(Q, df, 0); CHECK(c, r == 0, "apply", "apply returned %d", r); std::string pre = dump_topology(Q);
    int how2 = d.range(0, 2); if (how2 == 1 && x->obj_attr.obj_depth == hwloc_topology_get_depth(Q)) how2 = 0;
    if (how2 == 0) x->obj_attr.obj_depth = 77; else if (how2 == 1) x->obj_attr.obj_index = 100000; else x->obj_attr.diff.generic.type = (hwloc_topology_diff_obj_attr_type_t)57;
    r = hwloc_topology_diff_apply(Q, df, HWLOC_TOPOLOGY_DIFF_APPLY_REVERSE); CHECK(c, r == -N, "apply_failure_index", "reverse apply: entry %d of %d cannot be applied but apply returned %d", N, len, r);
    CHECK(c, first_diff(pre, dump_topology(Q)).empty(), "rollback", "rollback of a failed reverse apply inexact (N=%d of %d): %s", N, len, first_diff(pre, dump_topology(Q)).c_str());
    x->obj_attr.obj_depth = sdepth; x->obj_attr.obj_index = sidx; x->obj_attr.diff.generic.type = (hwloc_topology_diff_obj_attr_type_t)stype;
    r = hwloc_topology_diff_apply(Q, df, HWLOC_TOPOLOGY_DIFF_APPLY_REVERSE); CHECK(c, r == 0, "reverse", "reverse apply returned %d", r);
    CHECK(c, first_diff(fullA, dump_topology(Q)).empty(), "reverse_restores_A", "APPLY_REVERSE after a failed reverse apply did not restore A: %s", first_diff(fullA, dump_topology(Q)).c_str());
    r = hwloc_topology_diff_apply(Q, df, HWLOC_TOPOLOGY_DIFF_APPLY_REVERSE); CHECK(c, r == -1, "apply_failure_index", "reverse apply on a topology that holds the old values returned %d instead of -1", r);
    CHECK(c, first_diff(fullA, dump_topology(Q)).empty(), "rollback", "a failing reverse apply changed the topology: %s", first_diff(fullA, dump_topology(Q)).c_str());
    hwloc_topology_destroy(Q); c.cls("rollback:reverse"); }
  c.descf("\n -> %d entries, rollback at N=%d (how=%d)", len, N, how);
  if (repobjs.size() >= 2 || N >= 2) c.nontrivial();
  hwloc_topology_diff_destroy(df); hwloc_topology_destroy(P); hwloc_topology_destroy(B);
  // process-wide state (component registry, XML backends) is shared by topologies and diff import/export: the last topology still exports
  { std::string last = export_xml(A, 0); CHECK(c, last.size() > 50, "export_after_diffs", "XML export of the remaining topology failed after the diff calls"); } hwloc_topology_destroy(A);
}

bool h_named(const std::string &name, Case &c) {
  hwloc_topology_t A; hwloc_topology_init(&A); hwloc_topology_set_synthetic(A, "numa:2 core:2 pu:1"); hwloc_topology_load(A);
  hwloc_obj_t o2[2] = {hwloc_get_obj_by_type(A, HWLOC_OBJ_PU, 0), hwloc_get_obj_by_type(A, HWLOC_OBJ_PU, 1)}; hwloc_uint64_t v[4] = {1, 2, 3, 4};
  hwloc_distances_add_handle_t h = hwloc_distances_add_create(A, "x", HWLOC_DISTANCES_KIND_FROM_USER | HWLOC_DISTANCES_KIND_VALUE_LATENCY, 0); hwloc_distances_add_values(A, h, 2, o2, v, 0); hwloc_distances_add_commit(A, h, 0);
  struct hwloc_location loc; loc.type = HWLOC_LOCATION_TYPE_CPUSET; loc.location.cpuset = o2[0]->cpuset; hwloc_memattr_set_value(A, HWLOC_MEMATTR_ID_BANDWIDTH, hwloc_get_obj_by_type(A, HWLOC_OBJ_NUMANODE, 0), &loc, 0, 100);
  hwloc_topology_t B; hwloc_topology_dup(&B, A); hwloc_topology_diff_t df = NULL; int r;
  if (name == "F-C16-a") {
    c.desc("B = dup(A) with a name set on an object that has none; build, and apply if build claims it is representable");
    hwloc_get_obj_by_type(B, HWLOC_OBJ_CORE, 0)->name = strdup("fresh"); r = hwloc_topology_diff_build(A, B, 0, &df);
    if (r == 0) { hwloc_topology_t P; hwloc_topology_dup(&P, A); int ra = hwloc_topology_diff_apply(P, df, 0); CHECK(c, ra == 0 && ddump(P) == ddump(B), "apply_equals_B", "apply returned %d / patched != B", ra); hwloc_topology_destroy(P); }
    else CHECK(c, r == 1, "too_complex", "build returned %d", r);
  } else if (name == "F-C16-c") {
    c.desc("B = dup(A) + a Bandwidth value for a second initiator of the same target");
    loc.location.cpuset = hwloc_get_obj_by_type(B, HWLOC_OBJ_PU, 1)->cpuset; hwloc_memattr_set_value(B, HWLOC_MEMATTR_ID_BANDWIDTH, hwloc_get_obj_by_type(B, HWLOC_OBJ_NUMANODE, 0), &loc, 0, 55);
    r = hwloc_topology_diff_build(A, B, 0, &df); CHECK(c, r == 1, "too_complex", "build(A,B) returned %d although B has an additional memattr initiator", r);
    hwloc_topology_diff_t d2 = NULL; r = hwloc_topology_diff_build(B, A, 0, &d2); CHECK(c, r == 1, "too_complex", "build(B,A) returned %d", r); hwloc_topology_diff_destroy(d2);
  } else if (name == "F-C16-d") {
    c.desc("B = dup(A) with the distances matrix \"x\" re-added as \"y\"");
    hwloc_distances_remove(B); hwloc_obj_t p2[2] = {hwloc_get_obj_by_type(B, HWLOC_OBJ_PU, 0), hwloc_get_obj_by_type(B, HWLOC_OBJ_PU, 1)};
    h = hwloc_distances_add_create(B, "y", HWLOC_DISTANCES_KIND_FROM_USER | HWLOC_DISTANCES_KIND_VALUE_LATENCY, 0); hwloc_distances_add_values(B, h, 2, p2, v, 0); hwloc_distances_add_commit(B, h, 0);
    r = hwloc_topology_diff_build(A, B, 0, &df); CHECK(c, r == 1, "too_complex", "build returned %d although the distances names differ", r);
  } else if (name == "F-C16-b") {   // open: duplicate info names on one object
    c.desc("object with two identical info pairs k=1; B changes the second one; apply(build(A,B)) must give B");
    hwloc_obj_t a = hwloc_get_obj_by_type(A, HWLOC_OBJ_CORE, 0); hwloc_obj_add_info(a, "k", "1"); hwloc_obj_add_info(a, "k", "1"); hwloc_topology_destroy(B); hwloc_topology_dup(&B, A);
    hwloc_obj_t b = hwloc_get_obj_by_type(B, HWLOC_OBJ_CORE, 0); free(b->infos.array[1].value); b->infos.array[1].value = strdup("3");
    r = hwloc_topology_diff_build(A, B, 0, &df); if (r == 0 && df) { hwloc_topology_t P; hwloc_topology_dup(&P, A); int ra = hwloc_topology_diff_apply(P, df, 0); CHECK(c, ra == 0 && ddump(P) == ddump(B), "apply_equals_B", "apply returned %d; the patched topology differs from B: %s", ra, first_diff(ddump(P), ddump(B)).c_str()); hwloc_topology_destroy(P); }
  } else { hwloc_topology_destroy(A); hwloc_topology_destroy(B); return false; }
  hwloc_topology_diff_destroy(df); hwloc_topology_destroy(A); hwloc_topology_destroy(B); return true;
}
