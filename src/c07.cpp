// C07 — synthetic descriptions: safe parsing, faithful build, export/import round trip (DESIGN.md section 4, C07).
// Domain A: strings produced from a generated abstract description (the abstract value is the oracle).
// Domain B: mutated A-strings and arbitrary strings (safety; shared with the libFuzzer target fz_synthetic).
// Domain C: export with every flag word of topologies loaded from A, reload, re-export.
#include "topogen.hpp"
#include <set>
#include "synth.hpp"
#include <algorithm>
#include <functional>

void h_configure(HConfig &cfg) {
  cfg.property = "C07"; cfg.name = "c07_synthetic";
  cfg.rule = "case = abstract description (typed levels with arities, attached NUMA lists, sizes, index specifications; level counts biased to 1..8 and 120..130) rendered to a string + faithful-build oracle + export round trip for all 16 flag words + 2 mutated/arbitrary strings; non-trivial = at least 3 levels and at least one of {attached NUMA, index specification, size attribute, >= 100 levels}; distinct by hash of the description";
  cfg.head_len = 600; cfg.op_len = 1; cfg.max_ops = 1; cfg.leak_check = true; cfg.hang_is_violation = true;
}

struct AAtt { uint64_t memory = 0; std::string memtxt; };
struct ALevel { std::string name; hwloc_obj_type_t type; unsigned arity; uint64_t size = 0; std::string sizetxt; std::vector<AAtt> att; std::string idx; bool idx_first = false; std::string extra; /* a further attribute written after indexes= */ std::vector<unsigned> perm; std::vector<int> intlv; /* depths (indexes into levels) listed outermost first */ };
struct ADesc { std::vector<AAtt> rootatt; std::vector<ALevel> lv; bool numa_level = false; bool has_attached = false; };

static const struct { const char *txt; uint64_t v; } MEMS[] = {{"1GB", 1000000000ULL}, {"256MB", 256000000ULL}, {"3GiB", 3ULL << 30}, {"1048576", 1048576ULL}, {"2TB", 2000000000000ULL}, {"64kB", 64000ULL}, {"5MiB", 5ULL << 20}};
static const struct { const char *txt; uint64_t v; } SIZES[] = {{"32kB", 32000ULL}, {"1MB", 1000000ULL}, {"12582912", 12582912ULL}, {"256KiB", 256ULL << 10}, {"8MiB", 8ULL << 20}};

static std::string render(const ADesc &a) {
  std::string s;
  auto att = [&](const std::vector<AAtt> &v) { for (auto &x : v) s += x.memory ? "[numa(memory=" + x.memtxt + ")] " : "[numa] "; };
  att(a.rootatt);
  for (size_t i = 0; i < a.lv.size(); i++) { const ALevel &l = a.lv[i]; s += l.name + ":" + std::to_string(l.arity);
    std::string attrs, sz; if (l.size) sz = (l.type == HWLOC_OBJ_NUMANODE ? "memory=" : "size=") + l.sizetxt;   // attributes are space-separated, in any order
    if (l.idx_first) { if (!l.idx.empty()) attrs += "indexes=" + l.idx; if (!sz.empty()) { if (!attrs.empty()) attrs += " "; attrs += sz; } }
    else { attrs = sz; if (!l.idx.empty()) { if (!attrs.empty()) attrs += " "; attrs += "indexes=" + l.idx; } }
    if (!l.extra.empty()) { if (!attrs.empty()) attrs += " "; attrs += l.extra; }
    if (!attrs.empty()) s += "(" + attrs + ")"; s += " "; att(l.att); }
  while (!s.empty() && s.back() == ' ') s.pop_back(); return s;
}

static ADesc gen_desc(Draw &d) {
  ADesc a; unsigned long pus = 1; bool deep = d.chance(1, 10);
  a.numa_level = !deep && d.chance(1, 4); a.has_attached = !a.numa_level && d.chance(2, 3);
  auto gen_att = [&](std::vector<AAtt> &v) { if (!a.has_attached || !d.chance(1, 3)) return; int k = d.range(1, 3); for (int i = 0; i < k; i++) { AAtt x; if (d.chance(1, 2)) { auto &m = d.pick(MEMS); x.memory = m.v; x.memtxt = m.txt; } v.push_back(x); } };
  auto arity = [&](unsigned maxa) { unsigned x = d.range(1, maxa); if (pus * x > 96) x = 1; pus *= x; return x; };
  gen_att(a.rootatt);
  auto push = [&](const char *nm, hwloc_obj_type_t ty, unsigned maxa) { ALevel l; l.name = nm; l.type = ty; l.arity = arity(maxa);
    if ((hwloc_obj_type_is_cache(ty) || ty == HWLOC_OBJ_NUMANODE) && d.chance(1, 3)) { if (ty == HWLOC_OBJ_NUMANODE) { auto &m = d.pick(MEMS); l.size = m.v; l.sizetxt = m.txt; } else { auto &m = d.pick(SIZES); l.size = m.v; l.sizetxt = m.txt; } }
    a.lv.push_back(l); if (ty != HWLOC_OBJ_PU && ty != HWLOC_OBJ_NUMANODE) gen_att(a.lv.back().att); };
  if (deep) { int n = d.range(100, 124); for (int i = 0; i < n; i++) { ALevel l; l.name = "Group"; l.type = HWLOC_OBJ_GROUP; l.arity = (i % 40 == 7) ? arity(2) : 1; a.lv.push_back(l); } }   // up to the 128-level limit
  else { static const struct { const char *n; hwloc_obj_type_t t; } upper[] = {{"Group", HWLOC_OBJ_GROUP}, {"Package", HWLOC_OBJ_PACKAGE}, {"Die", HWLOC_OBJ_DIE}, {"Group", HWLOC_OBJ_GROUP}};
    auto numa = [&]() { if (a.numa_level && d.chance(1, 3)) { push("NUMANode", HWLOC_OBJ_NUMANODE, 3); a.numa_level = false; a.lv.back().att.clear(); return true; } return false; }; bool placed = false;
    for (int i = 0; i < 4; i++) { placed |= numa(); if (d.chance(1, 3)) push(upper[i].n, upper[i].t, 4); }
    placed |= numa();
    static const struct { const char *n; hwloc_obj_type_t t; } caches[] = {{"L3Cache", HWLOC_OBJ_L3CACHE}, {"L2Cache", HWLOC_OBJ_L2CACHE}, {"L1dCache", HWLOC_OBJ_L1CACHE}, {"L1iCache", HWLOC_OBJ_L1ICACHE}};
    for (int i = 0; i < 4; i++) if (d.chance(1, 3)) push(caches[i].n, caches[i].t, 2);
    if (a.numa_level && !placed) { push("NUMANode", HWLOC_OBJ_NUMANODE, 3); a.lv.back().att.clear(); placed = true; } a.numa_level = placed;
    if (d.chance(1, 2)) push("Core", HWLOC_OBJ_CORE, 4); }
  push("PU", HWLOC_OBJ_PU, 4); a.lv.back().att.clear();
  // index specification on the PU level
  ALevel &pu = a.lv.back(); int mode = d.range(0, 5);
  if (mode == 1 && pus <= 96) { std::vector<unsigned> p(pus); for (unsigned i = 0; i < pus; i++) p[i] = i; for (unsigned i = pus; i > 1; i--) std::swap(p[i - 1], p[d.raw() % i]); if (d.chance(1, 4)) for (auto &x : p) x = x * 3 + 5;   // sparse OS indexes are legal too
    pu.perm = p; for (unsigned i = 0; i < pus; i++) pu.idx += (i ? "," : "") + std::to_string(p[i]); }
  else if (mode == 2) {  // interleaving by type, listed outermost first, among the typed non-Group, non-NUMA levels above PU
    std::vector<int> cand; for (size_t i = 0; i + 1 < a.lv.size(); i++) if (a.lv[i].type != HWLOC_OBJ_GROUP && a.lv[i].type != HWLOC_OBJ_NUMANODE) cand.push_back((int)i);   // (the parser works on the description levels, before any merge)
    std::vector<int> sel; for (int x : cand) if (d.chance(1, 2)) sel.push_back(x);
    // the types may be listed in any order (the first listed varies fastest), not only outermost first (seeded change C07)
    if (sel.size() >= 2 && d.chance(1, 2)) { for (size_t i = sel.size(); i > 1; i--) std::swap(sel[i - 1], sel[d.raw() % i]); }
    // the same interleaving written as step*number loops (the documented numeric form) instead of type names, possibly followed by another attribute
    if (!sel.empty() && d.chance(1, 2)) { std::vector<unsigned long> cum(a.lv.size()); unsigned long p2 = 1; for (size_t k = 0; k < a.lv.size(); k++) { p2 *= a.lv[k].arity; cum[k] = p2; } unsigned long total = p2;
      std::vector<int> byd = sel; std::sort(byd.begin(), byd.end());
      for (size_t k = 0; k < sel.size(); k++) { int lvl = sel[k]; unsigned long outerw = 1; for (int o2 : byd) if (o2 < lvl) outerw = cum[o2]; pu.idx += (k ? ":" : "") + std::to_string(total / cum[lvl]) + "*" + std::to_string(cum[lvl] / outerw); }
      pu.intlv = sel; if (d.chance(1, 2)) pu.extra = "memory=0"; }
    else if (!sel.empty()) { for (size_t k = 0; k < sel.size(); k++) pu.idx += (k ? ":" : "") + a.lv[sel[k]].name; pu.intlv = sel; /* (listing the PU level itself is not accepted by the parser - the specification is then ignored - and not documented) */ } }
  // an explicit index list on one other level that carries OS indexes (Package, Die, Core, NUMA level), when the PU level has none:
  // the objects of that level are then numbered by the list in creation order, which is their logical order
  if (pu.idx.empty() && !deep && d.chance(1, 3)) { std::vector<size_t> cand; unsigned long w = 1; std::vector<unsigned long> cumw; for (size_t i = 0; i + 1 < a.lv.size(); i++) { w *= a.lv[i].arity; cumw.push_back(w); if ((a.lv[i].type == HWLOC_OBJ_PACKAGE || a.lv[i].type == HWLOC_OBJ_DIE || a.lv[i].type == HWLOC_OBJ_CORE || a.lv[i].type == HWLOC_OBJ_NUMANODE) && w <= 96) cand.push_back(i); }
    if (!cand.empty()) { size_t k = cand[d.raw() % cand.size()]; ALevel &l = a.lv[k]; unsigned long n = cumw[k]; std::vector<unsigned> q(n); for (unsigned i = 0; i < n; i++) q[i] = i; for (unsigned long i = n; i > 1; i--) std::swap(q[i - 1], q[d.raw() % i]); int sp = d.range(0, 3); if (sp == 1) for (auto &x : q) x = x * 2 + 3; else if (sp == 2) for (auto &x : q) x += 1;   // lists that do not start at 0, sparse lists
      l.perm = q; for (unsigned long i = 0; i < n; i++) l.idx += (i ? "," : "") + std::to_string(q[i]); l.idx_first = d.chance(1, 2); } }
  return a;
}

static Case *g_c; static void fail_cb(const char *rule, const char *msg) { g_c->fail(rule, "%s", msg); }

static std::string mutate_str(Draw &d, std::string s) {
  static const char al[] = "0123456789:()[]=, *-abcdefgklmnopstuxGMKTiB\xe0";
  static const char *tok[] = {"[numa]", "[numa(memory=1GB)]", "(indexes=", "indexes=0,0", "(size=", "memory=", "numa:2", "pu:", "core:", "l2:", "Group:", "die\xe0:1", "(indexes=2*2:2*1)", "(indexes=core:pu)", ")", "(", "[", "]", "0", "4294967296", "machine:1", "misc:1", "Tile:2", "l9:1", "memorysidecachesize=1GB", "  ", "\n"};
  int n = d.range(1, 3);
  for (int i = 0; i < n; i++) { int w = d.range(0, 4); size_t pos = s.empty() ? 0 : d.range(0, (int)s.size());
    if (w == 0 && !s.empty()) s.erase(pos < s.size() ? pos : s.size() - 1, 1); else if (w == 1) s.insert(pos, 1, al[d.range(0, sizeof al - 2)]); else if (w == 2 && !s.empty()) s[pos < s.size() ? pos : s.size() - 1] = al[d.range(0, sizeof al - 2)]; else if (w == 3) s = s.substr(0, pos); else s.insert(pos, d.pick(tok)); }
  return s;
}

void h_run(Case &c) {
  g_c = &c; Draw &d = c.head;
  ADesc a = gen_desc(d); std::string s = render(a); c.desc("description=\"" + s + "\"");
  // ---- oracle A: faithful build ----
  hwloc_topology_t t; hwloc_topology_init(&t);
  // keep every type so that all written levels are observable (Groups stay KEEP_STRUCTURE: they may be merged, see below)
  for (int ty = 0; ty < HWLOC_OBJ_TYPE_MAX; ty++) if (ty != HWLOC_OBJ_GROUP) hwloc_topology_set_type_filter(t, (hwloc_obj_type_t)ty, HWLOC_TYPE_FILTER_KEEP_ALL);
  c.attempt("set_synthetic + load of " + s.substr(0, 300));
  int r = hwloc_topology_set_synthetic(t, s.c_str()); CHECK(c, r == 0, "accept", "a description produced from the grammar was rejected (errno %d)", errno);
  CHECK(c, hwloc_topology_load(t) == 0, "load", "load of an accepted description failed"); require_wf(c, t, "synthetic topology");
  unsigned long prod = 1; unsigned long numa_expected = a.rootatt.size(); bool any_numa = !a.rootatt.empty();
  std::vector<std::pair<uint64_t, unsigned long>> numa_mem;   // (memory, count) multiset of expected NUMA local_memory values
  for (auto &x : a.rootatt) numa_mem.push_back({x.memory ? x.memory : 1ULL << 30, 1});
  for (auto &l : a.lv) { prod *= l.arity;
    if (l.type == HWLOC_OBJ_NUMANODE) { numa_expected += prod; any_numa = true; numa_mem.push_back({l.size ? l.size : 1ULL << 30, prod}); }
    else if (l.type == HWLOC_OBJ_DIE && l.arity == 1) { c.cls("die-arity-1(merged into Package by design)"); }   // "always merge Die into Package when levels are identical"
    else if (l.type != HWLOC_OBJ_GROUP) { int n = hwloc_get_nbobjs_by_type(t, l.type); CHECK(c, n == (int)prod, "level_width", "%d %s objects, the description gives %lu", n, l.name.c_str(), prod);
      if (hwloc_obj_type_is_cache(l.type)) { unsigned depth = l.type >= HWLOC_OBJ_L1ICACHE ? l.type - HWLOC_OBJ_L1ICACHE + 1 : l.type - HWLOC_OBJ_L1CACHE + 1; uint64_t exp = l.size ? l.size : depth == 1 ? 32 * 1024 : (256ULL * 1024) << (2 * depth);
        for (hwloc_obj_t o = NULL; (o = hwloc_get_next_obj_by_type(t, l.type, o));) CHECK(c, o->attr->cache.size == exp, "cache_size", "%s size %llu, expected %llu (%s)", l.name.c_str(), (unsigned long long)o->attr->cache.size, (unsigned long long)exp, l.size ? "written" : "documented default"); } }
    for (auto &x : l.att) { numa_expected += prod; any_numa = true; numa_mem.push_back({x.memory ? x.memory : 1ULL << 30, prod}); } }
  if (!any_numa) { numa_expected = 1; numa_mem.push_back({1ULL << 30, 1}); }   // "A NUMA level (with a single NUMA node) is automatically added if needed"
  CHECK(c, hwloc_get_nbobjs_by_type(t, HWLOC_OBJ_NUMANODE) == (int)numa_expected, "numa_count", "%d NUMA nodes, the description gives %lu", hwloc_get_nbobjs_by_type(t, HWLOC_OBJ_NUMANODE), numa_expected);
  { std::map<uint64_t, long> got, exp; for (hwloc_obj_t n = NULL; (n = hwloc_get_next_obj_by_type(t, HWLOC_OBJ_NUMANODE, n));) got[n->attr->numanode.local_memory]++; for (auto &p : numa_mem) exp[p.first] += p.second;
    CHECK(c, got == exp, "numa_memory", "NUMA local_memory values differ from the description (first got %llu x%ld, expected %llu x%ld)", (unsigned long long)got.begin()->first, got.begin()->second, (unsigned long long)exp.begin()->first, exp.begin()->second); }
  // the same description under filters that drop some of the written levels (the defaults drop instruction caches; a generated assignment drops
  // one or two more): whatever is attached to a dropped level stays - NUMA nodes, their sizes and indexes, the PUs
  for (int variant = 0; variant < 2; variant++) { hwloc_topology_t f; hwloc_topology_init(&f); std::string dropped;
    if (variant == 1) { for (auto &l : a.lv) if (l.type != HWLOC_OBJ_PU && l.type != HWLOC_OBJ_NUMANODE && l.type != HWLOC_OBJ_GROUP && d.chance(1, 3)) { hwloc_topology_set_type_filter(f, l.type, HWLOC_TYPE_FILTER_KEEP_NONE); dropped += " " + l.name; } else if (l.type != HWLOC_OBJ_GROUP) hwloc_topology_set_type_filter(f, l.type, HWLOC_TYPE_FILTER_KEEP_ALL); if (dropped.empty()) { hwloc_topology_destroy(f); continue; } }
    c.attempt(std::string("load under ") + (variant ? "filters dropping" + dropped : "the default filters"));
    CHECK(c, hwloc_topology_set_synthetic(f, s.c_str()) == 0 && hwloc_topology_load(f) == 0, "load_filtered", "the description does not load under %s", variant ? ("filters dropping" + dropped).c_str() : "the default filters"); require_wf(c, f, "filtered synthetic topology");
    CHECK(c, hwloc_get_nbobjs_by_type(f, HWLOC_OBJ_NUMANODE) == (int)numa_expected, "filtered_numa", "%d NUMA nodes under %s, the description gives %lu", hwloc_get_nbobjs_by_type(f, HWLOC_OBJ_NUMANODE), variant ? ("filters dropping" + dropped).c_str() : "the default filters", numa_expected);
    std::multiset<std::pair<unsigned, uint64_t>> n1, n2; for (hwloc_obj_t n = NULL; (n = hwloc_get_next_obj_by_type(t, HWLOC_OBJ_NUMANODE, n));) n1.insert({n->os_index, n->attr->numanode.local_memory}); for (hwloc_obj_t n = NULL; (n = hwloc_get_next_obj_by_type(f, HWLOC_OBJ_NUMANODE, n));) n2.insert({n->os_index, n->attr->numanode.local_memory});
    CHECK(c, n1 == n2, "filtered_numa", "NUMA indexes or sizes change under %s", variant ? ("filters dropping" + dropped).c_str() : "the default filters");
    CHECK(c, hwloc_get_nbobjs_by_type(f, HWLOC_OBJ_PU) == hwloc_get_nbobjs_by_type(t, HWLOC_OBJ_PU) && hwloc_get_root_obj(f)->total_memory == hwloc_get_root_obj(t)->total_memory, "filtered_numa", "PU count or total memory change under %s", variant ? ("filters dropping" + dropped).c_str() : "the default filters");
    hwloc_topology_destroy(f); c.cls(variant ? "filtered:generated" : "filtered:defaults"); }
  // arities: every object of a typed level contains arity-product objects of the next typed non-Group level
  { const ALevel *prev = nullptr; unsigned long between = 1;
    for (auto &l : a.lv) { between *= l.arity; if (l.type == HWLOC_OBJ_GROUP || l.type == HWLOC_OBJ_NUMANODE || (l.type == HWLOC_OBJ_DIE && l.arity == 1)) continue;
      if (prev) for (hwloc_obj_t o = NULL; (o = hwloc_get_next_obj_by_type(t, prev->type, o));) { int n = hwloc_get_nbobjs_inside_cpuset_by_type(t, o->cpuset, l.type); CHECK(c, n == (int)between, "arity", "a %s contains %d %s, the description gives %lu", prev->name.c_str(), n, l.name.c_str(), between); }
      prev = &l; between = 1; } }
  // NUMA OS indexes: all NUMA nodes of a description (one level, or all attached items together, or the implicit node) share one index
  // space, 0..n-1 in creation order unless that level carries an explicit list; the root nodeset is that set
  { USet got, exp; for (hwloc_obj_t n = NULL; (n = hwloc_get_next_obj_by_type(t, HWLOC_OBJ_NUMANODE, n));) { CHECK(c, !got.count(n->os_index), "numa_indexes", "two NUMA nodes have os_index %u", n->os_index); got.insert(n->os_index); }
    const ALevel *nl = nullptr; for (auto &l : a.lv) if (l.type == HWLOC_OBJ_NUMANODE) nl = &l;
    if (nl && !nl->perm.empty()) exp.insert(nl->perm.begin(), nl->perm.end()); else for (unsigned long i = 0; i < numa_expected; i++) exp.insert((unsigned)i);
    CHECK(c, got == exp, "numa_indexes", "NUMA os_index set {%s}, the description gives {%s}", ustr(got).c_str(), ustr(exp).c_str());
    USet rn; to_uset(hwloc_topology_get_topology_nodeset(t), rn); CHECK(c, rn == exp, "numa_indexes", "topology nodeset {%s}, the description gives {%s}", ustr(rn).c_str(), ustr(exp).c_str()); }
  // explicit index list on a non-PU level: L#i of that type has the i-th listed index
  { unsigned long w = 1; for (size_t k = 0; k + 1 < a.lv.size(); k++) { const ALevel &l = a.lv[k]; w *= l.arity; if (l.perm.empty()) continue; c.cls("indexes:list-on-upper-level");
      if (hwloc_get_nbobjs_by_type(t, l.type) != (int)w) continue;   // (a Die level identical to its Package level is merged)
      for (unsigned long i = 0; i < w; i++) { hwloc_obj_t o = hwloc_get_obj_by_type(t, l.type, (unsigned)i); CHECK(c, o->os_index == l.perm[i], "indexes_list_upper", "%s L#%lu has os_index %u, the list (%s) gives %u", l.name.c_str(), i, o->os_index, l.idx.substr(0, 80).c_str(), l.perm[i]); } } }
  // attached NUMA nodes: every object of a level with attached items has, among the NUMA nodes whose locality is exactly its cpuset, the
  // items of all the levels that share this cpuset (a child level of arity 1 has the same cpuset; which of these objects holds the
  // memory children is not part of the statement)
  { size_t i = 0; std::vector<unsigned long> cum(a.lv.size()); unsigned long p2 = 1; for (size_t k = 0; k < a.lv.size(); k++) { p2 *= a.lv[k].arity; cum[k] = p2; }
    while (i < a.lv.size()) { size_t j = i; while (j + 1 < a.lv.size() && a.lv[j + 1].arity == 1) j++;   // levels i..j share their cpusets
      size_t natt = 0; for (size_t k = i; k <= j; k++) natt += a.lv[k].att.size() + (a.lv[k].type == HWLOC_OBJ_NUMANODE ? 1 : 0);
      if (i == 0 && a.lv[0].arity == 1) natt += a.rootatt.size() ? a.rootatt.size() : (any_numa ? 0 : 1);   // the root shares the cpuset too
      const ALevel *probe = nullptr; for (size_t k = i; k <= j; k++) if (a.lv[k].type != HWLOC_OBJ_GROUP && a.lv[k].type != HWLOC_OBJ_NUMANODE && !(a.lv[k].type == HWLOC_OBJ_DIE && a.lv[k].arity == 1)) probe = &a.lv[k];
      if (probe) for (hwloc_obj_t o = NULL; (o = hwloc_get_next_obj_by_type(t, probe->type, o));) { size_t n = 0; for (hwloc_obj_t nn = NULL; (nn = hwloc_get_next_obj_by_type(t, HWLOC_OBJ_NUMANODE, nn));) if (hwloc_bitmap_isequal(nn->cpuset, o->cpuset)) n++;
          CHECK(c, n == natt, "attached", "%zu NUMA nodes have the locality of a %s, the description attaches %zu there", n, probe->name.c_str(), natt); }
      i = j + 1; } }
  // PU os_index ordering.  The index specification numbers the PUs in creation (depth-first) order; siblings are then ordered by their
  // cpusets as everywhere in hwloc, so the expected logical sequence is the creation-order assignment re-sorted recursively by lowest index.
  const ALevel &pu = a.lv.back(); unsigned long total = prod;
  { std::vector<unsigned long> cum(a.lv.size()); unsigned long p2 = 1; for (size_t k = 0; k < a.lv.size(); k++) { p2 *= a.lv[k].arity; cum[k] = p2; }
    std::vector<unsigned long> val(total);
    for (unsigned long j = 0; j < total; j++) {
      if (!pu.perm.empty()) val[j] = pu.perm[j];
      else if (!pu.intlv.empty()) {   // listed levels vary fastest first; each digit = rank of the ancestor at that level within its enclosing listed level
        std::vector<int> byd = pu.intlv; std::sort(byd.begin(), byd.end()); unsigned long os = 0, mul = 1;
        for (int lvl : pu.intlv) { unsigned long outerw = 1; for (int o2 : byd) if (o2 < lvl) outerw = cum[o2]; unsigned long nb = cum[lvl] / outerw; unsigned long anc = j / (total / cum[lvl]); os += (anc % nb) * mul; mul *= nb; }
        unsigned long deepw = cum[byd.back()]; os += (j % (total / deepw)) * mul; val[j] = os; }
      else val[j] = j; }
    // recursive sort by lowest value
    std::function<std::vector<unsigned long>(size_t, unsigned long, unsigned long)> build = [&](size_t lvl, unsigned long first, unsigned long count) -> std::vector<unsigned long> {
      if (lvl == a.lv.size()) return std::vector<unsigned long>(1, val[first]);
      std::vector<std::vector<unsigned long>> kids; unsigned long per = count / a.lv[lvl].arity; for (unsigned k = 0; k < a.lv[lvl].arity; k++) kids.push_back(build(lvl + 1, first + k * per, per));
      std::sort(kids.begin(), kids.end(), [](const std::vector<unsigned long> &x, const std::vector<unsigned long> &y) { return *std::min_element(x.begin(), x.end()) < *std::min_element(y.begin(), y.end()); });
      std::vector<unsigned long> r; for (auto &k : kids) r.insert(r.end(), k.begin(), k.end()); return r; };
    std::vector<unsigned long> exp = build(0, 0, total);
    for (unsigned i = 0; i < total; i++) CHECK(c, hwloc_get_obj_by_type(t, HWLOC_OBJ_PU, i)->os_index == exp[i], pu.perm.empty() ? (pu.intlv.empty() ? "indexes_default" : "indexes_interleave") : "indexes_list", "PU L#%u has os_index %u, the description (%s) gives %lu", i, hwloc_get_obj_by_type(t, HWLOC_OBJ_PU, i)->os_index, pu.idx.empty() ? "no index specification" : pu.idx.substr(0, 80).c_str(), exp[i]);
    if (!pu.perm.empty()) c.cls("indexes:list"); else if (!pu.intlv.empty()) c.cls("indexes:by-type"); }
  bool nt = a.lv.size() >= 3 && (a.has_attached || !pu.idx.empty() || a.lv.size() >= 100); for (auto &l : a.lv) if (l.size) nt = a.lv.size() >= 3;
  if (a.lv.size() >= 100) c.cls("levels:>=100"); if (a.has_attached) c.cls("attached-numa"); if (a.numa_level) c.cls("numa-level");
  // ---- oracle C: export with every flag word ----
  std::string e0; for (unsigned long fl = 0; fl < 16; fl++) {
    char big[16384]; int n = hwloc_topology_export_synthetic(t, big, sizeof big, fl);
    if (fl == 0) { CHECK(c, n >= 0, "export", "export of a symmetric synthetic topology failed (errno %d)", errno); e0 = big; }
    if (n < 0) { c.cls("export:failed-for-some-flags"); continue; }
    CHECK(c, (size_t)n < sizeof big && strlen(big) == (size_t)n, "export_len", "export returned %d but wrote %zu characters", n, strlen(big));
    std::string full = big; std::vector<int> lens = {1, 2, 5, n > 2 ? n - 1 : 1, n, n + 1}; if (n <= 160) { lens.clear(); for (int z = 1; z <= n + 1; z++) lens.push_back(z); } else for (int z = 0; z < 12; z++) lens.push_back(1 + (int)(d.raw() % (unsigned)(n + 1)));   // every length for short descriptions, a sample for long ones
    { int n0 = hwloc_topology_export_synthetic(t, NULL, 0, fl); CHECK(c, n0 == n, "export_len", "flags 0x%lx: (NULL, 0) returned %d, the text needs %d", fl, n0, n); }
    for (int sz : lens) { std::vector<char> buf(sz + 16, (char)0xA5); int n2 = hwloc_topology_export_synthetic(t, buf.data() + 8, sz, fl); for (int g = 0; g < 8; g++) CHECK(c, buf[g] == (char)0xA5 && buf[8 + sz + g] == (char)0xA5, "export_bounds", "flags 0x%lx buflen %d: wrote outside the buffer", fl, sz);
      size_t l = strnlen(buf.data() + 8, sz); CHECK(c, l < (size_t)sz, "export_nul", "flags 0x%lx buflen %d: not NUL-terminated", fl, sz); CHECK(c, full.compare(0, l, buf.data() + 8, l) == 0, "export_prefix", "flags 0x%lx buflen %d: truncated text is not a prefix", fl, sz);
      CHECK(c, n2 == n, "export_len", "flags 0x%lx buflen %d: returned %d, the untruncated text needs %d", fl, sz, n2, n); }
    bool caches = false; for (auto &l : a.lv) if (hwloc_obj_type_is_cache(l.type)) caches = true;
    if ((fl & HWLOC_TOPOLOGY_EXPORT_SYNTHETIC_FLAG_NO_EXTENDED_TYPES) && caches) { c.cls("export:no-extended-types-with-caches(not reloadable by design)"); continue; }   // pitfall 9.3
    hwloc_topology_t q; hwloc_topology_init(&q); for (int ty = 0; ty < HWLOC_OBJ_TYPE_MAX; ty++) if (ty != HWLOC_OBJ_GROUP) hwloc_topology_set_type_filter(q, (hwloc_obj_type_t)ty, HWLOC_TYPE_FILTER_KEEP_ALL);
    CHECK(c, hwloc_topology_set_synthetic(q, big) == 0, "export_reload", "flags 0x%lx: the exported string \"%s\" is rejected", fl, full.substr(0, 300).c_str()); CHECK(c, hwloc_topology_load(q) == 0, "export_reload", "flags 0x%lx: the exported string does not load", fl); require_wf(c, q, "reloaded export");
    // same normal-level structure (widths; types modulo Die->Group under V1/NO_EXTENDED_TYPES and memory-related Groups)
    bool memless = fl & (HWLOC_TOPOLOGY_EXPORT_SYNTHETIC_FLAG_V1 | HWLOC_TOPOLOGY_EXPORT_SYNTHETIC_FLAG_IGNORE_MEMORY);
    CHECK(c, hwloc_get_nbobjs_by_type(q, HWLOC_OBJ_PU) == hwloc_get_nbobjs_by_type(t, HWLOC_OBJ_PU), "export_structure", "flags 0x%lx: PU count differs after reload", fl);
    for (auto &l : a.lv) if (l.type != HWLOC_OBJ_GROUP && l.type != HWLOC_OBJ_NUMANODE && !(l.type == HWLOC_OBJ_DIE && (fl & (HWLOC_TOPOLOGY_EXPORT_SYNTHETIC_FLAG_V1 | HWLOC_TOPOLOGY_EXPORT_SYNTHETIC_FLAG_NO_EXTENDED_TYPES)))) CHECK(c, hwloc_get_nbobjs_by_type(q, l.type) == hwloc_get_nbobjs_by_type(t, l.type), "export_structure", "flags 0x%lx: %s count differs after reload", fl, l.name.c_str());
    if (!memless) { CHECK(c, hwloc_get_nbobjs_by_type(q, HWLOC_OBJ_NUMANODE) == hwloc_get_nbobjs_by_type(t, HWLOC_OBJ_NUMANODE), "export_memory", "flags 0x%lx: NUMA count differs after reload", fl);
      // memory attachment as a multiset of localities (plus index and size per locality when attributes are exported); the order of the NUMA
      // level follows the OS indexes, which NO_ATTRS does not export
      bool attrs = !(fl & HWLOC_TOPOLOGY_EXPORT_SYNTHETIC_FLAG_NO_ATTRS); std::vector<std::string> m1, m2;
      for (hwloc_obj_t n1 = NULL; (n1 = hwloc_get_next_obj_by_type(t, HWLOC_OBJ_NUMANODE, n1));) m1.push_back(bstr(n1->cpuset) + (attrs ? strf(" os=%u mem=%llu", n1->os_index, (unsigned long long)n1->attr->numanode.local_memory) : ""));
      for (hwloc_obj_t n2 = NULL; (n2 = hwloc_get_next_obj_by_type(q, HWLOC_OBJ_NUMANODE, n2));) m2.push_back(bstr(n2->cpuset) + (attrs ? strf(" os=%u mem=%llu", n2->os_index, (unsigned long long)n2->attr->numanode.local_memory) : ""));
      if (!attrs) { /* PU indexes are not exported either: compare locality sizes */ m1.clear(); m2.clear(); for (hwloc_obj_t n1 = NULL; (n1 = hwloc_get_next_obj_by_type(t, HWLOC_OBJ_NUMANODE, n1));) m1.push_back(std::to_string(hwloc_bitmap_weight(n1->cpuset))); for (hwloc_obj_t n2 = NULL; (n2 = hwloc_get_next_obj_by_type(q, HWLOC_OBJ_NUMANODE, n2));) m2.push_back(std::to_string(hwloc_bitmap_weight(n2->cpuset))); }
      std::sort(m1.begin(), m1.end()); std::sort(m2.begin(), m2.end()); CHECK(c, m1 == m2, "export_memory", "flags 0x%lx: NUMA localities%s differ after reload", fl, attrs ? "/indexes/sizes" : ""); }
    if (!(fl & HWLOC_TOPOLOGY_EXPORT_SYNTHETIC_FLAG_NO_ATTRS)) for (unsigned i = 0; i < total; i++) CHECK(c, hwloc_get_obj_by_type(q, HWLOC_OBJ_PU, i)->os_index == hwloc_get_obj_by_type(t, HWLOC_OBJ_PU, i)->os_index, "export_attrs", "flags 0x%lx: os_index of PU L#%u differs after reload", fl, i);
    bool die_sub = false; for (auto &l : a.lv) if (l.type == HWLOC_OBJ_DIE && (fl & (HWLOC_TOPOLOGY_EXPORT_SYNTHETIC_FLAG_V1 | HWLOC_TOPOLOGY_EXPORT_SYNTHETIC_FLAG_NO_EXTENDED_TYPES))) die_sub = true;
    // (a Die exported as Group under V1/NO_EXTENDED_TYPES may be merged away as a redundant Group on reload: documented substitution, no fixpoint there)
    char again[16384]; int n3 = hwloc_topology_export_synthetic(q, again, sizeof again, fl); if (die_sub) c.cls("export:die-as-group"); else if (memless && (a.numa_level || std::any_of(a.lv.begin(), a.lv.end(), [](const ALevel &l) { return l.type == HWLOC_OBJ_GROUP; }))) c.cls("export:numa-level-groups-without-memory(redundant Groups merge on reload)"); else CHECK(c, n3 >= 0 && full == again, "export_fixpoint", "flags 0x%lx: re-export of the reloaded topology gives \"%s\" instead of \"%s\"", fl, n3 >= 0 ? std::string(again).substr(0, 200).c_str() : "(failure)", full.substr(0, 200).c_str());
    hwloc_topology_destroy(q);
  }
  hwloc_topology_destroy(t);
  // ---- oracle B on mutated and arbitrary strings ----
  for (int k = 0; k < 2; k++) { std::string m; int how = d.range(0, 3); if (how <= 1) m = mutate_str(d, s.size() > 200 ? s.substr(s.size() - 200) : s); else if (how == 2) m = mutate_str(d, gen_synthetic(d)); else { int n = d.range(0, 30); for (int i = 0; i < n; i++) m += (char)d.range(1, 255); }
    bool x; c.attempt("set_synthetic + load of mutated " + qstr(m.substr(0, 300).c_str())); int rr = check_synthetic_string(m, fail_cb, x); c.cls(rr == 1 ? "mutated:accepted" : rr == 0 ? "mutated:rejected" : rr == 2 ? "mutated:accepted-load-failed" : "mutated:skipped-costly"); c.descf("\n mutated %s -> %d", qstr(m.substr(0, 160).c_str()).c_str(), rr); }
  if (nt) c.nontrivial();
}

bool h_named(const std::string &name, Case &c) {
  g_c = &c; bool nt; std::string s;
  if (name == "F-C07-a") { c.desc("126 typed levels without NUMA level: \"Group:1 \" x 125 + \"PU:1\""); for (int i = 0; i < 125; i++) s += "Group:1 "; s += "PU:1"; check_synthetic_string(s, fail_cb, nt); for (int n = 120; n <= 130; n++) { s.clear(); for (int i = 0; i < n; i++) s += "Group:1 "; s += "PU:2"; check_synthetic_string(s, fail_cb, nt); } return true; }
  if (name == "F-C07-b") { c.desc("descriptions rejected by the post-parse sanity checks after attached NUMA items and index lists (LSan)"); const char *v[] = {"pack:2 [numa] [numa] pack:2 pu:2", "pack:2 [numa] numa:2 pu:2", "pack:2 [numa(memory=1GB)] core:2 core:2 pu:1", "[numa] 2 pack:2 pu:2(indexes=0,1,2,3,4,5,6,7)", "pack:2 [numa] core:2", "pack:1 [numa(bogus=1GB)] die:6 core:4 pu:2"}; for (auto x : v) { int r = check_synthetic_string(x, fail_cb, nt); c.descf(" %d", r); } return true; }
  if (name == "F-C07-c") { c.desc("explicit index lists with duplicates: node:2(indexes=3,3) pu:4 and Group:1 [numa] [numa] core:2(indexes=0,0) pu:1"); check_synthetic_string("node:2(indexes=3,3) pu:4", fail_cb, nt); check_synthetic_string("Group:1 [numa] [numa] core:2(indexes=0,0) pu:1", fail_cb, nt); check_synthetic_string("pu:4(indexes=1,2,1,0)", fail_cb, nt); return true; }
  if (name == "F-C11-c") { c.desc("type name followed by byte 0xE0: \"die\\xe0:1 pu:2\""); check_synthetic_string("die\xe0:1 pu:2", fail_cb, nt); check_synthetic_string("core\xe0:2 pu:1", fail_cb, nt); return true; }
  if (name == "doc-example") { c.desc("documented auto-assignment: \"2 3 4 5 6\" == \"Package:2 NUMANode:3 L2Cache:4 Core:5 PU:6\"");
    hwloc_topology_t a, b; hwloc_topology_init(&a); hwloc_topology_init(&b); hwloc_topology_set_synthetic(a, "2 3 4 5 6"); hwloc_topology_set_synthetic(b, "Package:2 NUMANode:3 L2Cache:4 Core:5 PU:6"); CHECK(c, hwloc_topology_load(a) == 0 && hwloc_topology_load(b) == 0, "load", "load failed");
    auto strip = [](std::string x) { size_t p = x.find("topology infos:"); if (p != std::string::npos) x.erase(p, x.find('\n', p) - p); return x; };   // the SyntheticDescription info holds the string itself
    std::string df = first_diff(strip(dump_topology(a, DUMP_EXTRAS)), strip(dump_topology(b, DUMP_EXTRAS))); CHECK(c, df.empty(), "auto_types", "the untyped form builds a different topology: %s", df.c_str()); hwloc_topology_destroy(a); hwloc_topology_destroy(b); return true; }
  return false;
}
