// C05 — XML export followed by import reproduces the topology and is a fixpoint (DESIGN.md section 4, C05).
// One process per (export backend, import backend) pairing: HWLOC_LIBXML_EXPORT / HWLOC_LIBXML_IMPORT are read once per process.
#include "ops.hpp"
#include <unistd.h>

void h_configure(HConfig &cfg) {
  cfg.property = "C05"; cfg.name = "c05_xml";
  cfg.rule = "case = TopoSpec + annotation (names, subtypes, infos, topology infos, Misc, userdata export calls) + history of modifying ops (distances, memattrs, cpukinds, restrict, allow, Groups) + {buffer,file} x IMPORT_SUPPORT; non-trivial = the topology has at least one of {escapable character in a string, userdata, distances, memattr values, cpukinds, complete_*set != *set, dont_merge Group, Misc, I/O}; distinct by hash of the decoded case (per backend pairing)";
  cfg.head_len = 400; cfg.op_len = 200; cfg.max_ops = 6; cfg.leak_check = true;
}

struct UD { std::vector<std::pair<std::string, std::string>> items; std::vector<int> b64; std::vector<bool> hasname; };
static Case *g_c; static bool nolibxml_export, nolibxml_import;
static void exp_cb(void *reserved, hwloc_topology_t t, hwloc_obj_t o) {
  UD *u = (UD *)o->userdata; if (!u) return;
  for (size_t i = 0; i < u->items.size(); i++) { const char *nm = u->hasname[i] ? u->items[i].first.c_str() : NULL;
    int r = u->b64[i] ? hwloc_export_obj_userdata_base64(reserved, t, o, nm, u->items[i].second.data(), u->items[i].second.size()) : hwloc_export_obj_userdata(reserved, t, o, nm, u->items[i].second.data(), u->items[i].second.size());
    if (r) g_c->fail("userdata_export", "hwloc_export_obj_userdata%s failed errno %d (len=%zu)", u->b64[i] ? "_base64" : "", errno, u->items[i].second.size()); }
}
static void imp_cb(hwloc_topology_t, hwloc_obj_t o, const char *name, const void *buf, size_t len) {
  UD *u = (UD *)o->userdata; if (!u) { u = new UD; o->userdata = u; }
  u->items.push_back({name ? name : "", std::string((const char *)buf, len)}); u->hasname.push_back(name != NULL); u->b64.push_back(2);
}
// strings from the characters the exporter keeps (HWLOC_XML_CHAR_VALID), special characters and blanks over-represented
static std::string rstr(Draw &d, int maxlen, bool special, bool nonempty = false) {
  static const char sp[] = "&<>\"' \t=;/\\#%[](){}"; int L = d.range(nonempty ? 1 : 0, maxlen); std::string s;
  for (int i = 0; i < L; i++) { int k = d.range(0, 9); if (k < 2 && special) s += sp[d.range(0, sizeof sp - 2)]; else if (k == 2 && special) s += d.chance(3, 4) ? ' ' : d.chance(1, 2) ? '\n' : '\r'; else s += (char)d.range(33, 126); }
  return s;
}
static bool has_special(const std::string &s) { return s.find_first_of("&<>\"'\t\n\r") != std::string::npos; }
static std::string xml_of(Case &c, hwloc_topology_t t, unsigned long fl, bool viafile) {
  if (!viafile) { char *x = NULL; int l = 0; CHECK(c, hwloc_topology_export_xmlbuffer(t, &x, &l, fl) == 0, "export", "xmlbuffer export failed errno %d", errno); CHECK(c, (int)strlen(x) + 1 == l, "export_length", "export length %d but strlen+1 = %zu", l, strlen(x) + 1); std::string s(x); hwloc_free_xmlbuffer(t, x); return s; }
  std::string path = std::string(h_workdir()) + strf("/c05.%d.xml", (int)getpid()); CHECK(c, hwloc_topology_export_xml(t, path.c_str(), fl) == 0, "export", "xml file export failed errno %d", errno);
  FILE *f = fopen(path.c_str(), "r"); std::string s; char b[65536]; size_t n; while (f && (n = fread(b, 1, sizeof b, f)) > 0) s.append(b, n); if (f) fclose(f); unlink(path.c_str()); return s;
}
static std::string strip_support(const std::string &x) { std::string o; size_t i = 0; while (i < x.size()) { size_t e = x.find('\n', i); if (e == std::string::npos) e = x.size(); std::string line = x.substr(i, e - i); if (line.find("<support ") == std::string::npos) o += line + "\n"; i = e + 1; } return o; }
static std::string byte_diff(const std::string &a, const std::string &b) { size_t p = 0; while (p < a.size() && p < b.size() && a[p] == b[p]) p++; return strf("at byte %zu: [%s] vs [%s]", p, qstr(a.substr(p > 40 ? p - 40 : 0, 100).c_str()).c_str(), qstr(b.substr(p > 40 ? p - 40 : 0, 100).c_str()).c_str()); }

static hwloc_topology_t reload(Case &c, const std::string &X, unsigned long flags, bool viafile, bool with_cb) {
  hwloc_topology_t r; hwloc_topology_init(&r); hwloc_topology_set_flags(r, flags); hwloc_topology_set_all_types_filter(r, HWLOC_TYPE_FILTER_KEEP_ALL); if (with_cb) hwloc_topology_set_userdata_import_callback(r, imp_cb);
  if (viafile) { std::string path = std::string(h_workdir()) + strf("/c05in.%d.xml", (int)getpid()); FILE *f = fopen(path.c_str(), "w"); fwrite(X.data(), 1, X.size(), f); fclose(f);
    CHECK(c, hwloc_topology_set_xml(r, path.c_str()) == 0, "reload", "set_xml failed on hwloc's own export"); int l = hwloc_topology_load(r); unlink(path.c_str()); CHECK(c, l == 0, "reload", "load of hwloc's own export (file) failed"); }
  else { CHECK(c, hwloc_topology_set_xmlbuffer(r, X.c_str(), (int)X.size() + 1) == 0, "reload", "set_xmlbuffer failed on hwloc's own export"); int l = hwloc_topology_load(r);
    if (l && getenv("VERIF_DUMP_XML")) { FILE *f = fopen(getenv("VERIF_DUMP_XML"), "w"); fwrite(X.data(), 1, X.size(), f); fclose(f); }
    CHECK(c, l == 0, "reload", "load of hwloc's own export (buffer) failed"); }
  return r;
}

void h_init_parent() { const char *e = getenv("HWLOC_LIBXML_EXPORT"), *i = getenv("HWLOC_LIBXML_IMPORT"); nolibxml_export = e && !strcmp(e, "0"); nolibxml_import = i && !strcmp(i, "0"); }

static std::string g_src_text;
void h_run(Case &c) {
  g_c = &c; ops_xml_safe = true; Draw &d = c.head;
  c.descf("[export=%s import=%s] ", nolibxml_export ? "nolibxml" : "libxml2", nolibxml_import ? "nolibxml" : "libxml2");
  SpecOpts so; so.misc_keep = d.chance(2, 3); so.syn.max_pus = 48; so.xml_den = 4; so.gx_num = 1; so.gx_den = 6;
  TopoSpec sp = gen_topospec(d, so); sp.flags &= ~(unsigned long)(HWLOC_TOPOLOGY_FLAG_IMPORT_SUPPORT | HWLOC_TOPOLOGY_FLAG_NO_DISTANCES | HWLOC_TOPOLOGY_FLAG_NO_MEMATTRS | HWLOC_TOPOLOGY_FLAG_NO_CPUKINDS);   // NO_* flags make the importer drop what was added after load, by design (pitfall 9.31)
  if (sp.is_xml && d.chance(1, 2)) { sp.filters[HWLOC_OBJ_PCI_DEVICE] = sp.filters[HWLOC_OBJ_OS_DEVICE] = sp.filters[HWLOC_OBJ_BRIDGE] = HWLOC_TYPE_FILTER_KEEP_ALL; }
  // attribute value ranges the corpus does not contain (seeded change C05): PCI domains above 0xffff (32-bit domains exist: 2pa-pcidomain32bits),
  // large PCI bus numbers, by rewriting the corpus document before it becomes "the loaded topology"
  std::string tmpxml; g_src_text.clear();
  if (sp.is_xml && sp.xmlbuf.empty() && sp.filters[HWLOC_OBJ_PCI_DEVICE] == HWLOC_TYPE_FILTER_KEEP_ALL) { FILE *fh = fopen(sp.xmlpath.c_str(), "rb"); if (fh) { char b[65536]; size_t n; while ((n = fread(b, 1, sizeof b, fh)) > 0) g_src_text.append(b, n); fclose(fh); } }
  if (sp.is_xml && sp.xmlbuf.empty() && sp.filters[HWLOC_OBJ_PCI_DEVICE] == HWLOC_TYPE_FILTER_KEEP_ALL && d.chance(1, 2)) {
    std::string x = g_src_text;
    static const char *dom[] = {"10000", "1a2b3", "fffff", "7fffffff", "ffffffff"}; std::string nd = d.pick(dom); size_t hits = 0;
    for (const char *key : {"pci_busid=\"0000:", "bridge_pci=\"0000:"}) { size_t p = 0, kl = strlen(key); while ((p = x.find(key, p)) != std::string::npos) { x.replace(p + kl - 5, 4, nd); p += kl; hits++; } }
    if (hits && x.size() < 4000000) { tmpxml = std::string(h_workdir()) + strf("/c05src.%d.xml", (int)getpid()); FILE *o = fopen(tmpxml.c_str(), "wb"); fwrite(x.data(), 1, x.size(), o); fclose(o); c.descf("(PCI domain rewritten to 0x%s in %zu attributes of %s) ", nd.c_str(), hits, sp.xmlpath.substr(sp.xmlpath.rfind('/') + 1).c_str()); sp.xmlpath = tmpxml; g_src_text = x; c.cls("source:pci-domain-above-16-bits"); }
  }
  c.desc(sp.text());
  hwloc_topology_t t; hwloc_topology_init(&t);
  if (apply_spec_and_load(c, t, sp) < 0) { hwloc_topology_destroy(t); if (!tmpxml.empty()) unlink(tmpxml.c_str()); c.discard(); }
  if (!tmpxml.empty()) unlink(tmpxml.c_str());
  // import fidelity on hwloc's own documents: with all I/O types kept, every PCI device element of the document is in the loaded topology
  if (sp.is_xml && sp.filters[HWLOC_OBJ_PCI_DEVICE] == HWLOC_TYPE_FILTER_KEEP_ALL && !g_src_text.empty()) { size_t n = 0, p = 0; while ((p = g_src_text.find("<object type=\"PCIDev\"", p)) != std::string::npos) { n++; p += 10; }
    CHECK(c, (size_t)hwloc_get_nbobjs_by_type(t, HWLOC_OBJ_PCI_DEVICE) == n, "import_keeps_objects", "the document has %zu PCIDev elements, the topology loaded with all I/O types kept has %d PCI devices", n, hwloc_get_nbobjs_by_type(t, HWLOC_OBJ_PCI_DEVICE)); }
  bool special = false, nt = false;
  // modifying history (distances, memattrs, cpukinds, Groups, restrict, allow, Misc ...)
  OpOpts oo; { const char *e = getenv("VERIF_INCLUDE_KNOWN"); oo.allow_cpuless_nodeset_group = e && strstr(e, "F-C02-d"); }
  for (size_t i = 0; i < c.ops.size(); i++) { OpRes r = apply_op(c, c.ops[i], t, oo); c.desc("\n | " + r.desc); }
  // early exports, before any query refreshes the lazily updated structures: both exporters must bring distances and memory attributes up
  // to date themselves, so the file and the buffer export agree whichever comes first
  { bool filefirst = d.chance(1, 2); std::string Ea = xml_of(c, t, 0, filefirst), Eb = xml_of(c, t, 0, !filefirst); CHECK(c, Ea == Eb, "file_vs_buffer", "right after the modifying calls the %s export differs from the %s export made just after it %s", filefirst ? "file" : "buffer", filefirst ? "buffer" : "file", byte_diff(Ea, Eb).c_str()); c.cls(filefirst ? "early-export:file-first" : "early-export:buffer-first"); }
  // annotations
  auto objs = all_objs(t); size_t nann = 0;
  for (auto o : objs) {
    if (nann > 40) break;
    if (d.chance(1, 4)) { free(o->name); std::string s = rstr(d, 8, true); o->name = strdup(s.c_str()); special |= has_special(s); nann++; }
    if (d.chance(1, 5)) { std::string s = rstr(d, 6, true); hwloc_obj_set_subtype(t, o, s.c_str()); special |= has_special(s); nann++; }
    if (d.chance(1, 6)) { int k = d.range(1, 3); for (int i = 0; i < k; i++) { std::string a = rstr(d, 5, true, true), b = rstr(d, 7, true); hwloc_obj_add_info(o, a.c_str(), b.c_str()); special |= has_special(a) || has_special(b); } nann++; }
  }
  if (d.chance(1, 2)) { std::string a = rstr(d, 4, true, true), b = rstr(d, 6, true); hwloc_modify_infos(hwloc_topology_get_infos(t), HWLOC_MODIFY_INFOS_OP_ADD, a.c_str(), b.c_str()); special |= has_special(a) || has_special(b); }
  // userdata: 0..3 export calls per chosen object, lengths covering every residue mod 3; plain userdata is limited to printable bytes as documented
  bool plain_escapable_ok = !nolibxml_export && !nolibxml_import;   // F-C05-a: the minimal backend does not escape userdata content
  int nud = 0; std::vector<UD *> uds;
  for (auto o : objs) { o->userdata = NULL; if (nud < 12 && d.chance(1, 8)) { UD *u = new UD; uds.push_back(u); int n = d.range(0, 3);
      for (int i = 0; i < n; i++) { bool b64 = d.chance(1, 2); std::string data; int L = d.range(0, 9);
        for (int j = 0; j < L; j++) { if (b64) data += (char)d.range(0, 255); else { char ch = (char)d.range(32, 126); if (d.chance(1, 6)) ch = " \t\n "[d.range(0, 3)];   /* blanks are valid userdata bytes, also first and last */ if ((ch == '<' || ch == '&' || ch == '>') && !plain_escapable_ok) { ch = 'x'; c.excluded("F-C05-a"); } data += ch; } }
        std::string nm = rstr(d, 5, false); bool hn = d.chance(2, 3); u->items.push_back({nm, data}); u->b64.push_back(b64); u->hasname.push_back(hn); }
      o->userdata = u; nud++; } }
  hwloc_topology_set_userdata_export_callback(t, exp_cb);
  // Out of domain: a memattr target with two intersecting cpuset initiators (possible after a restrict of nested initiators, or by adding
  // a nested one): hwloc matches initiators by inclusion, so such values are merged on import (C14 states the disjointness precondition).
  for (hwloc_memattr_id_t id = 0; id < 64; id++) { unsigned long fl = 0; if (hwloc_memattr_get_flags(t, id, &fl) < 0) break; if (!(fl & HWLOC_MEMATTR_FLAG_NEED_INITIATOR)) continue;
    unsigned ntg = 0; hwloc_memattr_get_targets(t, id, NULL, 0, &ntg, NULL, NULL); std::vector<hwloc_obj_t> tg(ntg + 1); unsigned n2 = ntg; if (ntg) hwloc_memattr_get_targets(t, id, NULL, 0, &n2, tg.data(), NULL);
    for (unsigned i = 0; i < ntg; i++) { unsigned ni = 0; hwloc_memattr_get_initiators(t, id, tg[i], 0, &ni, NULL, NULL); std::vector<struct hwloc_location> iv(ni + 1); unsigned ni2 = ni; if (ni) hwloc_memattr_get_initiators(t, id, tg[i], 0, &ni2, iv.data(), NULL);
      for (unsigned a = 0; a < ni; a++) for (unsigned b = a + 1; b < ni; b++) if (iv[a].type == HWLOC_LOCATION_TYPE_CPUSET && iv[b].type == HWLOC_LOCATION_TYPE_CPUSET && hwloc_bitmap_intersects(iv[a].location.cpuset, iv[b].location.cpuset)) { c.cls("discarded:intersecting-memattr-initiators"); for (auto u : uds) delete u; hwloc_topology_destroy(t); c.discard(); } } }
  bool viafile = d.chance(1, 2), impsup = d.chance(1, 2);
  c.descf("\n annotated=%zu userdata-objects=%d via=%s import_support=%d", nann, nud, viafile ? "file" : "buffer", (int)impsup);
  require_wf(c, t, "before export");
  std::string X1 = xml_of(c, t, 0, viafile);
  hwloc_topology_t r = reload(c, X1, sp.flags | (impsup ? HWLOC_TOPOLOGY_FLAG_IMPORT_SUPPORT : 0), viafile, true);
  require_wf(c, r, "reloaded topology");
  // equivalence of everything listed in the statement
  unsigned what = DUMP_GP | DUMP_EXTRAS;
  bool stale_ccs = memchild_ccs_stale(t); if (stale_ccs) { c.excluded("F-C18-a"); c.cls("excluded:F-C18-a(stale complete_cpuset of a memory object)"); }
  std::string df = stale_ccs ? first_diff(mask_mem_ccs(dump_topology(t, what)), mask_mem_ccs(dump_topology(r, what))) : first_diff(dump_topology(t, what), dump_topology(r, what));
  if (!df.empty() && getenv("VERIF_DUMP_DIR")) { std::string dd = getenv("VERIF_DUMP_DIR"); FILE *f = fopen((dd + "/orig.txt").c_str(), "w"); fputs(dump_topology(t, what).c_str(), f); fclose(f); f = fopen((dd + "/reload.txt").c_str(), "w"); fputs(dump_topology(r, what).c_str(), f); fclose(f); f = fopen((dd + "/x1.xml").c_str(), "w"); fputs(X1.c_str(), f); fclose(f); }
  if (!df.empty()) {   // the statement lists the tree, the objects and their attributes, not the assignment of objects to levels: when only that differs
                       // (hwloc edits the level arrays in place when it merges levels at load or restrict time, a reload levels the same tree afresh) the case is counted
    std::string ta = strip_levels(dump_topology(t, what)), tb = strip_levels(dump_topology(r, what)); if (stale_ccs) { ta = mask_mem_ccs(ta); tb = mask_mem_ccs(tb); }
    std::string df2 = first_diff(ta, tb);
    // open finding F-C05-e: the first difference is a mergeable Group with a single child that the reload merged away (level merging is not idempotent on asymmetric trees)
    if (!df2.empty() && df2.find("A:") != std::string::npos) { size_t a = df2.find("A:"), b = df2.find("B:", a); std::string la = df2.substr(a, b == std::string::npos ? std::string::npos : b - a); if (la.find(" Group ") != std::string::npos && la.find("dont_merge=0) arity=1/0/0/0") != std::string::npos) c.fail("reload_group_merged", "a Group with a single child that the load kept is merged by the reload of the topology's own export: %s", df2.c_str()); }
    CHECK(c, df2.empty(), "reload_equal", "the reloaded topology differs from the exported one: %s", df2.c_str()); c.cls("reload:same-tree-levelled-differently"); }
  // userdata delivered exactly as exported
  { auto v1 = all_objs(t), v2 = all_objs(r); CHECK(c, v1.size() == v2.size(), "reload_equal", "object count %zu vs %zu", v1.size(), v2.size());
    for (size_t i = 0; i < v1.size(); i++) { UD *a = (UD *)v1[i]->userdata, *b = (UD *)v2[i]->userdata; size_t na = a ? a->items.size() : 0, nb = b ? b->items.size() : 0;
      CHECK(c, na == nb, "userdata", "import callback called %zu times for %s#%u, export called %zu times", nb, hwloc_obj_type_string(v1[i]->type), v1[i]->logical_index, na);
      for (size_t k = 0; k < na; k++) { CHECK(c, a->hasname[k] == b->hasname[k] && (!a->hasname[k] || a->items[k].first == b->items[k].first), "userdata", "userdata name differs (exported %s, imported %s)", a->hasname[k] ? qstr(a->items[k].first.c_str()).c_str() : "NULL", b->hasname[k] ? qstr(b->items[k].first.c_str()).c_str() : "NULL");
        CHECK(c, a->items[k].second == b->items[k].second, "userdata", "userdata bytes differ (base64=%d, length exported %zu imported %zu)", a->b64[k], a->items[k].second.size(), b->items[k].second.size()); b->b64[k] = a->b64[k]; } } }
  // fixpoint
  hwloc_topology_set_userdata_export_callback(r, exp_cb);
  std::string X2 = xml_of(c, r, 0, false);
  if (viafile) { /* file and buffer exports have the same bytes */ std::string X1b = xml_of(c, t, 0, false); CHECK(c, X1b == X1, "file_vs_buffer", "file export differs from buffer export %s", byte_diff(X1, X1b).c_str()); }
  if (stale_ccs) { /* the first generation holds the stale field, the second the recomputed one: the fixpoint starts one generation later */
    hwloc_topology_t r2 = reload(c, X2, sp.flags | (impsup ? HWLOC_TOPOLOGY_FLAG_IMPORT_SUPPORT : 0), false, true); hwloc_topology_set_userdata_export_callback(r2, exp_cb);
    { auto va = all_objs(r), vb = all_objs(r2); for (size_t i = 0; i < va.size() && i < vb.size(); i++) { UD *a = (UD *)va[i]->userdata, *b = (UD *)vb[i]->userdata; if (a && b) for (size_t k = 0; k < a->items.size() && k < b->items.size(); k++) b->b64[k] = a->b64[k]; } }
    std::string X3 = xml_of(c, r2, 0, false); if (impsup) CHECK(c, X3 == X2, "fixpoint", "third generation export is not byte-identical %s", byte_diff(X2, X3).c_str()); else CHECK(c, strip_support(X3) == strip_support(X2), "fixpoint", "third generation export differs (modulo <support/>) %s", byte_diff(strip_support(X2), strip_support(X3)).c_str());
    for (auto o : all_objs(r2)) delete (UD *)o->userdata; hwloc_topology_destroy(r2); }
  else if (impsup) CHECK(c, X2 == X1, "fixpoint", "re-export of the reloaded topology is not byte-identical %s", byte_diff(X1, X2).c_str());
  else { std::string a = strip_support(X1), b = strip_support(X2); CHECK(c, a == b, "fixpoint", "re-export differs (modulo <support/>) %s", byte_diff(a, b).c_str());
    hwloc_topology_t r2 = reload(c, X2, sp.flags, false, true); hwloc_topology_set_userdata_export_callback(r2, exp_cb);
    { auto va = all_objs(r), vb = all_objs(r2); for (size_t i = 0; i < va.size() && i < vb.size(); i++) { UD *a = (UD *)va[i]->userdata, *b = (UD *)vb[i]->userdata; if (a && b) for (size_t k = 0; k < a->items.size() && k < b->items.size(); k++) b->b64[k] = a->b64[k]; } }   // export with the same encoding choices std::string X3 = xml_of(c, r2, 0, false); CHECK(c, X3 == X2, "fixpoint", "third generation export is not byte-identical %s", byte_diff(X2, X3).c_str());
    for (auto o : all_objs(r2)) delete (UD *)o->userdata; hwloc_topology_destroy(r2); }
  // support bits when requested: the document carries a generated subset of the fields of struct hwloc_topology_support (names written here
  // from the public header, not taken from the exporter); a load with IMPORT_SUPPORT reports exactly those, and they survive a second round trip
  if (d.chance(1, 3)) {
#define SF(cat, f) {#cat "." #f, [](const struct hwloc_topology_support *s) -> unsigned char { return s->cat->f; }}
    static const struct { const char *name; unsigned char (*get)(const struct hwloc_topology_support *); } fields[] = {
      SF(discovery, pu), SF(discovery, numa), SF(discovery, numa_memory), SF(discovery, disallowed_pu), SF(discovery, disallowed_numa), SF(discovery, cpukind_efficiency),
      SF(cpubind, set_thisproc_cpubind), SF(cpubind, get_thisproc_cpubind), SF(cpubind, set_proc_cpubind), SF(cpubind, get_proc_cpubind), SF(cpubind, set_thisthread_cpubind), SF(cpubind, get_thisthread_cpubind), SF(cpubind, set_thread_cpubind), SF(cpubind, get_thread_cpubind), SF(cpubind, get_thisproc_last_cpu_location), SF(cpubind, get_proc_last_cpu_location), SF(cpubind, get_thisthread_last_cpu_location),
      SF(membind, set_thisproc_membind), SF(membind, get_thisproc_membind), SF(membind, set_proc_membind), SF(membind, get_proc_membind), SF(membind, set_thisthread_membind), SF(membind, get_thisthread_membind), SF(membind, alloc_membind), SF(membind, set_area_membind), SF(membind, get_area_membind), SF(membind, get_area_memlocation), SF(membind, firsttouch_membind), SF(membind, bind_membind), SF(membind, interleave_membind), SF(membind, weighted_interleave_membind), SF(membind, nexttouch_membind), SF(membind, migrate_membind)};
#undef SF
    const size_t NF = sizeof fields / sizeof fields[0]; std::vector<int> want(NF, 0); std::string lines; for (size_t i = 0; i < NF; i++) if (d.chance(1, 2)) { want[i] = d.chance(1, 5) ? d.range(2, 9) : 1; lines += want[i] == 1 ? strf("  <support name=\"%s\"/>\n", fields[i].name) : strf("  <support name=\"%s\" value=\"%d\"/>\n", fields[i].name, want[i]); }
    bool marker = d.chance(3, 4); if (marker) lines += "  <support name=\"custom.exported_support\"/>\n";
    std::string S = strip_support(X1); size_t pos = S.rfind("</topology>"); CHECK(c, pos != std::string::npos, "harness_support", "no closing tag"); S.insert(pos, lines);
    auto verify = [&](hwloc_topology_t q, const char *gen) { const struct hwloc_topology_support *sup = hwloc_topology_get_support(q); for (size_t i = 0; i < NF; i++) CHECK(c, fields[i].get(sup) == want[i], "support_bits", "%s: support %s is %u after a load with IMPORT_SUPPORT, the document says %d", gen, fields[i].name, fields[i].get(sup), want[i]); CHECK(c, (sup->misc->imported_support != 0) == marker, "support_bits", "%s: misc.imported_support is %u, marker %s in the document", gen, sup->misc->imported_support, marker ? "present" : "absent"); };
    hwloc_topology_t q = reload(c, S, sp.flags | HWLOC_TOPOLOGY_FLAG_IMPORT_SUPPORT, false, false); verify(q, "first import");
    if (marker) { std::string S2 = xml_of(c, q, 0, false); hwloc_topology_t q2 = reload(c, S2, sp.flags | HWLOC_TOPOLOGY_FLAG_IMPORT_SUPPORT, false, false); verify(q2, "import of the re-export"); hwloc_topology_destroy(q2); }
    hwloc_topology_destroy(q); c.cls("support-bits:generated-subset"); }
  // v2-format export reloads to the same tree and sets
  { std::string V2 = xml_of(c, t, HWLOC_TOPOLOGY_EXPORT_XML_FLAG_V2, false); hwloc_topology_t q = reload(c, V2, sp.flags, false, false); require_wf(c, q, "v2 reload");
    auto v1 = all_objs(t), v2 = all_objs(q); CHECK(c, v1.size() == v2.size(), "v2_reload", "object count %zu vs %zu", v1.size(), v2.size());
    for (size_t i = 0; i < v1.size(); i++) { CHECK(c, v1[i]->type == v2[i]->type && v1[i]->os_index == v2[i]->os_index, "v2_reload", "object %zu differs (%s vs %s)", i, hwloc_obj_type_string(v1[i]->type), hwloc_obj_type_string(v2[i]->type));
      if (v1[i]->cpuset) CHECK(c, v2[i]->cpuset && hwloc_bitmap_isequal(v1[i]->cpuset, v2[i]->cpuset) && hwloc_bitmap_isequal(v1[i]->nodeset, v2[i]->nodeset) && ((stale_ccs && hwloc_obj_type_is_memory(v1[i]->type)) || hwloc_bitmap_isequal(v1[i]->complete_cpuset, v2[i]->complete_cpuset)) && hwloc_bitmap_isequal(v1[i]->complete_nodeset, v2[i]->complete_nodeset), "v2_reload", "sets of %s#%u differ", hwloc_obj_type_string(v1[i]->type), v1[i]->logical_index); }
    hwloc_topology_destroy(q); }
  // classification
  { unsigned nr = 0; hwloc_distances_get(t, &nr, NULL, 0, 0); if (nr) { nt = true; c.cls("has:distances"); } }
  if (hwloc_cpukinds_get_nr(t, 0) > 0) { nt = true; c.cls("has:cpukinds"); }
  if (dump_memattrs(t, DUMP_GP).find(" target ") != std::string::npos) { nt = true; c.cls("has:memattr-values"); }
  if (hwloc_get_nbobjs_by_type(t, HWLOC_OBJ_MISC)) { nt = true; c.cls("has:misc"); } if (hwloc_get_nbobjs_by_type(t, HWLOC_OBJ_PCI_DEVICE)) { nt = true; c.cls("has:io"); }
  if (!hwloc_bitmap_isequal(hwloc_get_root_obj(t)->cpuset, hwloc_get_root_obj(t)->complete_cpuset)) { nt = true; c.cls("has:complete!=set"); }
  if (special) { nt = true; c.cls("has:escapable-chars"); } if (nud) { nt = true; c.cls("has:userdata"); }
  if (nt) c.nontrivial();
  for (auto o : all_objs(r)) delete (UD *)o->userdata; for (auto u : uds) delete u;
  hwloc_topology_destroy(r); hwloc_topology_destroy(t);
}

static hwloc_bitmap_t bm(const char *list) { hwloc_bitmap_t b = hwloc_bitmap_alloc(); hwloc_bitmap_list_sscanf(b, list); return b; }
bool h_named(const std::string &name, Case &c) {
  g_c = &c;
  if (name == "F-C05-d") { c.desc("[numa] pack:3 l2:2 [numa] [numa] pu:2; eight of the L2-level NUMA nodes grouped by nested distances: a Group whose completed sets equal the root's must not survive as an extra level that the XML reload merges away");
    for (unsigned in = 1; in <= 3; in++) for (unsigned out = 2 * in; out <= 3 * in; out += in) for (unsigned first = 1; first <= 5; first += 2) {
      hwloc_topology_t t; hwloc_topology_init(&t); hwloc_topology_set_synthetic(t, "[numa] pack:3 l2:2 [numa] [numa] pu:2"); CHECK(c, hwloc_topology_load(t) == 0, "named_setup", "load failed");
      std::vector<hwloc_obj_t> objs; for (unsigned i = first; i < first + 8; i++) objs.push_back(hwloc_get_obj_by_type(t, HWLOC_OBJ_NUMANODE, i)); CHECK(c, objs.back() != NULL, "named_setup", "not enough NUMA nodes");
      hwloc_uint64_t v[64]; for (unsigned i = 0; i < 8; i++) for (unsigned j = 0; j < 8; j++) v[i * 8 + j] = i == j ? 10 : i / in == j / in ? 20 : i / out == j / out ? 40 : 80;
      hwloc_distances_add_handle_t h = hwloc_distances_add_create(t, "nested", HWLOC_DISTANCES_KIND_FROM_USER | HWLOC_DISTANCES_KIND_VALUE_LATENCY, 0); CHECK(c, h && hwloc_distances_add_values(t, h, 8, objs.data(), v, 0) == 0 && hwloc_distances_add_commit(t, h, HWLOC_DISTANCES_ADD_FLAG_GROUP | HWLOC_DISTANCES_ADD_FLAG_GROUP_INACCURATE) == 0, "named_setup", "add failed");
      require_wf(c, t, "after grouping"); std::string X = xml_of(c, t, 0, false); hwloc_topology_t r = reload(c, X, 0, false, false); require_wf(c, r, "reload");
      std::string df = first_diff(strip_levels(dump_topology(t, DUMP_GP)), strip_levels(dump_topology(r, DUMP_GP))); CHECK(c, df.empty(), "reload_equal", "clusters of %u within %u starting at node L#%u: the reloaded topology differs from the exported one: %s", in, out, first, df.c_str());
      hwloc_topology_destroy(r); hwloc_topology_destroy(t); }
    return true; }
  if (name == "F-C05-e") { c.desc("regress/C05/F-C05-e.xml (asymmetric generated document, default filters): load, export, reload: the reload merges a Group level the load kept");
    std::string path = "/verif/regress/C05/F-C05-e.xml"; hwloc_topology_t t; hwloc_topology_init(&t); CHECK(c, hwloc_topology_set_xml(t, path.c_str()) == 0 && hwloc_topology_load(t) == 0, "named_setup", "cannot load %s", path.c_str()); require_wf(c, t, "load");
    { hwloc_obj_t g = hwloc_topology_alloc_group_object(t); g->cpuset = hwloc_bitmap_dup(hwloc_get_obj_by_type(t, HWLOC_OBJ_NUMANODE, 0)->cpuset); hwloc_bitmap_or(g->cpuset, g->cpuset, hwloc_get_obj_by_type(t, HWLOC_OBJ_PU, 0)->cpuset); g->attr->group.dont_merge = 1; hwloc_obj_t got = hwloc_topology_insert_group_object(t, g); c.descf(" + a dont_merge Group with the cpuset of NUMA node 0 -> %s", got ? (got == g ? "new" : "existing") : "NULL"); require_wf(c, t, "after the group insertion"); }
    std::string X = xml_of(c, t, 0, false); hwloc_topology_t r = reload(c, X, 0, false, false); require_wf(c, r, "reload");
    std::string ta = strip_levels(dump_topology(t, DUMP_GP)), tb = strip_levels(dump_topology(r, DUMP_GP)); std::string df2 = first_diff(ta, tb);
    if (!df2.empty() && df2.find(" Group ") != std::string::npos && df2.find("dont_merge=0) arity=1/0/0/0") != std::string::npos) c.fail("reload_group_merged", "a Group with a single child that the load kept is merged by the reload of the topology's own export: %s", df2.c_str());
    CHECK(c, df2.empty(), "reload_equal", "the reloaded topology differs: %s", df2.c_str()); hwloc_topology_destroy(r); hwloc_topology_destroy(t); return true; }
  if (name == "F-C05-f") { c.desc("regress/C05/F-C05-f.xml (generated document: Machine > Group(dont_merge) > {NUMA, Group(dont_merge) > L2 > ...}): load, export, reload, under the default and the KEEP_ALL Group filter; every load used to drop the outermost dont_merge Group");
    std::string path = "/verif/regress/C05/F-C05-f.xml";
    for (int keepall = 0; keepall < 2; keepall++) { hwloc_topology_t t; hwloc_topology_init(&t); hwloc_topology_set_io_types_filter(t, HWLOC_TYPE_FILTER_KEEP_ALL); if (keepall) hwloc_topology_set_all_types_filter(t, HWLOC_TYPE_FILTER_KEEP_ALL);
      CHECK(c, hwloc_topology_set_xml(t, path.c_str()) == 0 && hwloc_topology_load(t) == 0, "named_setup", "cannot load %s", path.c_str()); require_wf(c, t, "load");
      int ng = 0; for (auto o : all_objs(t)) if (o->type == HWLOC_OBJ_GROUP) ng++; CHECK(c, ng == 2, "dont_merge_kept", "the document has two nested Groups with dont_merge=1, the loaded topology (Group filter %s) has %d", keepall ? "KEEP_ALL" : "KEEP_STRUCTURE", ng);
      std::string X = xml_of(c, t, 0, false); hwloc_topology_t r = reload(c, X, 0, false, false); require_wf(c, r, "reload");
      std::string df2 = first_diff(strip_levels(dump_topology(t, DUMP_GP)), strip_levels(dump_topology(r, DUMP_GP))); CHECK(c, df2.empty(), "reload_equal", "the reloaded topology differs: %s", df2.c_str());
      hwloc_topology_destroy(r); hwloc_topology_destroy(t); }
    return true; }
  if (name == "F-C05-c") {   // stale memattr value exported after a restrict
    c.desc("numa:3 pack:2 core:2 pu:1; custom attribute with one value for initiator PU 0; restrict(all but PU 0); export, reload, re-export");
    hwloc_topology_t t; hwloc_topology_init(&t); hwloc_topology_set_synthetic(t, "numa:3 pack:2 core:2 pu:1"); hwloc_topology_load(t);
    hwloc_memattr_id_t id; hwloc_memattr_register(t, "mine", HWLOC_MEMATTR_FLAG_HIGHER_FIRST | HWLOC_MEMATTR_FLAG_NEED_INITIATOR, &id);
    struct hwloc_location loc; loc.type = HWLOC_LOCATION_TYPE_CPUSET; loc.location.cpuset = hwloc_get_obj_by_type(t, HWLOC_OBJ_PU, 0)->cpuset; hwloc_memattr_set_value(t, id, hwloc_get_obj_by_type(t, HWLOC_OBJ_NUMANODE, 1), &loc, 0, 7);
    hwloc_bitmap_t s = bm("1-11"); hwloc_topology_restrict(t, s, 0); hwloc_bitmap_free(s);
    std::string X1 = xml_of(c, t, 0, false); hwloc_topology_t r = reload(c, X1, HWLOC_TOPOLOGY_FLAG_IMPORT_SUPPORT, false, false); std::string X2 = xml_of(c, r, 0, false);
    CHECK(c, X1 == X2, "fixpoint", "re-export of the reloaded topology is not byte-identical %s", byte_diff(X1, X2).c_str()); hwloc_topology_destroy(r); hwloc_topology_destroy(t); return true;
  }
  if (name == "F-C06-a") {   // v2 export of an unnamed latency matrix could not be reloaded (strcmp(NULL))
    c.desc("pack:2 core:2 pu:1 with an unnamed latency matrix; v2 export; reload");
    hwloc_topology_t t; hwloc_topology_init(&t); hwloc_topology_set_synthetic(t, "pack:2 core:2 pu:1"); hwloc_topology_load(t);
    hwloc_obj_t o2[2] = {hwloc_get_obj_by_type(t, HWLOC_OBJ_PU, 0), hwloc_get_obj_by_type(t, HWLOC_OBJ_PU, 1)}; hwloc_uint64_t v[4] = {1, 2, 3, 4};
    hwloc_distances_add_handle_t h = hwloc_distances_add_create(t, NULL, HWLOC_DISTANCES_KIND_FROM_USER | HWLOC_DISTANCES_KIND_VALUE_LATENCY, 0); hwloc_distances_add_values(t, h, 2, o2, v, 0); hwloc_distances_add_commit(t, h, 0);
    std::string V2 = xml_of(c, t, HWLOC_TOPOLOGY_EXPORT_XML_FLAG_V2, false); hwloc_topology_t q = reload(c, V2, 0, false, false); require_wf(c, q, "v2 reload"); hwloc_topology_destroy(q); hwloc_topology_destroy(t); return true;
  }
  if (name == "F-C01-e") {   // special levels not rebuilt after a KEEP_STRUCTURE merge moved I/O children: logical indexes change after a reload
    c.desc("cxlmem+dax.v3.xml, all types KEEP_NONE except Package KEEP_STRUCTURE and I/O KEEP_ALL; export, reload, compare");
    hwloc_topology_t t; hwloc_topology_init(&t); hwloc_topology_set_all_types_filter(t, HWLOC_TYPE_FILTER_KEEP_NONE); hwloc_topology_set_type_filter(t, HWLOC_OBJ_PACKAGE, HWLOC_TYPE_FILTER_KEEP_STRUCTURE);
    hwloc_topology_set_type_filter(t, HWLOC_OBJ_BRIDGE, HWLOC_TYPE_FILTER_KEEP_ALL); hwloc_topology_set_type_filter(t, HWLOC_OBJ_PCI_DEVICE, HWLOC_TYPE_FILTER_KEEP_ALL); hwloc_topology_set_type_filter(t, HWLOC_OBJ_OS_DEVICE, HWLOC_TYPE_FILTER_KEEP_ALL);
    hwloc_topology_set_xml(t, (std::string(verif_repo()) + "/tests/hwloc/xml/cxlmem+dax.v3.xml").c_str()); CHECK(c, hwloc_topology_load(t) == 0, "named_setup", "load failed");
    std::string X = xml_of(c, t, 0, false); hwloc_topology_t r = reload(c, X, 0, false, false); std::string df = first_diff(dump_topology(t, DUMP_GP), dump_topology(r, DUMP_GP));
    CHECK(c, df.empty(), "reload_equal", "the reloaded topology differs from the exported one: %s", df.c_str()); hwloc_topology_destroy(r); hwloc_topology_destroy(t); return true;
  }
  if (name == "F-C05-a") {   // open: plain userdata containing '<' or '&' with the minimal backend
    c.desc("plain userdata \"a<b&c\" on the root object, export + reload (fails only when a nolibxml backend is involved)");
    hwloc_topology_t t; hwloc_topology_init(&t); hwloc_topology_set_synthetic(t, "pu:2"); hwloc_topology_load(t);
    UD *u = new UD; u->items.push_back({"n", "a<b&c"}); u->b64.push_back(0); u->hasname.push_back(true); hwloc_get_root_obj(t)->userdata = u; hwloc_topology_set_userdata_export_callback(t, exp_cb);
    std::string X1 = xml_of(c, t, 0, false); hwloc_topology_t r; hwloc_topology_init(&r); hwloc_topology_set_userdata_import_callback(r, imp_cb); hwloc_topology_set_xmlbuffer(r, X1.c_str(), (int)X1.size() + 1);
    CHECK(c, hwloc_topology_load(r) == 0, "reload", "load of hwloc's own export failed"); UD *b = (UD *)hwloc_get_root_obj(r)->userdata;
    CHECK(c, b && b->items.size() == 1 && b->items[0].second == "a<b&c", "userdata", "userdata bytes differ after the round trip (got %s)", b && b->items.size() ? qstr(b->items[0].second.c_str()).c_str() : "nothing");
    delete b; delete u; hwloc_topology_destroy(r); hwloc_topology_destroy(t); return true;
  }
  return false;
}
