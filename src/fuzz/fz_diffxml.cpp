// libFuzzer target: hwloc_topology_diff_load_xmlbuffer() on arbitrary bytes (DESIGN.md C06/C16).
// Oracle: returns 0/-1; a loaded diff can be walked, re-exported (unless TOO_COMPLEX), re-loaded to an equal list, applied to a topology
// (any result, but the topology stays well formed and a failure rolls back), and destroyed; no leak.
#include "engine.h"
#include "snap.hpp"
#include <set>
#include <stdint.h>
std::string strf(const char *fmt, ...) { char buf[4096]; va_list ap; va_start(ap, fmt); vsnprintf(buf, sizeof buf, fmt, ap); va_end(ap); return buf; }
static uint64_t h64(const uint8_t *p, size_t n) { uint64_t h = 1469598103934665603ULL; for (size_t i = 0; i < n; i++) { h ^= p[i]; h *= 1099511628211ULL; } return h; }
static uint64_t n_exec, n_loaded, n_rejected, n_applied; static std::set<uint64_t> loaded_hashes; static std::vector<std::string> samples; static hwloc_topology_t base;
static void fail_cb(const char *rule, const char *msg) { fprintf(stderr, "ORACLE-FAIL rule=%s: %s\n", rule, msg); fflush(stderr); __builtin_trap(); }
static void dump_stats() {
  const char *p = getenv("VERIF_FUZZ_STATS"); if (!p) return; FILE *f = fopen(p, "w"); if (!f) return;
  fprintf(f, "{\"execs\":%llu,\"loaded\":%llu,\"rejected\":%llu,\"applied_ok\":%llu,\"distinct_nontrivial\":%zu,\"samples\":[", (unsigned long long)n_exec, (unsigned long long)n_loaded, (unsigned long long)n_rejected, (unsigned long long)n_applied, loaded_hashes.size());
  for (size_t i = 0; i < samples.size(); i++) { fprintf(f, "%s\"", i ? "," : ""); for (unsigned char ch : samples[i]) { if (ch < 0x20 || ch >= 0x7f || ch == '"' || ch == '\\') fprintf(f, "\\u%04x", ch); else fputc(ch, f); } fprintf(f, "\""); }
  fprintf(f, "]}\n"); fclose(f);
}
static bool streq(const char *a, const char *b) { return (!a && !b) || (a && b && !strcmp(a, b)); }
extern "C" int LLVMFuzzerInitialize(int *, char ***) { atexit(dump_stats); setenv("HWLOC_DONT_ADD_VERSION_INFO", "1", 1); hwloc_topology_init(&base); hwloc_topology_set_synthetic(base, "pack:2 [numa] core:2 pu:2"); hwloc_topology_load(base); for (auto o : all_objs(base)) { if (!o->name) o->name = strdup("nm"); hwloc_obj_add_info(o, "k0", "v2"); } hwloc_modify_infos(hwloc_topology_get_infos(base), HWLOC_MODIFY_INFOS_OP_ADD, "tk", "tv0"); return 0; }
extern "C" int LLVMFuzzerTestOneInput(const uint8_t *data, size_t size) {
  n_exec++; if (size < 1) return 0;
  char *blk = (char *)malloc(size + 1); memcpy(blk, data, size); blk[size] = 0;
  hwloc_topology_diff_t d = NULL; char *ref = NULL;
  int r = hwloc_topology_diff_load_xmlbuffer(blk, (int)size + 1, &d, &ref);
  if (r != 0 && r != -1) fail_cb("load_ret", "diff_load_xmlbuffer returned something else than 0/-1");
  if (r == 0) {
    n_loaded++; bool toocomplex = false; int len = 0;
    bool unknown = false;
    for (hwloc_topology_diff_t x = d; x; x = x->generic.next) { len++; int gt, at; memcpy(&gt, &x->generic.type, sizeof gt);   // read enums as ints: the loader stores whatever number the document gives
      if (gt == HWLOC_TOPOLOGY_DIFF_TOO_COMPLEX) toocomplex = true; else if (gt != HWLOC_TOPOLOGY_DIFF_OBJ_ATTR) unknown = true;
      else { memcpy(&at, &x->obj_attr.diff.generic.type, sizeof at); if (at != HWLOC_TOPOLOGY_DIFF_OBJ_ATTR_SIZE && at != HWLOC_TOPOLOGY_DIFF_OBJ_ATTR_NAME && at != HWLOC_TOPOLOGY_DIFF_OBJ_ATTR_INFO) unknown = true;
        else if (at != HWLOC_TOPOLOGY_DIFF_OBJ_ATTR_SIZE) { if (!x->obj_attr.diff.string.oldvalue || !x->obj_attr.diff.string.newvalue || (at == HWLOC_TOPOLOGY_DIFF_OBJ_ATTR_INFO && !x->obj_attr.diff.string.name)) fail_cb("diff_entry", "loaded string entry lacks a mandatory value"); (void)strlen(x->obj_attr.diff.string.oldvalue); (void)strlen(x->obj_attr.diff.string.newvalue); } } }
    if (unknown) toocomplex = true;   // entries of a type this version does not know: only walked and destroyed
    if (d && !toocomplex) {
      char *xb = NULL; int xl = 0;
      if (hwloc_topology_diff_export_xmlbuffer(d, ref ? ref : "r", &xb, &xl) == 0) {
        hwloc_topology_diff_t d2 = NULL; char *ref2 = NULL; if (hwloc_topology_diff_load_xmlbuffer(xb, xl, &d2, &ref2) != 0) fail_cb("diff_xml", "re-export of a loaded diff cannot be loaded");
        hwloc_topology_diff_t x = d, y = d2; for (; x && y; x = x->generic.next, y = y->generic.next) { if (x->generic.type != y->generic.type || x->obj_attr.obj_depth != y->obj_attr.obj_depth || x->obj_attr.obj_index != y->obj_attr.obj_index || x->obj_attr.diff.generic.type != y->obj_attr.diff.generic.type) fail_cb("diff_xml", "entry header differs after a round trip");
          if (x->obj_attr.diff.generic.type == HWLOC_TOPOLOGY_DIFF_OBJ_ATTR_SIZE) { if (x->obj_attr.diff.uint64.oldvalue != y->obj_attr.diff.uint64.oldvalue || x->obj_attr.diff.uint64.newvalue != y->obj_attr.diff.uint64.newvalue) fail_cb("diff_xml", "values differ after a round trip"); }
          else if (!streq(x->obj_attr.diff.string.name, y->obj_attr.diff.string.name) || !streq(x->obj_attr.diff.string.oldvalue, y->obj_attr.diff.string.oldvalue) || !streq(x->obj_attr.diff.string.newvalue, y->obj_attr.diff.string.newvalue)) fail_cb("diff_xml", "strings differ after a round trip"); }
        if (x || y) fail_cb("diff_xml", "list length differs after a round trip");
        free(ref2); hwloc_topology_diff_destroy(d2); hwloc_free_xmlbuffer(base, xb);
      }
      // apply to a copy of the base topology: success or -N with exact rollback
      hwloc_topology_t P; hwloc_topology_dup(&P, base); std::string before = dump_topology(P);
      int ra = hwloc_topology_diff_apply(P, d, 0);
      if (ra > 0 || ra < -len) fail_cb("apply_ret", "diff_apply returned a value outside [-N, 0]");
      if (ra < 0) { if (dump_topology(P) != before) fail_cb("rollback", "failed diff_apply did not roll back"); } else { n_applied++; int rr = hwloc_topology_diff_apply(P, d, HWLOC_TOPOLOGY_DIFF_APPLY_REVERSE); (void)rr; }
      WFError e; wf_check(P, e); if (!e.ok()) fail_cb("wf", ("topology ill-formed after diff_apply: " + e.msgs[0]).c_str());
      hwloc_topology_destroy(P);
    }
    if (loaded_hashes.size() < 2000000 && loaded_hashes.insert(h64(data, size)).second && samples.size() < 8) samples.push_back(std::string((const char *)data, size < 300 ? size : 300));
    hwloc_topology_diff_destroy(d); free(ref);
  } else n_rejected++;
  free(blk); return 0;
}
