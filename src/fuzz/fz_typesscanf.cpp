// libFuzzer target: hwloc_type_sscanf on arbitrary NUL-terminated strings (DESIGN.md C11).
#include <hwloc.h>
#include <set>
#include <string>
#include <vector>
#include <cstring>
#include <cstdlib>
#include <cstdio>
#include <stdint.h>
static uint64_t n_exec, n_acc; static std::set<uint64_t> acc; static std::vector<std::string> samples;
static uint64_t h64(const uint8_t *p, size_t n) { uint64_t h = 1469598103934665603ULL; for (size_t i = 0; i < n; i++) { h ^= p[i]; h *= 1099511628211ULL; } return h; }
static void fail(const char *rule, const char *msg) { fprintf(stderr, "ORACLE-FAIL rule=%s: %s\n", rule, msg); fflush(stderr); __builtin_trap(); }
static void dump_stats() { const char *p = getenv("VERIF_FUZZ_STATS"); if (!p) return; FILE *f = fopen(p, "w"); if (!f) return; fprintf(f, "{\"execs\":%llu,\"accepted\":%llu,\"distinct_nontrivial\":%zu,\"samples\":[", (unsigned long long)n_exec, (unsigned long long)n_acc, acc.size());
  for (size_t i = 0; i < samples.size(); i++) { fprintf(f, "%s\"", i ? "," : ""); for (unsigned char ch : samples[i]) { if (ch < 0x20 || ch >= 0x7f || ch == '"' || ch == '\\') fprintf(f, "\\u%04x", ch); else fputc(ch, f); } fprintf(f, "\""); } fprintf(f, "]}\n"); fclose(f); }
extern "C" int LLVMFuzzerInitialize(int *, char ***) { atexit(dump_stats); return 0; }
extern "C" int LLVMFuzzerTestOneInput(const uint8_t *data, size_t size) {
  n_exec++; std::string s((const char *)data, size); size_t z = s.find('\0'); if (z != std::string::npos) s.resize(z);
  char *blk = (char *)malloc(s.size() + 1); memcpy(blk, s.data(), s.size() + 1);
  hwloc_obj_type_t ty = (hwloc_obj_type_t)-7; unsigned char abuf[sizeof(union hwloc_obj_attr_u) + 32]; memset(abuf, 0xA5, sizeof abuf);
  int r = hwloc_type_sscanf(blk, &ty, (union hwloc_obj_attr_u *)(abuf + 16), sizeof(union hwloc_obj_attr_u)); free(blk);
  if (r != 0 && r != -1) fail("sscanf_ret", "returned something else than 0/-1");
  for (int g = 0; g < 16; g++) if (abuf[g] != 0xA5 || abuf[16 + sizeof(union hwloc_obj_attr_u) + g] != 0xA5) fail("sscanf_bounds", "wrote outside the attribute buffer");
  if (r == 0) { if ((int)ty < 0 || ty >= HWLOC_OBJ_TYPE_MAX) fail("sscanf_type", "succeeded with an invalid type");
    // the canonical name of the returned type parses back to the same type
    hwloc_obj_type_t t2; if (hwloc_type_sscanf(hwloc_obj_type_string(ty), &t2, NULL, 0) != 0 || t2 != ty) fail("parse_back", "type_string of the returned type does not parse back");
    n_acc++; if (acc.size() < 2000000 && acc.insert(h64((const uint8_t *)s.data(), s.size())).second && samples.size() < 12) samples.push_back(s.substr(0, 60)); }
  return 0;
}
