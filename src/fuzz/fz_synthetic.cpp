// libFuzzer target: hwloc_topology_set_synthetic() + load on arbitrary NUL-terminated strings (DESIGN.md C07, domain B).
#include "engine.h"
#include "synth.hpp"
#include <set>
#include <stdint.h>
std::string strf(const char *fmt, ...) { char buf[4096]; va_list ap; va_start(ap, fmt); vsnprintf(buf, sizeof buf, fmt, ap); va_end(ap); return buf; }
static uint64_t h64(const uint8_t *p, size_t n) { uint64_t h = 1469598103934665603ULL; for (size_t i = 0; i < n; i++) { h ^= p[i]; h *= 1099511628211ULL; } return h; }
static uint64_t n_exec, n_acc, n_rej, n_costly, n_loadfail; static std::set<uint64_t> acc; static std::vector<std::string> samples;
static void fail_cb(const char *rule, const char *msg) { fprintf(stderr, "ORACLE-FAIL rule=%s: %s\n", rule, msg); fflush(stderr); __builtin_trap(); }
static void dump_stats() { const char *p = getenv("VERIF_FUZZ_STATS"); if (!p) return; FILE *f = fopen(p, "w"); if (!f) return;
  fprintf(f, "{\"execs\":%llu,\"accepted_loaded\":%llu,\"rejected\":%llu,\"accepted_load_failed\":%llu,\"skipped_costly\":%llu,\"distinct_nontrivial\":%zu,\"samples\":[", (unsigned long long)n_exec, (unsigned long long)n_acc, (unsigned long long)n_rej, (unsigned long long)n_loadfail, (unsigned long long)n_costly, acc.size());
  for (size_t i = 0; i < samples.size(); i++) { fprintf(f, "%s\"", i ? "," : ""); for (unsigned char ch : samples[i]) { if (ch < 0x20 || ch >= 0x7f || ch == '"' || ch == '\\') fprintf(f, "\\u%04x", ch); else fputc(ch, f); } fprintf(f, "\""); } fprintf(f, "]}\n"); fclose(f); }
extern "C" int LLVMFuzzerInitialize(int *, char ***) { atexit(dump_stats); setenv("HWLOC_DONT_ADD_VERSION_INFO", "1", 1); return 0; }
extern "C" int LLVMFuzzerTestOneInput(const uint8_t *data, size_t size) {
  n_exec++; if (size > 1024) return 0;
  std::string s((const char *)data, size); size_t z = s.find('\0'); if (z != std::string::npos) s.resize(z);
  bool nt; int r = check_synthetic_string(s, fail_cb, nt);
  if (r == 1) { n_acc++; if (nt && acc.size() < 2000000 && acc.insert(h64((const uint8_t *)s.data(), s.size())).second && (samples.size() < 6 || (acc.size() & (acc.size() - 1)) == 0)) { if (samples.size() >= 14) samples.erase(samples.begin() + 6); samples.push_back(s.substr(0, 160)); } }
  else if (r == 0) n_rej++; else if (r == 2) n_loadfail++; else n_costly++;
  return 0;
}
