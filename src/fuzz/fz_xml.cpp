// libFuzzer target: hwloc_topology_set_xmlbuffer() + load() on arbitrary bytes, two-stage oracle (DESIGN.md C06).
// Backend (nolibxml / libxml2) is selected per process through HWLOC_LIBXML_IMPORT; -DVIA_FILE uses set_xml() on a file instead.
#include "engine.h"
#include "battery.hpp"
#include <set>
#include <dirent.h>
#include <unistd.h>
#include <stdint.h>
extern "C" int __lsan_do_recoverable_leak_check(void);
std::string strf(const char *fmt, ...) { char buf[4096]; va_list ap; va_start(ap, fmt); vsnprintf(buf, sizeof buf, fmt, ap); va_end(ap); return buf; }
static uint64_t h64(const uint8_t *p, size_t n) { uint64_t h = 1469598103934665603ULL; for (size_t i = 0; i < n; i++) { h ^= p[i]; h *= 1099511628211ULL; } return h; }
static uint64_t n_exec, n_rej_early, n_rej_late, n_loaded_ok, n_loaded_inconsistent; static std::set<uint64_t> export_hashes, nontrivial_hashes; static std::vector<std::string> samples;
static void fail_cb(const char *rule, const char *msg) { fprintf(stderr, "ORACLE-FAIL rule=%s: %s\n", rule, msg); fflush(stderr); __builtin_trap(); }
static void dump_stats() {
  const char *p = getenv("VERIF_FUZZ_STATS"); if (!p) return; FILE *f = fopen(p, "w"); if (!f) return;
  fprintf(f, "{\"execs\":%llu,\"rejected_early\":%llu,\"rejected_late\":%llu,\"loaded_consistent\":%llu,\"loaded_inconsistent_F_C06_h\":%llu,\"distinct_nontrivial\":%zu,\"seed_exports\":%zu,\"samples\":[", (unsigned long long)n_exec, (unsigned long long)n_rej_early, (unsigned long long)n_rej_late, (unsigned long long)n_loaded_ok, (unsigned long long)n_loaded_inconsistent, nontrivial_hashes.size(), export_hashes.size());
  for (size_t i = 0; i < samples.size(); i++) { fprintf(f, "%s\"", i ? "," : ""); for (unsigned char ch : samples[i]) { if (ch < 0x20 || ch >= 0x7f || ch == '"' || ch == '\\') fprintf(f, "\\u%04x", ch); else fputc(ch, f); } fprintf(f, "\""); }
  fprintf(f, "]}\n"); fclose(f);
}
extern "C" int LLVMFuzzerInitialize(int *, char ***) {
  atexit(dump_stats); setenv("HWLOC_DONT_ADD_VERSION_INFO", "1", 1); (void)rich_xml();
  // hashes of the unmutated exports (seed corpus): for them an inconsistent topology is a violation, never F-C06-h
  const char *sd = getenv("VERIF_SEED_DIR"); if (sd) { DIR *d = opendir(sd); struct dirent *e; while (d && (e = readdir(d))) { std::string p = std::string(sd) + "/" + e->d_name; FILE *f = fopen(p.c_str(), "rb"); if (!f) continue; std::string s; char b[65536]; size_t n; while ((n = fread(b, 1, sizeof b, f)) > 0) s.append(b, n); fclose(f); if (s.size() > 1) export_hashes.insert(h64((const uint8_t *)s.data() + 1, s.size() - 1)); } if (d) closedir(d); }
  return 0;
}
extern "C" int LLVMFuzzerTestOneInput(const uint8_t *data, size_t size) {
  n_exec++;
  if (size < 2) return 0;
  uint8_t cfg = data[0]; const uint8_t *xml = data + 1; size_t xl = size - 1;
  bool is_export = export_hashes.count(h64(xml, xl)) != 0;
  // the API requires the terminating NUL to be included in the length (pitfall 9.6): exactly-sized heap block, NUL appended
  char *blk = (char *)malloc(xl + 1); memcpy(blk, xml, xl); blk[xl] = 0;
  hwloc_topology_t t; hwloc_topology_init(&t);
  unsigned long flags = 0; if (cfg & 1) flags |= HWLOC_TOPOLOGY_FLAG_INCLUDE_DISALLOWED; if (cfg & 2) flags |= HWLOC_TOPOLOGY_FLAG_IMPORT_SUPPORT; if (cfg & 4) flags |= HWLOC_TOPOLOGY_FLAG_NO_DISTANCES | HWLOC_TOPOLOGY_FLAG_NO_MEMATTRS | HWLOC_TOPOLOGY_FLAG_NO_CPUKINDS;
  hwloc_topology_set_flags(t, flags);
  int fsel = (cfg >> 3) & 3; if (fsel == 1) hwloc_topology_set_all_types_filter(t, HWLOC_TYPE_FILTER_KEEP_ALL); else if (fsel == 2) hwloc_topology_set_all_types_filter(t, HWLOC_TYPE_FILTER_KEEP_STRUCTURE); else if (fsel == 3) { hwloc_topology_set_io_types_filter(t, HWLOC_TYPE_FILTER_KEEP_IMPORTANT); hwloc_topology_set_type_filter(t, HWLOC_OBJ_MISC, HWLOC_TYPE_FILTER_KEEP_ALL); hwloc_topology_set_type_filter(t, HWLOC_OBJ_GROUP, HWLOC_TYPE_FILTER_KEEP_NONE); }
  int r;
#ifdef VIA_FILE
  char path[256]; snprintf(path, sizeof path, "%s/fzxml.%d.xml", getenv("VERIF_FUZZ_TMP") ? getenv("VERIF_FUZZ_TMP") : ".", (int)getpid()); { FILE *f = fopen(path, "wb"); fwrite(xml, 1, xl, f); fclose(f); }
  r = hwloc_topology_set_xml(t, path);
#else
  r = hwloc_topology_set_xmlbuffer(t, blk, (int)xl + 1);
#endif
  if (r != 0 && r != -1) fail_cb("set_ret", "set_xml* returned something else than 0/-1");
  if (r == 0) {
    int l = hwloc_topology_load(t);
    if (l != 0 && l != -1) fail_cb("load_ret", "load returned something else than 0/-1");
    if (l == 0) {
      WFError e; wf_check(t, e);
      if (!e.ok()) {
        if (is_export) fail_cb("wf_export", (std::string("an unmutated hwloc export loads into an ill-formed topology: ") + e.msgs[0]).c_str());
        if (const char *pr = importer_validated_rule(e)) fail_cb("importer_object_check", (std::string("the document loads although it breaks a per-object rule the importer checks before insertion: ") + pr).c_str());
        n_loaded_inconsistent++;   // F-C06-h: the importer does not validate cross-object consistency; counted, battery skipped
      } else {
        n_loaded_ok++;
        run_battery(t, fail_cb);
        uint64_t h = h64(xml, xl); if (nontrivial_hashes.size() < 4000000 && nontrivial_hashes.insert(h).second && !is_export && samples.size() < 8) samples.push_back(std::string((const char *)xml, xl < 300 ? xl : 300));
      }
    } else {
      n_rej_late++;
      // a failed load leaves a topology that may be configured and loaded again
      reload_after_failure(t, (unsigned)(xl + cfg), fail_cb);
      WFError e; wf_check(t, e); if (!e.ok()) fail_cb("wf", ("topology loaded after a failed XML load is ill-formed: " + e.msgs[0]).c_str()); hwloc_topology_check(t);
    }
  } else n_rej_early++;
  hwloc_topology_destroy(t);
#ifdef VIA_FILE
  unlink(path);
#endif
  free(blk);
  return 0;
}
