// libFuzzer target for hwloc_bitmap_{,list_,taskset_}sscanf (select with -DFMT=0|1|2); the semantic oracle is inside the target:
// return in {0,-1}; result independent of the destination's previous content; accepted input stable under print-then-parse.
#include "bitstr.hpp"
#include <set>
#include <stdint.h>
#ifndef FMT
#define FMT 0
#endif
static uint64_t n_exec, n_accepted, n_rejected, n_costly; static std::set<uint64_t> accepted_hashes; static std::vector<std::string> samples;
static uint64_t h64(const uint8_t *p, size_t n) { uint64_t h = 1469598103934665603ULL; for (size_t i = 0; i < n; i++) { h ^= p[i]; h *= 1099511628211ULL; } return h; }
static void fail_cb(const char *rule, const char *msg) { fprintf(stderr, "ORACLE-FAIL rule=%s: %s\n", rule, msg); fflush(stderr); __builtin_trap(); }
static void dump_stats() {
  const char *p = getenv("VERIF_FUZZ_STATS"); if (!p) return; FILE *f = fopen(p, "w"); if (!f) return;
  fprintf(f, "{\"execs\":%llu,\"accepted\":%llu,\"rejected\":%llu,\"skipped_costly\":%llu,\"distinct_accepted\":%zu,\"oracle_checks\":%lu,\"samples\":[", (unsigned long long)n_exec, (unsigned long long)n_accepted, (unsigned long long)n_rejected, (unsigned long long)n_costly, accepted_hashes.size(), bitstr_checks);
  for (size_t i = 0; i < samples.size(); i++) { fprintf(f, "%s\"", i ? "," : ""); for (unsigned char ch : samples[i]) { if (ch < 0x20 || ch >= 0x7f || ch == '"' || ch == '\\') fprintf(f, "\\u%04x", ch); else fputc(ch, f); } fprintf(f, "\""); }
  fprintf(f, "]}\n"); fclose(f);
}
extern "C" int LLVMFuzzerInitialize(int *, char ***) { bitstr_fail = fail_cb; atexit(dump_stats); return 0; }
extern "C" int LLVMFuzzerTestOneInput(const uint8_t *data, size_t size) {
  n_exec++;
  if (size > 512) return 0;
  std::string s((const char *)data, size); size_t z = s.find('\0'); if (z != std::string::npos) s.resize(z);  // the API takes a NUL-terminated string
  int r = check_parse_arbitrary(FMT, s);
  if (r == 1) { n_accepted++; if (accepted_hashes.size() < 2000000 && accepted_hashes.insert(h64((const uint8_t *)s.data(), s.size())).second && (samples.size() < 6 || (accepted_hashes.size() & (accepted_hashes.size() - 1)) == 0)) { if (samples.size() >= 14) samples.erase(samples.begin() + 6); samples.push_back(s.substr(0, 100)); } }
  else if (r == 0) n_rejected++; else n_costly++;
  return 0;
}
