// Topology source generator (DESIGN.md 3.4): synthetic-by-grammar or corpus XML, plus flags and type filters.
// Everything is drawn from a Draw (rapidcheck-owned tape), value 0 is always the simplest choice.
#pragma once
#include "genxml.hpp"
#include "engine.h"
#include "snap.hpp"
#include <hwloc.h>
#include <dirent.h>
#include <cerrno>

static const char *verif_repo() { const char *r = getenv("VERIF_REPO"); return r && *r ? r : "/repo"; }

static std::vector<std::string> corpus_xml_files() {
  static std::vector<std::string> files;
  if (!files.empty()) return files;
  std::string dir = std::string(verif_repo()) + "/tests/hwloc/xml";
  DIR *d = opendir(dir.c_str());
  if (d) { struct dirent *e; while ((e = readdir(d))) { std::string n = e->d_name; if (n.size() > 4 && n.substr(n.size() - 4) == ".xml") files.push_back(dir + "/" + n); } closedir(d); }
  std::sort(files.begin(), files.end());
  return files;
}

struct SynOpts {
  int max_pus = 96;
  bool allow_attached = true;
  bool allow_numa_level = true;
  bool allow_attrs = true;      // memory=/size=/indexes=
  bool allow_untyped = true;
  bool allow_msc = true;        // memorysidecachesize
  int max_arity = 4;
};

// A generated synthetic description.  Kept abstract enough for descriptions; C07 has its own richer model.
static std::string gen_synthetic(Draw &d, const SynOpts &o = SynOpts(), int *out_pus = nullptr) {
  std::string s; int pus = 1;
  if (o.allow_untyped && d.chance(1, 16)) {  // untyped form "2 3 2"
    int n = d.range(1, 5);
    for (int i = 0; i < n; i++) { int a = d.range(1, 3); if (pus * a > o.max_pus) a = 1; pus *= a; s += (i ? " " : "") + std::to_string(a); }
    if (out_pus) *out_pus = pus; return s;
  }
  bool numa_level = o.allow_numa_level && d.chance(1, 4);
  bool attached = o.allow_attached && !numa_level && d.chance(2, 3);
  // (a NUMA level together with attached NUMA nodes is rejected by design: "cannot have NUMA nodes both as a level and attached")
  auto att = [&](bool ok) {
    if (!attached || !ok || !d.chance(1, 3)) return;
    int k = d.range(1, 3);
    for (int i = 0; i < k; i++) {
      std::string a;
      if (o.allow_attrs && d.chance(1, 3)) { static const char *mem[] = {"memory=1GB", "memory=256MB", "memory=3GiB", "memory=1048576", "memory=2TB"}; a = d.pick(mem); }
      if (o.allow_msc && d.chance(1, 8)) { if (!a.empty()) a += " "; a += d.chance(1, 2) ? "memorysidecachesize=16MB" : "memorysidecachesize=1GB"; }
      s += a.empty() ? "[numa] " : "[numa(" + a + ")] ";
    }
  };
  auto arity = [&](int maxa) { int a = d.range(1, maxa); if (pus * a > o.max_pus) a = 1; pus *= a; return a; };
  auto numa = [&]() { if (numa_level && d.chance(1, 3)) { int a = arity(3); std::string attrs; if (o.allow_attrs && d.chance(1, 3)) attrs = "(memory=512MB)"; s += "numa:" + std::to_string(a) + attrs + " "; numa_level = false; } };
  if (o.allow_attrs && d.chance(1, 10)) s += "(memory=4GB) ";   // root attributes
  att(true);  // attached to the root
  static const char *upper[] = {"group", "pack", "die", "group"};
  for (int i = 0; i < 4; i++) { numa(); if (d.chance(1, 3)) { s += std::string(upper[i]) + ":" + std::to_string(arity(o.max_arity)) + " "; att(true); } }
  numa();
  static const char *caches[] = {"l3", "l2", "l1", "l1i"};
  static const char *csize[] = {"", "", "(size=32kB)", "(size=1MB)", "(size=12582912)"};
  for (int i = 0; i < 4; i++) if (d.chance(1, 3)) { s += std::string(caches[i]) + ":" + std::to_string(arity(2)) + (o.allow_attrs ? d.pick(csize) : "") + " "; att(true); if (i == 0) numa(); }
  if (numa_level) { int a = arity(3); s += "numa:" + std::to_string(a) + " "; numa_level = false; }
  if (d.chance(1, 2)) { s += "core:" + std::to_string(arity(o.max_arity)) + " "; att(true); }
  int a = arity(o.max_arity);
  std::string puattr;
  if (o.allow_attrs && d.chance(1, 6)) {
    int mode = d.range(0, 2);
    if (mode == 0 && pus <= 64) {  // explicit permutation of 0..pus-1 (a rotation or reversal: always a legal permutation)
      int rot = d.range(0, pus - 1); bool rev = d.chance(1, 2); puattr = "(indexes=";
      for (int i = 0; i < pus; i++) { int v = (i + rot) % pus; if (rev) v = pus - 1 - v; puattr += (i ? "," : "") + std::to_string(v); }
      puattr += ")";
    } else if (mode == 1) puattr = "(indexes=core:pu)";
    else puattr = "(indexes=pack:core:pu)";
  }
  s += "pu:" + std::to_string(a) + puattr;
  if (out_pus) *out_pus = pus;
  return s;
}

struct TopoSpec {
  bool is_xml = false;
  std::string synth, xmlpath;
  std::string xmlbuf, xmlbuf_summary;   // generated document (genxml.hpp), loaded through set_xmlbuffer
  // snapshot sources (C18): HWLOC_FSROOT / HWLOC_CPUID_PATH / HWLOC_COMPONENTS, plus extra environment toggles
  std::string fsroot, cpuid, components, snapname;
  std::vector<std::pair<std::string, std::string>> envs;
  bool is_snapshot() const { return !fsroot.empty() || !cpuid.empty(); }
  bool is_native = false;   // the live machine: no source is configured at all
  unsigned long flags = 0;
  int filters[HWLOC_OBJ_TYPE_MAX];   // -1 = leave default
  bool all_filter_set = false; int all_filter = 0;
  int bulk_kind = 0, bulk_filter = 0;   // 1 = set_cache_types_filter, 2 = set_icache_types_filter, 3 = set_io_types_filter (applied before the per-type filters)
  TopoSpec() { for (auto &f : filters) f = -1; }
  std::string text() const {
    std::string s = is_native ? std::string("this-machine") : is_snapshot() ? "snapshot=" + snapname + " HWLOC_COMPONENTS=" + components : !xmlbuf.empty() ? xmlbuf_summary : is_xml ? "xml=" + xmlpath.substr(xmlpath.rfind('/') + 1) : "synthetic=\"" + synth + "\"";
    for (auto &e : envs) s += " " + e.first + "=" + e.second;
    s += strf(" flags=0x%lx", flags);
    if (all_filter_set) s += strf(" allfilter=%d", all_filter);
    if (bulk_kind) s += strf(" %s_types_filter=%d", bulk_kind == 1 ? "cache" : bulk_kind == 2 ? "icache" : "io", bulk_filter);
    for (int t = 0; t < HWLOC_OBJ_TYPE_MAX; t++) if (filters[t] >= 0) s += strf(" filter[%s]=%d", hwloc_obj_type_string((hwloc_obj_type_t)t), filters[t]);
    return s;
  }
};

// legality of a filter per the documentation of hwloc_topology_set_type_filter()
static bool filter_is_legal(hwloc_obj_type_t t, int f) {
  if (t == HWLOC_OBJ_PU || t == HWLOC_OBJ_NUMANODE || t == HWLOC_OBJ_MACHINE) return f == HWLOC_TYPE_FILTER_KEEP_ALL;
  if (t == HWLOC_OBJ_BRIDGE || t == HWLOC_OBJ_PCI_DEVICE || t == HWLOC_OBJ_OS_DEVICE || t == HWLOC_OBJ_MISC) return f != HWLOC_TYPE_FILTER_KEEP_STRUCTURE;
  if (t == HWLOC_OBJ_GROUP) return f != HWLOC_TYPE_FILTER_KEEP_ALL;
  return true;
}

struct SpecOpts {
  SynOpts syn;
  int xml_num = 1, xml_den = 5;    // probability of a corpus XML source
  bool gen_flags = true;
  bool gen_filters = true;
  bool thissystem_flags = false;   // allow IS_THISSYSTEM-dependent flags (environment dependent)
  bool misc_keep = false;          // force Misc filter KEEP_ALL (harnesses that insert Misc objects)
  int gx_num = 0, gx_den = 6;      // probability of a document generated from an abstract tree (genxml.hpp); 0 = never
  GenXmlOpts gx;
};

static void gen_config(Draw &d, TopoSpec &sp, const SpecOpts &o);
static TopoSpec gen_topospec(Draw &d, const SpecOpts &o = SpecOpts()) {
  TopoSpec sp;
  auto files = corpus_xml_files();
  if (o.gx_num > 0 && d.chance(o.gx_num, o.gx_den)) { GenXml g = gen_xml(d, o.gx); sp.is_xml = true; sp.xmlbuf = g.text; sp.xmlbuf_summary = g.summary; }
  else if (!files.empty() && o.xml_num > 0 && d.chance(o.xml_num, o.xml_den)) { sp.is_xml = true; sp.xmlpath = d.pick(files); }
  else sp.synth = gen_synthetic(d, o.syn);
  gen_config(d, sp, o);
  return sp;
}
// flags and type filters (any source)
static void gen_config(Draw &d, TopoSpec &sp, const SpecOpts &o) {
  if (o.gen_flags && d.chance(1, 2)) {
    if (d.chance(1, 2)) sp.flags |= HWLOC_TOPOLOGY_FLAG_INCLUDE_DISALLOWED;
    if (d.chance(1, 4)) sp.flags |= HWLOC_TOPOLOGY_FLAG_IMPORT_SUPPORT;
    if (d.chance(1, 6)) sp.flags |= HWLOC_TOPOLOGY_FLAG_NO_DISTANCES;
    if (d.chance(1, 6)) sp.flags |= HWLOC_TOPOLOGY_FLAG_NO_MEMATTRS;
    if (d.chance(1, 6)) sp.flags |= HWLOC_TOPOLOGY_FLAG_NO_CPUKINDS;
    if (d.chance(1, 8)) sp.flags |= HWLOC_TOPOLOGY_FLAG_DONT_CHANGE_BINDING;
    if (o.thissystem_flags && d.chance(1, 6)) {
      // IS_THISSYSTEM alone only changes the binding hooks.  THISSYSTEM_ALLOWED_RESOURCES is documented to require that
      // "the loaded topology must match the underlying machine": never combined with a foreign source (pitfall 9.30).
      sp.flags |= HWLOC_TOPOLOGY_FLAG_IS_THISSYSTEM;
    }
  }
  if (o.gen_filters && d.chance(2, 3)) {
    if (d.chance(1, 4)) { sp.all_filter_set = true; sp.all_filter = d.range(0, 3); }
    if (d.chance(1, 5)) { sp.bulk_kind = d.range(1, 3); sp.bulk_filter = d.range(0, 3); }
    int n = d.range(0, 5);
    for (int i = 0; i < n; i++) {
      int t = d.range(0, HWLOC_OBJ_TYPE_MAX - 1); int f = d.range(0, 3);
      // legal by construction 85%, arbitrary 15% (must then be rejected with EINVAL and leave the filter unchanged)
      if (!filter_is_legal((hwloc_obj_type_t)t, f) && !d.chance(3, 20)) continue;
      sp.filters[t] = f;
    }
  }
  if (o.misc_keep) sp.filters[HWLOC_OBJ_MISC] = HWLOC_TYPE_FILTER_KEEP_ALL;
}

// Applies the configuration to an initialised topology, checking the documented return values of the configuration calls.
// Returns the result of hwloc_topology_load().
static int apply_spec_and_load(Case &c, hwloc_topology_t t, const TopoSpec &sp) {
  int r = hwloc_topology_set_flags(t, sp.flags);
  CHECK(c, r == 0, "set_flags", "legal flag word 0x%lx rejected (errno %d)", sp.flags, errno);
  if (sp.all_filter_set) { r = hwloc_topology_set_all_types_filter(t, (enum hwloc_type_filter_e)sp.all_filter); CHECK(c, r == 0, "set_all_types_filter", "returned %d", r); }
  if (sp.bulk_kind) {   // the three bulk setters: every type of the family gets the filter, or (illegal filter for the family) EINVAL and nothing changes
    static const hwloc_obj_type_t fam1[] = {HWLOC_OBJ_L1CACHE, HWLOC_OBJ_L2CACHE, HWLOC_OBJ_L3CACHE, HWLOC_OBJ_L4CACHE, HWLOC_OBJ_L5CACHE, HWLOC_OBJ_L1ICACHE, HWLOC_OBJ_L2ICACHE, HWLOC_OBJ_L3ICACHE}, fam2[] = {HWLOC_OBJ_L1ICACHE, HWLOC_OBJ_L2ICACHE, HWLOC_OBJ_L3ICACHE}, fam3[] = {HWLOC_OBJ_BRIDGE, HWLOC_OBJ_PCI_DEVICE, HWLOC_OBJ_OS_DEVICE};
    const hwloc_obj_type_t *fam = sp.bulk_kind == 1 ? fam1 : sp.bulk_kind == 2 ? fam2 : fam3; unsigned nfam = sp.bulk_kind == 1 ? 8 : 3; enum hwloc_type_filter_e bef[8], aft; for (unsigned i = 0; i < nfam; i++) hwloc_topology_get_type_filter(t, fam[i], &bef[i]);
    enum hwloc_type_filter_e f = (enum hwloc_type_filter_e)sp.bulk_filter; errno = 0; r = sp.bulk_kind == 1 ? hwloc_topology_set_cache_types_filter(t, f) : sp.bulk_kind == 2 ? hwloc_topology_set_icache_types_filter(t, f) : hwloc_topology_set_io_types_filter(t, f);
    bool legal = filter_is_legal(fam[0], sp.bulk_filter); enum hwloc_type_filter_e want = (sp.bulk_kind != 3 && f == HWLOC_TYPE_FILTER_KEEP_IMPORTANT) ? HWLOC_TYPE_FILTER_KEEP_ALL : f;
    for (unsigned i = 0; i < nfam; i++) { hwloc_topology_get_type_filter(t, fam[i], &aft); if (legal) CHECK(c, r == 0 && aft == want, "bulk_filter", "bulk filter %d (kind %d): ret %d, %s has filter %d", sp.bulk_filter, sp.bulk_kind, r, hwloc_obj_type_string(fam[i]), (int)aft); else CHECK(c, aft == bef[i], "bulk_filter", "illegal bulk filter %d (kind %d): ret %d errno %d, %s has filter %d (was %d)", sp.bulk_filter, sp.bulk_kind, r, errno, hwloc_obj_type_string(fam[i]), (int)aft, (int)bef[i]); }   // (the bulk setters return 0 even then: they ignore the per-type EINVAL like set_all_types_filter)
    c.cls(legal ? "filter:bulk" : "filter:bulk-illegal-rejected");
  }
  for (int ty = 0; ty < HWLOC_OBJ_TYPE_MAX; ty++) if (sp.filters[ty] >= 0) {
    enum hwloc_type_filter_e before, after; hwloc_topology_get_type_filter(t, (hwloc_obj_type_t)ty, &before);
    errno = 0; r = hwloc_topology_set_type_filter(t, (hwloc_obj_type_t)ty, (enum hwloc_type_filter_e)sp.filters[ty]);
    hwloc_topology_get_type_filter(t, (hwloc_obj_type_t)ty, &after);
    bool legal = filter_is_legal((hwloc_obj_type_t)ty, sp.filters[ty]);
    // KEEP_IMPORTANT means KEEP_ALL for normal and memory types, hence follows the legality of KEEP_ALL for them
    bool special = ty == HWLOC_OBJ_BRIDGE || ty == HWLOC_OBJ_PCI_DEVICE || ty == HWLOC_OBJ_OS_DEVICE || ty == HWLOC_OBJ_MISC;
    if (sp.filters[ty] == HWLOC_TYPE_FILTER_KEEP_IMPORTANT && !special) {
      // accepted or rejected: either way the stored filter must be one the type may have
      CHECK(c, filter_is_legal((hwloc_obj_type_t)ty, after), "filter_important", "filter of %s became %d after KEEP_IMPORTANT (ret %d), which this type may not have", hwloc_obj_type_string((hwloc_obj_type_t)ty), (int)after, r);
      if (r < 0) CHECK(c, after == before && errno == EINVAL, "filter_reject", "rejected KEEP_IMPORTANT changed the filter or errno=%d", errno);
      c.cls(r == 0 ? "filter:important-accepted" : "filter:important-rejected");
    } else if (legal) {
      CHECK(c, r == 0 && (int)after == sp.filters[ty], "filter_accept", "legal filter %d for %s: ret %d stored %d", sp.filters[ty], hwloc_obj_type_string((hwloc_obj_type_t)ty), r, (int)after);
    } else {
      CHECK(c, r == -1 && errno == EINVAL && after == before, "filter_reject", "illegal filter %d for %s: ret %d errno %d stored %d (was %d)", sp.filters[ty], hwloc_obj_type_string((hwloc_obj_type_t)ty), r, errno, (int)after, (int)before);
      c.cls("filter:illegal-rejected");
    }
  }
  if (sp.is_native) {
    unsetenv("HWLOC_FSROOT"); unsetenv("HWLOC_CPUID_PATH"); unsetenv("HWLOC_COMPONENTS"); unsetenv("HWLOC_XMLFILE"); unsetenv("HWLOC_SYNTHETIC");
  } else if (sp.is_snapshot()) {
    if (!sp.fsroot.empty()) setenv("HWLOC_FSROOT", sp.fsroot.c_str(), 1); else unsetenv("HWLOC_FSROOT");
    if (!sp.cpuid.empty()) setenv("HWLOC_CPUID_PATH", sp.cpuid.c_str(), 1); else unsetenv("HWLOC_CPUID_PATH");
    setenv("HWLOC_COMPONENTS", sp.components.c_str(), 1);
    for (auto &e : sp.envs) setenv(e.first.c_str(), e.second.c_str(), 1);
  } else if (!sp.xmlbuf.empty()) { r = hwloc_topology_set_xmlbuffer(t, sp.xmlbuf.c_str(), (int)sp.xmlbuf.size() + 1); CHECK(c, r == 0, "set_xmlbuffer", "set_xmlbuffer of a generated document failed errno %d", errno); if (getenv("VERIF_GENXML_DUMP")) { FILE *f = fopen(getenv("VERIF_GENXML_DUMP"), "w"); if (f) { fputs(sp.xmlbuf.c_str(), f); fclose(f); } }
  } else if (sp.is_xml) { r = hwloc_topology_set_xml(t, sp.xmlpath.c_str()); CHECK(c, r == 0, "set_xml", "set_xml(%s) failed errno %d", sp.xmlpath.c_str(), errno); }
  else { r = hwloc_topology_set_synthetic(t, sp.synth.c_str()); CHECK(c, r == 0, "set_synthetic", "generated description rejected: %s", sp.synth.c_str()); }
  return hwloc_topology_load(t);
}

// run wf_check and the built-in check; fail the case on the first inconsistency
static void require_wf(Case &c, hwloc_topology_t t, const char *where) {
  WFError e; if (!getenv("VERIF_TRIAGE_BUILTIN_ONLY")) wf_check(t, e);   // (triage aid: let only hwloc's own checker speak)
  c.checks(40);
  if (!e.ok()) c.fail("wf", "%s: %s%s", where, e.msgs[0].c_str(), e.msgs.size() > 1 ? (" (+" + std::to_string(e.msgs.size() - 1) + " more: " + e.msgs[1] + ")").c_str() : "");
  hwloc_topology_check(t);  // aborts on failure -> caught by the fork engine as "assert:..."
}

// cpuset / nodeset generators relative to a topology
static hwloc_bitmap_t gen_subset(Draw &d, hwloc_const_bitmap_t universe, int keep_num, int keep_den) {
  hwloc_bitmap_t s = hwloc_bitmap_alloc(); int i;
  hwloc_bitmap_foreach_begin(i, universe) { if (d.chance(keep_num, keep_den)) hwloc_bitmap_set(s, i); } hwloc_bitmap_foreach_end();
  return s;
}
