// rcfork engine implementation (see engine.h).  The only translation unit that includes rapidcheck.
#include "engine.h"
#include <rapidcheck.h>
#include <sys/mman.h>
#include <sys/wait.h>
#include <sys/resource.h>
#include <sys/stat.h>
#include <unistd.h>
#include <fcntl.h>
#include <signal.h>
#include <time.h>
#include <cstdio>
#include <cstdlib>
#include <cstring>
#include <cerrno>
#include <map>
#include <set>
#include <regex>
#include <fstream>
#include <sstream>

#ifdef VERIF_TSAN
// ThreadSanitizer flavour of the engine (C17): the first report ends the child (exit code 66); the Case reporting
// functions are serialised because harness threads share the result page.
#include <mutex>
static std::mutex g_case_mu;
#define CASE_LOCK std::lock_guard<std::mutex> case_lock_(g_case_mu)
static int __lsan_do_recoverable_leak_check(void) { return 0; }
extern "C" const char *__tsan_default_options() {
  return "halt_on_error=1:exitcode=66:report_signal_unsafe=0:history_size=4:second_deadlock_stack=1:"
         "external_symbolizer_path=/usr/bin/llvm-symbolizer-14";
}
#else
#define CASE_LOCK do {} while (0)
extern "C" int __lsan_do_recoverable_leak_check(void);
#endif
extern "C" const char *__asan_default_options() {
  return "exitcode=42:detect_leaks=1:leak_check_at_exit=0:abort_on_error=0:handle_abort=0:allocator_may_return_null=1:"
         "detect_stack_use_after_return=0:malloc_context_size=12:fast_unwind_on_malloc=1:symbolize=1:"
         "external_symbolizer_path=/usr/bin/llvm-symbolizer-14";
}
extern "C" const char *__ubsan_default_options() {
  return "print_stacktrace=1:external_symbolizer_path=/usr/bin/llvm-symbolizer-14";
}

// ---------------------------------------------------------------------------------------------------------
struct ShmClass { char name[56]; uint32_t n; };
struct Shm {
  uint32_t nontrivial;
  uint32_t discarded;
  uint64_t checks;
  uint32_t nclasses;
  ShmClass classes[160];
  uint32_t desclen;
  char desc[48 * 1024];
  char attempt[2048];
  char failrule[128];
  char failmsg[8 * 1024];
};
static Shm *g_shm;
static HConfig g_cfg;
static std::string g_workdir = ".";
const char *h_workdir() { return g_workdir.c_str(); }

uint64_t fnv1a(const void *p, size_t n, uint64_t h) {
  const unsigned char *c = (const unsigned char *)p;
  for (size_t i = 0; i < n; i++) { h ^= c[i]; h *= 1099511628211ULL; }
  return h;
}
std::string strf(const char *fmt, ...) {
  char buf[4096]; va_list ap; va_start(ap, fmt); vsnprintf(buf, sizeof buf, fmt, ap); va_end(ap); return buf;
}
static void desc_unlocked(const std::string &s);
void Case::desc(const std::string &s) { CASE_LOCK; desc_unlocked(s); }
static void desc_unlocked(const std::string &s) {
  size_t room = sizeof(g_shm->desc) - 1 - g_shm->desclen;
  size_t n = s.size() < room ? s.size() : room;
  memcpy(g_shm->desc + g_shm->desclen, s.data(), n); g_shm->desclen += n; g_shm->desc[g_shm->desclen] = 0;
}
void Case::descf(const char *fmt, ...) {
  char buf[8192]; va_list ap; va_start(ap, fmt); vsnprintf(buf, sizeof buf, fmt, ap); va_end(ap); desc(buf);
}
std::string Case::description() const { return std::string(g_shm->desc, g_shm->desclen); }
void Case::cls(const char *name, unsigned n) {
  CASE_LOCK;
  for (uint32_t i = 0; i < g_shm->nclasses; i++)
    if (!strncmp(g_shm->classes[i].name, name, sizeof(g_shm->classes[i].name) - 1)) { g_shm->classes[i].n += n; return; }
  if (g_shm->nclasses < 160) {
    ShmClass &c = g_shm->classes[g_shm->nclasses++];
    snprintf(c.name, sizeof c.name, "%s", name); c.n = n;
  }
}
void Case::attempt(const std::string &s) { CASE_LOCK; snprintf(g_shm->attempt, sizeof g_shm->attempt, "%s", s.c_str()); }
void Case::nontrivial() { CASE_LOCK; g_shm->nontrivial = 1; }
void Case::checks(unsigned n) { CASE_LOCK; g_shm->checks += n; }
void Case::excluded(const char *id) { std::string s = std::string("excluded_known:") + id; cls(s.c_str()); }
void Case::fail(const char *rule, const char *fmt, ...) {
  CASE_LOCK;
  snprintf(g_shm->failrule, sizeof g_shm->failrule, "%s", rule);
  va_list ap; va_start(ap, fmt); vsnprintf(g_shm->failmsg, sizeof g_shm->failmsg, fmt, ap); va_end(ap);
  _exit(1);
}
void Case::discard() { CASE_LOCK; g_shm->discarded = 1; _exit(0); }

// ---------------------------------------------------------------------------------------------------------
struct Tape { std::vector<uint32_t> head; std::vector<std::vector<uint32_t>> ops; std::string named; };

static std::string tape_text(const Tape &t) {
  std::ostringstream o;
  if (!t.named.empty()) { o << "named: " << t.named << "\n"; return o.str(); }
  o << "head:"; for (auto x : t.head) o << ' ' << x; o << "\n";
  for (auto &op : t.ops) { o << "op:"; for (auto x : op) o << ' ' << x; o << "\n"; }
  return o.str();
}
static bool tape_parse(const std::string &path, Tape &t) {
  std::ifstream f(path); if (!f) return false;
  std::string line; bool any = false;
  while (std::getline(f, line)) {
    if (line.empty() || line[0] == '#') continue;
    std::istringstream is(line); std::string tag; is >> tag;
    std::vector<uint32_t> v; unsigned long long x; while (is >> x) v.push_back((uint32_t)x);
    if (tag == "named:") { std::istringstream is2(line); std::string tg; is2 >> tg >> t.named; any = !t.named.empty(); continue; }
    if (tag == "head:") { t.head = v; any = true; } else if (tag == "op:") { t.ops.push_back(v); any = true; }
  }
  return any;
}

struct Outcome {
  enum Kind { OK, DISCARD, FAIL, TIMEOUT } kind = OK;
  std::string signature;  // stable identification of where/how it failed
  std::string msg;        // details
};

static std::string read_file(const std::string &p, size_t max = 256 * 1024) {
  std::ifstream f(p, std::ios::binary); std::string s; if (!f) return s;
  s.resize(max); f.read(&s[0], max); s.resize(f.gcount()); return s;
}
static std::string strip_digits(const std::string &s) {
  std::string r; bool last = false;
  for (char ch : s) { if (ch >= '0' && ch <= '9') { if (!last) r += 'N'; last = true; } else { r += ch; last = false; } }
  return r;
}
// first stack frame that lies in hwloc code (library or public inline headers)
static std::string first_hwloc_frame(const std::string &err, size_t from) {
  std::regex fr("#[0-9]+ 0x[0-9a-f]+ in ([A-Za-z0-9_]+) [^\\n]*/(hwloc|include|utils)/[^\\n]*");
  std::smatch m; std::string tail = err.substr(from);
  if (std::regex_search(tail, m, fr)) return m[1];
  // ThreadSanitizer prints frames without the address: "#0 func /path/file.c:12:3 (binary+0x...)"
  std::regex fr2("#[0-9]+ ([A-Za-z0-9_]+) [^\\n]*/(hwloc|include|utils)/[^\\n]*");
  if (std::regex_search(tail, m, fr2)) return m[1];
  return "?";
}
static void classify_crash(const std::string &err, int status, Outcome &o) {
  std::smatch m;
  static const std::regex as("Assertion `([^\\n]*)' failed");
  static const std::regex asfn("([A-Za-z0-9_]+)\\([^\n]*\\): Assertion `");
  static const std::regex asan("ERROR: AddressSanitizer: ([A-Za-z0-9_-]+)");
  static const std::regex ubsan("([A-Za-z0-9_.+-]+):[0-9]+:[0-9]+: runtime error: ([^\\n]*)");
  static const std::regex lsan("ERROR: LeakSanitizer: detected memory leaks");
  static const std::regex tsan("(?:WARNING|ERROR): ThreadSanitizer: ([A-Za-z -]+[A-Za-z])");
  if (std::regex_search(err, m, tsan)) {
    std::string kind = m[1]; for (auto &ch : kind) if (ch == ' ') ch = '-';
    o.signature = "tsan:" + kind + ":" + first_hwloc_frame(err, m.position(0));
    o.msg = err.substr(m.position(0), 4000); return;
  } else if (std::regex_search(err, m, as)) {
    std::string expr = m[1]; std::string fn = "?"; std::smatch m2; if (std::regex_search(err, m2, asfn)) fn = m2[1];
    o.signature = "assert:" + fn + ":" + expr;
  } else if (std::regex_search(err, m, asan)) {
    o.signature = "asan:" + std::string(m[1]) + ":" + first_hwloc_frame(err, m.position(0));
  } else if (std::regex_search(err, m, ubsan)) {
    o.signature = "ubsan:" + std::string(m[1]) + ":" + strip_digits(m[2]);
  } else if (std::regex_search(err, m, lsan)) {
    o.signature = "leak:" + first_hwloc_frame(err, m.position(0));
  } else if (WIFSIGNALED(status)) {
    o.signature = strf("signal:%d", WTERMSIG(status));
  } else {
    o.signature = strf("exit:%d", WEXITSTATUS(status));
  }
  // keep the informative part of stderr
  size_t p = err.find("ERROR: "); if (p == std::string::npos) p = err.find("runtime error"); if (p == std::string::npos) p = err.find("Assertion");
  if (p == std::string::npos) p = err.size() > 1500 ? err.size() - 1500 : 0; else p = p > 200 ? p - 200 : 0;
  o.msg = err.substr(p, 3000);
}

static std::string g_errfile;
static uint64_t g_forks = 0;

static Outcome evaluate(const Tape &t, unsigned cpu_limit) {
  Outcome o;
  memset(g_shm, 0, offsetof(Shm, desc) + 1); g_shm->attempt[0] = 0; g_shm->failrule[0] = 0; g_shm->failmsg[0] = 0;
  g_forks++;
  fflush(stdout); fflush(stderr);
  pid_t pid = fork();
  if (pid < 0) { perror("fork"); exit(3); }
  if (pid == 0) {
    int fd = open(g_errfile.c_str(), O_WRONLY | O_CREAT | O_TRUNC, 0644);
    if (fd >= 0) { dup2(fd, 2); close(fd); }
    int nul = open("/dev/null", O_WRONLY); if (nul >= 0) { dup2(nul, 1); close(nul); }
    struct rlimit rl; rl.rlim_cur = cpu_limit; rl.rlim_max = cpu_limit + 2; setrlimit(RLIMIT_CPU, &rl);
    struct rlimit core = {0, 0}; setrlimit(RLIMIT_CORE, &core);
    if (g_cfg.wall_limit_s) alarm(g_cfg.wall_limit_s);   // blocked threads burn no CPU: the CPU limit alone would never fire
    Case c; c.head.v = &t.head; c.ops.resize(t.ops.size());
    for (size_t i = 0; i < t.ops.size(); i++) c.ops[i].v = &t.ops[i];
    if (!t.named.empty()) {
      c.desc("named case " + t.named + ": ");
      if (!h_named || !h_named(t.named, c)) c.fail("named", "unknown named case %s", t.named.c_str());
    } else h_run(c);
    if (g_cfg.leak_check && __lsan_do_recoverable_leak_check()) {
      snprintf(g_shm->failrule, sizeof g_shm->failrule, "leak");
      _exit(43);
    }
    _exit(0);
  }
  int status = 0;
  while (waitpid(pid, &status, 0) < 0 && errno == EINTR) {}
  if (h_after_case_parent) h_after_case_parent();
  if (WIFEXITED(status) && WEXITSTATUS(status) == 0) { o.kind = g_shm->discarded ? Outcome::DISCARD : Outcome::OK; return o; }
  if (WIFSIGNALED(status) && (WTERMSIG(status) == SIGXCPU || WTERMSIG(status) == SIGKILL || (g_cfg.wall_limit_s && WTERMSIG(status) == SIGALRM))) { o.kind = Outcome::TIMEOUT; o.signature = "hang"; o.msg = "CPU limit exceeded"; return o; }
  o.kind = Outcome::FAIL;
  if (g_shm->attempt[0]) { Case tmp; tmp.desc(std::string("\n [died or failed during: ") + g_shm->attempt + "]"); }
  if (WIFEXITED(status) && WEXITSTATUS(status) == 1 && g_shm->failrule[0]) {
    o.signature = std::string("oracle:") + g_shm->failrule; o.msg = g_shm->failmsg; return o;
  }
  std::string err = read_file(g_errfile);
  classify_crash(err, status, o);
  if (WIFEXITED(status) && WEXITSTATUS(status) == 43 && o.signature.compare(0, 5, "leak:") != 0) o.signature = "leak:?";
  return o;
}

// ---------------------------------------------------------------------------------------------------------
static std::string json_escape(const std::string &s) {
  std::string r; char b[8];
  for (unsigned char ch : s) {
    switch (ch) { case '"': r += "\\\""; break; case '\\': r += "\\\\"; break; case '\n': r += "\\n"; break; case '\t': r += "\\t"; break; case '\r': r += "\\r"; break;
      default: if (ch < 0x20 || ch >= 0x7f) { snprintf(b, sizeof b, "\\u%04x", ch); r += b; } else r += (char)ch; }
  }
  return r;
}
static double now_s() { struct timespec ts; clock_gettime(CLOCK_MONOTONIC, &ts); return ts.tv_sec + ts.tv_nsec * 1e-9; }

struct Known { std::string id; std::regex re; std::string text; };

static void write_replay(const std::string &path, const Tape &t, uint64_t seed, const std::string &sig, const std::string &desc, const std::string &msg) {
  std::ofstream f(path);
  f << "# verif-replay v1 property=" << g_cfg.property << " harness=" << g_cfg.name << " seed=" << seed << "\n";
  f << "# signature: " << sig << "\n";
  std::istringstream ds(desc); std::string l; while (std::getline(ds, l)) f << "# case: " << l << "\n";
  std::istringstream ms(msg); int n = 0; while (std::getline(ms, l) && n++ < 40) f << "# msg: " << l << "\n";
  f << tape_text(t);
}

int main(int argc, char **argv) {
  h_configure(g_cfg);
  uint64_t seed = 1; long cases = 100; long max_ops = -1; std::string out, replay, failout; double budget = 0; int repeat = 1;
  std::vector<Known> known;
  for (int i = 1; i < argc; i++) {
    std::string a = argv[i]; auto next = [&]() -> std::string { return i + 1 < argc ? argv[++i] : ""; };
    if (a == "--seed") seed = strtoull(next().c_str(), 0, 10);
    else if (a == "--cases") cases = atol(next().c_str());
    else if (a == "--max-ops") max_ops = atol(next().c_str());
    else if (a == "--out") out = next();
    else if (a == "--replay") replay = next();
    else if (a == "--fail-out") failout = next();
    else if (a == "--workdir") g_workdir = next();
    else if (a == "--budget-s") budget = atof(next().c_str());
    else if (a == "--repeat") repeat = atoi(next().c_str());
    else if (a == "--known") { std::string s = next(); size_t eq = s.find('='); if (eq != std::string::npos) known.push_back({s.substr(0, eq), std::regex(s.substr(eq + 1)), s.substr(eq + 1)}); }
    else { fprintf(stderr, "unknown argument %s\n", a.c_str()); return 2; }
  }
  if (max_ops < 0) max_ops = g_cfg.max_ops;
  mkdir(g_workdir.c_str(), 0755);
  g_errfile = g_workdir + "/stderr.txt";
  g_shm = (Shm *)mmap(NULL, sizeof(Shm), PROT_READ | PROT_WRITE, MAP_SHARED | MAP_ANONYMOUS, -1, 0);
  if (g_shm == MAP_FAILED) { perror("mmap"); return 3; }
  setenv("HWLOC_DONT_ADD_VERSION_INFO", "1", 1);
  if (h_init_parent) h_init_parent();
  double t0 = now_s();

  auto match_known = [&](const Outcome &o) -> const Known * {
    for (auto &k : known) if (std::regex_search(o.signature + " :: " + o.msg, k.re)) return &k;
    return nullptr;
  };

  if (!replay.empty()) {
    Tape t; if (!tape_parse(replay, t)) { fprintf(stderr, "cannot parse %s\n", replay.c_str()); return 2; }
    int fails = 0; Outcome last; std::string desc;
    for (int r = 0; r < repeat; r++) {
      Outcome o = evaluate(t, 60); if (r == 0) desc = std::string(g_shm->desc, g_shm->desclen);
      if (o.kind == Outcome::FAIL || (o.kind == Outcome::TIMEOUT && g_cfg.hang_is_violation)) { fails++; last = o; }
      else if (o.kind == Outcome::TIMEOUT) last = o;
    }
    const Known *k = fails ? match_known(last) : nullptr;
    printf("REPLAY %s: %s%s%s\n", replay.c_str(), fails == repeat ? "FAIL" : fails ? "FLAKY" : "PASS",
           fails ? (" signature=" + last.signature).c_str() : "", k ? (" known=" + k->id).c_str() : "");
    if (fails) printf("  msg: %s\n", last.msg.substr(0, 1500).c_str());
    printf("  case: %s\n", desc.substr(0, 3000).c_str());
    if (!out.empty()) {
      std::ofstream f(out);
      f << "{\"replay\":\"" << json_escape(replay) << "\",\"verdict\":\"" << (fails == repeat ? "fail" : fails ? "flaky" : "pass") << "\",\"signature\":\""
        << json_escape(last.signature) << "\",\"known\":\"" << (k ? k->id : "") << "\",\"msg\":\"" << json_escape(last.msg.substr(0, 2000)) << "\",\"case\":\"" << json_escape(desc.substr(0, 4000)) << "\"}\n";
    }
    return fails == repeat ? 1 : 0;
  }

  // ----- generation mode -----
  std::string params = strf("seed=%llu max_success=%ld max_size=%ld max_discard_ratio=1000", (unsigned long long)seed, cases, max_ops);
  setenv("RC_PARAMS", params.c_str(), 1);

  uint64_t evaluations = 0, discarded = 0, timeouts_inconclusive = 0, skipped_budget = 0, total_checks = 0, nontrivial_total = 0;
  std::set<uint64_t> nt_hashes;
  std::map<std::string, uint64_t> classes, known_hits;
  std::vector<std::string> samples, nt_samples;
  bool failing = false; Tape fail_tape; Outcome fail_out; std::string fail_desc, first_sig; uint64_t shrink_evals = 0; double shrink_t0 = 0;

  auto elem = rc::gen::resize(100, rc::gen::inRange<uint32_t>(0, 1u << 30));
  auto headGen = rc::gen::container<std::vector<uint32_t>>(g_cfg.head_len, elem);
  auto opGen = rc::gen::container<std::vector<uint32_t>>(g_cfg.op_len, elem);
  auto opsGen = rc::gen::container<std::vector<std::vector<uint32_t>>>(opGen);

  bool ok = rc::check(std::string(g_cfg.property) + "/" + g_cfg.name, [&]() {
    Tape t; t.head = *headGen; t.ops = *opsGen;
    if (failing) {  // shrinking phase: bounded effort
      if (shrink_evals > 1500 || now_s() - shrink_t0 > 90) return;
      shrink_evals++;
    } else if (budget > 0 && now_s() - t0 > budget) { skipped_budget++; return; }
    Outcome o = evaluate(t, g_cfg.cpu_limit_s);
    std::string desc(g_shm->desc, g_shm->desclen);
    if (!failing) {
      evaluations++; total_checks += g_shm->checks;
      for (uint32_t i = 0; i < g_shm->nclasses; i++) classes[g_shm->classes[i].name] += g_shm->classes[i].n;
      if (o.kind == Outcome::DISCARD) discarded++;
      if (samples.size() < 3) samples.push_back(desc);
      if (g_shm->nontrivial && o.kind == Outcome::OK) {
        nontrivial_total++;
        if (nt_hashes.insert(fnv1a(desc.data(), desc.size())).second && (nt_samples.size() < 4 || (nontrivial_total & (nontrivial_total - 1)) == 0)) {
          if (nt_samples.size() >= 8) nt_samples.erase(nt_samples.begin() + 4);
          nt_samples.push_back(desc);
        }
      }
    }
    if (o.kind == Outcome::TIMEOUT) {
      int again = 0; for (int r = 0; r < 3; r++) { Outcome o2 = evaluate(t, 60); if (o2.kind == Outcome::TIMEOUT) again++; else { o = o2; break; } }
      if (again == 3 && g_cfg.hang_is_violation) { o.kind = Outcome::FAIL; o.signature = "hang"; o.msg = "case exceeded 60 CPU seconds three times"; }
      else if (again == 3 || o.kind == Outcome::TIMEOUT) { if (!failing) timeouts_inconclusive++; return; }
    }
    if (o.kind != Outcome::FAIL) return;
    if (const Known *k = match_known(o)) { if (!failing) known_hits[k->id]++; return; }
    if (failing && o.signature != first_sig) return;  // shrink only within the same failure
    if (!failing) { failing = true; first_sig = o.signature; shrink_t0 = now_s(); }
    fail_tape = t; fail_out = o; fail_desc = desc;
    RC_FAIL(o.signature + ": " + o.msg.substr(0, 400));
  });

  // confirm the shrunk failure three times in fresh children
  bool violation = false; std::string verdict = "none";
  if (!ok && failing) {
    // A memory error may be reported at another access when the same case runs in a child of a parent with a different heap history, so
    // the three confirmations count any failure that is not a listed finding; the signature they agree on is the one reported.
    int f = 0, known3 = 0; Outcome last; for (int r = 0; r < 3; r++) { Outcome o = evaluate(fail_tape, 60); if (o.kind == Outcome::FAIL && match_known(o)) known3++; else if (o.kind == Outcome::FAIL || (o.kind == Outcome::TIMEOUT && fail_out.signature == "hang")) { f++; if (o.kind == Outcome::FAIL) last = o; } }
    violation = (f == 3); verdict = violation ? "confirmed" : known3 == 3 ? "known" : "flaky";
    if (violation && last.kind == Outcome::FAIL && last.signature != fail_out.signature) { last.msg = "(first seen as " + fail_out.signature + ") " + last.msg; fail_out = last; }
    if (!failout.empty()) write_replay(failout, fail_tape, seed, fail_out.signature, fail_desc, fail_out.msg);
  }
  double wall = now_s() - t0;
  if (!out.empty()) {
    std::ofstream f(out);
    f << "{\n \"property\":\"" << g_cfg.property << "\",\"harness\":\"" << g_cfg.name << "\",\"seed\":" << seed << ",\n";
    f << " \"rule\":\"" << json_escape(g_cfg.rule) << "\",\n";
    f << " \"evaluations\":" << evaluations << ",\"nontrivial\":" << nontrivial_total << ",\"discarded\":" << discarded << ",\"oracle_checks\":" << total_checks
      << ",\"timeouts_inconclusive\":" << timeouts_inconclusive << ",\"skipped_budget\":" << skipped_budget << ",\"forks\":" << g_forks << ",\"wall_s\":" << wall << ",\n";
    f << " \"nt_hashes\":["; { bool first = true; for (auto h : nt_hashes) { f << (first ? "" : ",") << "\"" << std::hex << h << std::dec << "\""; first = false; } } f << "],\n";
    f << " \"classes\":{"; { bool first = true; for (auto &kv : classes) { f << (first ? "" : ",") << "\"" << json_escape(kv.first) << "\":" << kv.second; first = false; } } f << "},\n";
    f << " \"known_hits\":{"; { bool first = true; for (auto &kv : known_hits) { f << (first ? "" : ",") << "\"" << json_escape(kv.first) << "\":" << kv.second; first = false; } } f << "},\n";
    f << " \"samples\":["; { bool first = true; for (auto &s : samples) { f << (first ? "" : ",") << "\"" << json_escape(s.substr(0, 2500)) << "\""; first = false; } for (auto &s : nt_samples) { f << (first ? "" : ",") << "\"" << json_escape(s.substr(0, 2500)) << "\""; first = false; } } f << "],\n";
    f << " \"failure\":";
    if (failing) f << "{\"verdict\":\"" << verdict << "\",\"signature\":\"" << json_escape(fail_out.signature) << "\",\"msg\":\"" << json_escape(fail_out.msg.substr(0, 3000)) << "\",\"case\":\"" << json_escape(fail_desc.substr(0, 6000)) << "\",\"replay\":\"" << json_escape(failout) << "\",\"shrink_evals\":" << shrink_evals << "}";
    else f << "null";
    f << "\n}\n";
  }
  fprintf(stderr, "[%s/%s seed=%llu] evaluations=%llu nontrivial=%llu distinct=%zu discarded=%llu known=%zu wall=%.1fs %s\n", g_cfg.property, g_cfg.name,
          (unsigned long long)seed, (unsigned long long)evaluations, (unsigned long long)nontrivial_total, nt_hashes.size(), (unsigned long long)discarded, known_hits.size(), wall,
          failing ? ("FAIL(" + verdict + ") " + fail_out.signature).c_str() : "ok");
  return violation ? 1 : 0;
}
