// Read-only battery for a loaded topology (DESIGN.md C06 stage 2): every call must be safe and terminate.
#pragma once
#include "snap.hpp"
#include <hwloc.h>

typedef void (*battery_fail_t)(const char *rule, const char *msg);

static void run_battery(hwloc_topology_t t, battery_fail_t failcb) {
  auto FAILB = [&](const char *rule, const std::string &m) { failcb(rule, m.c_str()); };
  hwloc_topology_check(t);
  auto objs = all_objs(t);
  static const unsigned long flagwords[] = {0, HWLOC_OBJ_SNPRINTF_FLAG_LONG_NAMES, HWLOC_OBJ_SNPRINTF_FLAG_SHORT_NAMES, HWLOC_OBJ_SNPRINTF_FLAG_MORE_ATTRS | HWLOC_OBJ_SNPRINTF_FLAG_NO_UNITS, HWLOC_OBJ_SNPRINTF_FLAG_UNITS_1000 | HWLOC_OBJ_SNPRINTF_FLAG_OLD_VERBOSE, 0x3f};
  size_t n = 0;
  for (auto o : objs) {
    if (++n > 600) break;
    for (unsigned long fl : flagwords) {
      char big[2048], small[7];
      int need = hwloc_obj_type_snprintf(NULL, 0, o, fl); int r2 = hwloc_obj_type_snprintf(big, sizeof big, o, fl); int r3 = hwloc_obj_type_snprintf(small, sizeof small, o, fl);
      if (need < 0 || r2 != need || r3 != need || (need < (int)sizeof big && (int)strlen(big) != need) || strlen(small) >= sizeof small) FAILB("battery_type_snprintf", strf("type_snprintf lengths %d/%d/%d flags 0x%lx on %s", need, r2, r3, fl, hwloc_obj_type_string(o->type)));
      need = hwloc_obj_attr_snprintf(NULL, 0, o, ", ", fl); r2 = hwloc_obj_attr_snprintf(big, sizeof big, o, ", ", fl); r3 = hwloc_obj_attr_snprintf(small, sizeof small, o, ", ", fl);
      if (need < 0 || r2 != need || r3 != need || strlen(small) >= sizeof small) FAILB("battery_attr_snprintf", strf("attr_snprintf lengths %d/%d/%d flags 0x%lx on %s", need, r2, r3, fl, hwloc_obj_type_string(o->type)));
    }
    if (o->cpuset) { (void)hwloc_get_obj_covering_cpuset(t, o->cpuset); hwloc_obj_t arr[4]; (void)hwloc_get_largest_objs_inside_cpuset(t, o->cpuset, arr, 4); }
    if (o->type == HWLOC_OBJ_PCI_DEVICE || o->type == HWLOC_OBJ_OS_DEVICE) (void)hwloc_get_non_io_ancestor_obj(t, o);
  }
  (void)dump_topology(t);   // distances get/release, memattr targets/initiators/values, cpukinds, infos, support
  for (hwloc_memattr_id_t id = 0; id < 16; id++) { const char *nm; if (hwloc_memattr_get_name(t, id, &nm) < 0) break; struct hwloc_location loc; loc.type = HWLOC_LOCATION_TYPE_CPUSET; loc.location.cpuset = hwloc_get_root_obj(t)->cpuset; hwloc_obj_t best; hwloc_uint64_t v; (void)hwloc_memattr_get_best_target(t, id, &loc, 0, &best, &v); }
  { struct hwloc_location loc; loc.type = HWLOC_LOCATION_TYPE_OBJECT; loc.location.object = hwloc_get_root_obj(t); unsigned nr = 8; hwloc_obj_t nodes[8]; (void)hwloc_get_local_numanode_objs(t, &loc, &nr, nodes, HWLOC_LOCAL_NUMANODE_FLAG_SMALLER_LOCALITY); hwloc_bitmap_t ns = hwloc_bitmap_alloc(); (void)hwloc_topology_get_default_nodeset(t, ns, 0); hwloc_bitmap_free(ns); }
  for (unsigned long xf : {0UL, (unsigned long)HWLOC_TOPOLOGY_EXPORT_XML_FLAG_V2}) { char *x = NULL; int l = 0; if (hwloc_topology_export_xmlbuffer(t, &x, &l, xf) == 0) { if ((int)strlen(x) + 1 != l) FAILB("battery_export", "XML export length mismatch"); hwloc_free_xmlbuffer(t, x); } }
  for (unsigned long sf = 0; sf < 16; sf += 5) { char buf[4096]; (void)hwloc_topology_export_synthetic(t, buf, sizeof buf, sf); char tiny[5]; (void)hwloc_topology_export_synthetic(t, tiny, sizeof tiny, sf); }
  hwloc_topology_t cp = NULL; if (hwloc_topology_dup(&cp, t) == 0) { hwloc_topology_check(cp); hwloc_topology_destroy(cp); } else FAILB("battery_dup", "dup of a loaded topology failed");
}
