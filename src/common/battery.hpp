// Read-only battery for a loaded topology (DESIGN.md C06 stage 2): every call must be safe and terminate.
#pragma once
#include "snap.hpp"
#include <hwloc.h>

typedef void (*battery_fail_t)(const char *rule, const char *msg);

static void run_battery(hwloc_topology_t t, battery_fail_t failcb) {
  auto FAILB = [&](const char *rule, const std::string &m) { failcb(rule, m.c_str()); };
  hwloc_topology_check(t);
  auto objs = all_objs(t);
  static const unsigned long flagwords[] = {0, HWLOC_OBJ_SNPRINTF_FLAG_LONG_NAMES, HWLOC_OBJ_SNPRINTF_FLAG_SHORT_NAMES, HWLOC_OBJ_SNPRINTF_FLAG_MORE_ATTRS | HWLOC_OBJ_SNPRINTF_FLAG_NO_UNITS, HWLOC_OBJ_SNPRINTF_FLAG_UNITS_1000 | HWLOC_OBJ_SNPRINTF_FLAG_OLD_VERBOSE, 0x3f};
  size_t n = 0;
  for (auto o : objs) {
    if (++n > 600) break;
    for (unsigned long fl : flagwords) {
      char big[2048], small[7];
      int need = hwloc_obj_type_snprintf(NULL, 0, o, fl); int r2 = hwloc_obj_type_snprintf(big, sizeof big, o, fl); int r3 = hwloc_obj_type_snprintf(small, sizeof small, o, fl);
      if (need < 0 || r2 != need || r3 != need || (need < (int)sizeof big && (int)strlen(big) != need) || strlen(small) >= sizeof small) FAILB("battery_type_snprintf", strf("type_snprintf lengths %d/%d/%d flags 0x%lx on %s", need, r2, r3, fl, hwloc_obj_type_string(o->type)));
      need = hwloc_obj_attr_snprintf(NULL, 0, o, ", ", fl); r2 = hwloc_obj_attr_snprintf(big, sizeof big, o, ", ", fl); r3 = hwloc_obj_attr_snprintf(small, sizeof small, o, ", ", fl);
      if (need < 0 || r2 != need || r3 != need || strlen(small) >= sizeof small) FAILB("battery_attr_snprintf", strf("attr_snprintf lengths %d/%d/%d flags 0x%lx on %s", need, r2, r3, fl, hwloc_obj_type_string(o->type)));
    }
    if (o->cpuset) { (void)hwloc_get_obj_covering_cpuset(t, o->cpuset); hwloc_obj_t arr[4]; (void)hwloc_get_largest_objs_inside_cpuset(t, o->cpuset, arr, 4); }
    if (o->type == HWLOC_OBJ_PCI_DEVICE || o->type == HWLOC_OBJ_OS_DEVICE) (void)hwloc_get_non_io_ancestor_obj(t, o);
  }
  (void)dump_topology(t);   // distances get/release, memattr targets/initiators/values, cpukinds, infos, support
  for (hwloc_memattr_id_t id = 0; id < 16; id++) { const char *nm; if (hwloc_memattr_get_name(t, id, &nm) < 0) break; struct hwloc_location loc; loc.type = HWLOC_LOCATION_TYPE_CPUSET; loc.location.cpuset = hwloc_get_root_obj(t)->cpuset; hwloc_obj_t best; hwloc_uint64_t v; (void)hwloc_memattr_get_best_target(t, id, &loc, 0, &best, &v); }
  { struct hwloc_location loc; loc.type = HWLOC_LOCATION_TYPE_OBJECT; loc.location.object = hwloc_get_root_obj(t); unsigned nr = 8; hwloc_obj_t nodes[8]; (void)hwloc_get_local_numanode_objs(t, &loc, &nr, nodes, HWLOC_LOCAL_NUMANODE_FLAG_SMALLER_LOCALITY); hwloc_bitmap_t ns = hwloc_bitmap_alloc(); (void)hwloc_topology_get_default_nodeset(t, ns, 0); hwloc_bitmap_free(ns); }
  for (unsigned long xf : {0UL, (unsigned long)HWLOC_TOPOLOGY_EXPORT_XML_FLAG_V2}) { char *x = NULL; int l = 0; if (hwloc_topology_export_xmlbuffer(t, &x, &l, xf) == 0) { if ((int)strlen(x) + 1 != l) FAILB("battery_export", "XML export length mismatch"); hwloc_free_xmlbuffer(t, x); } }
  for (unsigned long sf = 0; sf < 16; sf += 5) { char buf[4096]; (void)hwloc_topology_export_synthetic(t, buf, sizeof buf, sf); char tiny[5]; (void)hwloc_topology_export_synthetic(t, tiny, sizeof tiny, sf); }
  hwloc_topology_t cp = NULL; if (hwloc_topology_dup(&cp, t) == 0) { hwloc_topology_check(cp); hwloc_topology_destroy(cp); } else FAILB("battery_dup", "dup of a loaded topology failed");
}

// A document that exercises every optional section of the importer (distances, memory attributes, CPU kinds, Misc, infos): used to
// load a topology again after a failed load -- state left behind by the failed import (array capacities, list tails, ids) shows up here.
static const std::string &rich_xml() {
  static std::string x;
  if (!x.empty()) return x;
  hwloc_topology_t t; hwloc_topology_init(&t); hwloc_topology_set_type_filter(t, HWLOC_OBJ_MISC, HWLOC_TYPE_FILTER_KEEP_ALL); hwloc_topology_set_synthetic(t, "pack:2 [numa] core:2 pu:2"); hwloc_topology_load(t);
  hwloc_bitmap_t b = hwloc_bitmap_alloc(); hwloc_bitmap_set_range(b, 0, 3); struct hwloc_info_s inf; inf.name = (char *)"kind"; inf.value = (char *)"little"; struct hwloc_infos_s infs; infs.array = &inf; infs.count = 1; infs.allocated = 1; hwloc_cpukinds_register(t, b, 1, &infs, 0);
  hwloc_bitmap_zero(b); hwloc_bitmap_set_range(b, 4, 7); hwloc_cpukinds_register(t, b, 2, NULL, 0); hwloc_bitmap_free(b);
  hwloc_obj_t objs[4]; hwloc_uint64_t vals[16]; for (int i = 0; i < 4; i++) objs[i] = hwloc_get_obj_by_type(t, HWLOC_OBJ_CORE, i); for (int i = 0; i < 16; i++) vals[i] = (i / 4 == i % 4) ? 10 : 20 + i;
  hwloc_distances_add_handle_t h = hwloc_distances_add_create(t, "rich", HWLOC_DISTANCES_KIND_FROM_USER | HWLOC_DISTANCES_KIND_VALUE_LATENCY, 0); if (h && hwloc_distances_add_values(t, h, 4, objs, vals, 0) == 0) hwloc_distances_add_commit(t, h, 0);
  hwloc_memattr_id_t id; if (hwloc_memattr_register(t, "richattr", HWLOC_MEMATTR_FLAG_HIGHER_FIRST | HWLOC_MEMATTR_FLAG_NEED_INITIATOR, &id) == 0) { struct hwloc_location loc; loc.type = HWLOC_LOCATION_TYPE_CPUSET; loc.location.cpuset = hwloc_get_obj_by_type(t, HWLOC_OBJ_PACKAGE, 0)->cpuset; hwloc_memattr_set_value(t, id, hwloc_get_obj_by_type(t, HWLOC_OBJ_NUMANODE, 0), &loc, 0, 77); hwloc_memattr_set_value(t, id, hwloc_get_obj_by_type(t, HWLOC_OBJ_NUMANODE, 1), &loc, 0, 99); }
  hwloc_topology_insert_misc_object(t, hwloc_get_root_obj(t), "richmisc"); hwloc_obj_add_info(hwloc_get_root_obj(t), "richinfo", "v");
  char *buf = NULL; int len = 0; if (hwloc_topology_export_xmlbuffer(t, &buf, &len, 0) == 0) { x.assign(buf, strlen(buf)); hwloc_free_xmlbuffer(t, buf); }
  hwloc_topology_destroy(t); return x;
}
// After hwloc_topology_load() failed on `t`: the topology may be configured and loaded again (variant 0: a synthetic description; 1: the
// rich document through the buffer API; 2: the rich document with every type kept and the sections counted).
static void reload_after_failure(hwloc_topology_t t, unsigned variant, battery_fail_t failcb) {
  if (variant % 3 == 0) {
    if (hwloc_topology_set_synthetic(t, "pack:2 core:2 pu:2") != 0) failcb("reconfigure_after_failure", "set_synthetic after a failed XML load failed");
    if (hwloc_topology_load(t) != 0) failcb("reload_after_failure", "load after a failed XML load failed");
  } else {
    const std::string &x = rich_xml();
    if (variant % 3 == 2) hwloc_topology_set_all_types_filter(t, HWLOC_TYPE_FILTER_KEEP_ALL);
    if (hwloc_topology_set_xmlbuffer(t, x.c_str(), (int)x.size() + 1) != 0) failcb("reconfigure_after_failure", "set_xmlbuffer of a valid document after a failed XML load failed");
    if (hwloc_topology_load(t) != 0) failcb("reload_after_failure", "load of a valid document after a failed XML load failed");
    unsigned long fl = hwloc_topology_get_flags(t);
    if (!(fl & HWLOC_TOPOLOGY_FLAG_NO_CPUKINDS) && hwloc_cpukinds_get_nr(t, 0) != 2) failcb("reload_after_failure", strf("the document reloaded after a failed load has %d CPU kinds instead of 2", hwloc_cpukinds_get_nr(t, 0)).c_str());
    if (!(fl & HWLOC_TOPOLOGY_FLAG_NO_DISTANCES)) { unsigned nr = 0; hwloc_distances_get(t, &nr, NULL, 0, 0); if (nr != 1) failcb("reload_after_failure", strf("the document reloaded after a failed load has %u distances structures instead of 1", nr).c_str()); }
    if (!(fl & HWLOC_TOPOLOGY_FLAG_NO_MEMATTRS)) { hwloc_memattr_id_t id; if (hwloc_memattr_get_by_name(t, "richattr", &id) != 0) failcb("reload_after_failure", "the document reloaded after a failed load lost its custom memory attribute"); }
    (void)dump_topology(t);
  }
}

// The importer validates a few things object by object before inserting (XML anchors: "type vs parent ... cache attrs"): a normal or I/O object
// below a memory object, a Machine that is not the root, cache attributes that contradict the cache type.  A document that loads although
// it breaks one of these is not the cross-object inconsistency of finding F-C06-h: the importer's own check is gone.
static const char *importer_validated_rule(const WFError &e) {
  static const char *rules[] = {"memory obj with io children", "memory obj with normal children", "Machine not root", "cache attr mismatch", "icache attr mismatch", "PU cpuset != {os_index}", "NUMA nodeset != {os_index}"};   // (the last two: the import of every PU / NUMA node object checks its own set against its os_index)
  for (auto &m : e.msgs) for (const char *r : rules) if (m.compare(0, strlen(r), r) == 0) return r;
  return NULL;
}
