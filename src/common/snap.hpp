// Canonical snapshot of a topology through the public API (DESIGN.md 3.3).
//  * TSnap / ORec : per-object records keyed by gp_index, for before/after relations (C08, C13-C15)
//  * dump_topology(): canonical text, for equality oracles (C02 "unchanged", C05, C12, C16, C19); first differing line is the message
#pragma once
#include "engine.h"
#include "wf.hpp"
#include <hwloc.h>
#include <algorithm>
#include <cmath>

struct ORec { uint64_t gp; hwloc_obj_type_t type; unsigned os; USet cs,ccs,ns,cns; bool hassets; uint64_t parent_gp; int depth; std::string name, subtype; uint64_t localmem; std::vector<uint64_t> normal, memory, io, misc; void *userdata; };
struct TSnap { std::map<uint64_t,ORec> objs; USet acs, ans; uint64_t root_gp; int topodepth; std::vector<hwloc_obj_type_t> level_types; std::vector<std::vector<uint64_t>> levels; };
static void snap_obj(hwloc_obj_t o, TSnap &s) { ORec r; r.gp=o->gp_index; r.type=o->type; r.os=o->os_index; r.hassets = o->cpuset!=NULL; if (r.hassets) { to_uset(o->cpuset,r.cs); to_uset(o->complete_cpuset,r.ccs); to_uset(o->nodeset,r.ns); to_uset(o->complete_nodeset,r.cns);} r.parent_gp = o->parent?o->parent->gp_index:0; r.depth=o->depth; r.name=o->name?o->name:"\x01"; r.subtype=o->subtype?o->subtype:"\x01"; r.localmem = o->type==HWLOC_OBJ_NUMANODE?o->attr->numanode.local_memory:0; r.userdata=o->userdata;
  for (hwloc_obj_t c=o->first_child;c;c=c->next_sibling){ r.normal.push_back(c->gp_index); snap_obj(c,s);} for (hwloc_obj_t c=o->memory_first_child;c;c=c->next_sibling){ r.memory.push_back(c->gp_index); snap_obj(c,s);} for (hwloc_obj_t c=o->io_first_child;c;c=c->next_sibling){ r.io.push_back(c->gp_index); snap_obj(c,s);} for (hwloc_obj_t c=o->misc_first_child;c;c=c->next_sibling){ r.misc.push_back(c->gp_index); snap_obj(c,s);} s.objs[r.gp]=r; }
static TSnap take_snap(hwloc_topology_t t){ TSnap s; hwloc_obj_t root=hwloc_get_root_obj(t); s.root_gp=root->gp_index; snap_obj(root,s); to_uset(hwloc_topology_get_allowed_cpuset(t),s.acs); to_uset(hwloc_topology_get_allowed_nodeset(t),s.ans); s.topodepth=hwloc_topology_get_depth(t);
  for (int d=0; d<s.topodepth; d++){ s.level_types.push_back(hwloc_get_depth_type(t,d)); std::vector<uint64_t> l; for (unsigned i=0;i<hwloc_get_nbobjs_by_depth(t,d);i++) l.push_back(hwloc_get_obj_by_depth(t,d,i)->gp_index); s.levels.push_back(l);} return s; }
static USet inter(const USet&a,const USet&b){ USet r; for(auto x:a) if(b.count(x)) r.insert(x); return r; }
static USet minus(const USet&a,const USet&b){ USet r; for(auto x:a) if(!b.count(x)) r.insert(x); return r; }
static USet uni(const USet&a,const USet&b){ USet r=a; r.insert(b.begin(),b.end()); return r; }

static void walk_objs(hwloc_obj_t o, std::vector<hwloc_obj_t> &v) {
  v.push_back(o);
  for (hwloc_obj_t c=o->first_child;c;c=c->next_sibling) walk_objs(c,v);
  for (hwloc_obj_t c=o->memory_first_child;c;c=c->next_sibling) walk_objs(c,v);
  for (hwloc_obj_t c=o->io_first_child;c;c=c->next_sibling) walk_objs(c,v);
  for (hwloc_obj_t c=o->misc_first_child;c;c=c->next_sibling) walk_objs(c,v);
}
static std::vector<hwloc_obj_t> all_objs(hwloc_topology_t t) { std::vector<hwloc_obj_t> v; walk_objs(hwloc_get_root_obj(t), v); return v; }

// ---- text dump -------------------------------------------------------------------------------------------
enum { DUMP_GP = 1, DUMP_USERDATA = 2, DUMP_SUPPORT = 4, DUMP_CONFIG = 8, DUMP_EXTRAS = 16 /* distances, memattrs, cpukinds */, DUMP_ALL = 31 };

static std::string bstr(hwloc_const_bitmap_t b) { if (!b) return "(null)"; char *s = NULL; hwloc_bitmap_list_asprintf(&s, b); std::string r = s ? s : "?"; free(s); return "{" + r + "}"; }
static std::string fstr(double x) { char b[64]; snprintf(b, sizeof b, "%.4f", x); return b; }  // XML prints floats with %f: 1e-4 granularity is the stated tolerance

static void dump_infos(std::ostringstream &o, const struct hwloc_infos_s *infos) {
  for (unsigned i = 0; i < infos->count; i++) o << " info[" << qstr(infos->array[i].name) << "=" << qstr(infos->array[i].value) << "]";
}
static std::string objref(hwloc_obj_t x, unsigned what) { if (!x) return "NULL"; std::ostringstream o; o << hwloc_obj_type_string(x->type) << "#"; if (what & DUMP_GP) o << "gp" << x->gp_index; else o << "L" << x->logical_index; return o.str(); }

static void dump_obj(std::ostringstream &o, hwloc_obj_t x, int indent, unsigned what) {
  o << std::string(indent, ' ') << hwloc_obj_type_string(x->type) << " L" << x->logical_index << " os=" << (int)x->os_index;
  if (what & DUMP_GP) o << " gp=" << x->gp_index;
  o << " depth=" << x->depth << " rank=" << x->sibling_rank << " name=" << qstr(x->name) << " subtype=" << qstr(x->subtype);
  if (x->cpuset) o << " cs=" << bstr(x->cpuset) << " ccs=" << bstr(x->complete_cpuset) << " ns=" << bstr(x->nodeset) << " cns=" << bstr(x->complete_nodeset);
  o << " totalmem=" << x->total_memory << " sym=" << x->symmetric_subtree;
  if (what & DUMP_USERDATA) o << " ud=" << x->userdata;
  if (x->attr) switch (x->type) {
    case HWLOC_OBJ_NUMANODE: o << " localmem=" << x->attr->numanode.local_memory << " pagetypes=" << x->attr->numanode.page_types_len;
      for (unsigned i = 0; i < x->attr->numanode.page_types_len; i++) o << "(" << x->attr->numanode.page_types[i].size << "x" << x->attr->numanode.page_types[i].count << ")"; break;
    case HWLOC_OBJ_L1CACHE: case HWLOC_OBJ_L2CACHE: case HWLOC_OBJ_L3CACHE: case HWLOC_OBJ_L4CACHE: case HWLOC_OBJ_L5CACHE: case HWLOC_OBJ_L1ICACHE: case HWLOC_OBJ_L2ICACHE: case HWLOC_OBJ_L3ICACHE: case HWLOC_OBJ_MEMCACHE:
      o << " cache(size=" << x->attr->cache.size << ",depth=" << x->attr->cache.depth << ",line=" << x->attr->cache.linesize << ",assoc=" << x->attr->cache.associativity << ",type=" << enum_int(&x->attr->cache.type) << ")"; break;
    case HWLOC_OBJ_GROUP: o << " group(depth=" << x->attr->group.depth << ",kind=" << x->attr->group.kind << ",subkind=" << x->attr->group.subkind << ",dont_merge=" << (int)x->attr->group.dont_merge << ")"; break;
    case HWLOC_OBJ_PCI_DEVICE: o << " pci(" << x->attr->pcidev.domain << ":" << (int)x->attr->pcidev.bus << ":" << (int)x->attr->pcidev.dev << "." << (int)x->attr->pcidev.func << " class=" << x->attr->pcidev.class_id << " ids=" << x->attr->pcidev.vendor_id << ":" << x->attr->pcidev.device_id << ":" << x->attr->pcidev.subvendor_id << ":" << x->attr->pcidev.subdevice_id << " rev=" << (int)x->attr->pcidev.revision << " link=" << fstr(x->attr->pcidev.linkspeed) << ")"; break;
    case HWLOC_OBJ_BRIDGE: o << " bridge(up=" << enum_int(&x->attr->bridge.upstream_type) << ",down=" << enum_int(&x->attr->bridge.downstream_type) << ",depth=" << x->attr->bridge.depth;
      if (enum_int(&x->attr->bridge.upstream_type) == HWLOC_OBJ_BRIDGE_PCI) o << ",uppci=" << x->attr->bridge.upstream.pci.domain << ":" << (int)x->attr->bridge.upstream.pci.bus << ":" << (int)x->attr->bridge.upstream.pci.dev << "." << (int)x->attr->bridge.upstream.pci.func << " link=" << fstr(x->attr->bridge.upstream.pci.linkspeed);
      if (enum_int(&x->attr->bridge.downstream_type) == HWLOC_OBJ_BRIDGE_PCI) o << ",down=" << x->attr->bridge.downstream.pci.domain << ":" << (int)x->attr->bridge.downstream.pci.secondary_bus << "-" << (int)x->attr->bridge.downstream.pci.subordinate_bus;
      o << ")"; break;
    case HWLOC_OBJ_OS_DEVICE: o << " osdev(types=" << x->attr->osdev.types << ")"; break;
    default: break;
  }
  dump_infos(o, &x->infos);
  o << " arity=" << x->arity << "/" << x->memory_arity << "/" << x->io_arity << "/" << x->misc_arity << "\n";
  for (hwloc_obj_t c=x->memory_first_child;c;c=c->next_sibling) dump_obj(o,c,indent+1,what);
  for (hwloc_obj_t c=x->first_child;c;c=c->next_sibling) dump_obj(o,c,indent+1,what);
  for (hwloc_obj_t c=x->io_first_child;c;c=c->next_sibling) dump_obj(o,c,indent+1,what);
  for (hwloc_obj_t c=x->misc_first_child;c;c=c->next_sibling) dump_obj(o,c,indent+1,what);
}

static std::string dump_distances(hwloc_topology_t t, unsigned what) {
  std::vector<std::string> entries;
  unsigned nr = 0; hwloc_distances_get(t, &nr, NULL, 0, 0);
  std::vector<struct hwloc_distances_s *> ds(nr ? nr : 1); unsigned n2 = nr; if (nr) hwloc_distances_get(t, &n2, ds.data(), 0, 0);
  for (unsigned i = 0; i < nr && i < n2; i++) {
    std::ostringstream o; const char *nm = hwloc_distances_get_name(t, ds[i]);
    o << "distances name=" << qstr(nm) << " kind=" << ds[i]->kind << " nbobjs=" << ds[i]->nbobjs << " objs=";
    for (unsigned k = 0; k < ds[i]->nbobjs; k++) o << objref(ds[i]->objs[k], what) << ",";
    o << " values="; for (unsigned k = 0; k < ds[i]->nbobjs * ds[i]->nbobjs; k++) o << ds[i]->values[k] << ",";
    entries.push_back(o.str()); hwloc_distances_release(t, ds[i]);
  }
  std::sort(entries.begin(), entries.end());  // XML export reorders homogeneous before heterogeneous matrices (pitfall 9.2): compare as a multiset
  std::string r; for (auto &e : entries) r += e + "\n"; return r;
}
static std::string locstr(const struct hwloc_location &l, unsigned what) { if (l.type == HWLOC_LOCATION_TYPE_CPUSET) return "cpuset" + bstr(l.location.cpuset); return "obj " + objref(l.location.object, what); }
static std::string dump_memattrs(hwloc_topology_t t, unsigned what) {
  std::ostringstream o;
  for (hwloc_memattr_id_t id = 0; id < 64; id++) {
    const char *name = NULL; if (hwloc_memattr_get_name(t, id, &name) < 0) break;
    unsigned long fl = 0; hwloc_memattr_get_flags(t, id, &fl);
    o << "memattr " << id << " name=" << qstr(name) << " flags=" << fl << "\n";
    unsigned nt = 0; hwloc_memattr_get_targets(t, id, NULL, 0, &nt, NULL, NULL);
    std::vector<hwloc_obj_t> tg(nt ? nt : 1); std::vector<hwloc_uint64_t> tv(nt ? nt : 1); unsigned nt2 = nt; if (nt) hwloc_memattr_get_targets(t, id, NULL, 0, &nt2, tg.data(), tv.data());
    std::vector<std::string> lines;
    for (unsigned i = 0; i < nt && i < nt2; i++) {
      std::ostringstream l; l << " target " << objref(tg[i], what);
      if (fl & HWLOC_MEMATTR_FLAG_NEED_INITIATOR) {
        unsigned ni = 0; hwloc_memattr_get_initiators(t, id, tg[i], 0, &ni, NULL, NULL);
        std::vector<struct hwloc_location> in(ni ? ni : 1); std::vector<hwloc_uint64_t> iv(ni ? ni : 1); unsigned ni2 = ni; if (ni) hwloc_memattr_get_initiators(t, id, tg[i], 0, &ni2, in.data(), iv.data());
        std::vector<std::string> il; for (unsigned k = 0; k < ni && k < ni2; k++) { std::ostringstream x; x << " [" << locstr(in[k], what) << "=" << iv[k] << "]"; il.push_back(x.str()); }
        for (auto &s : il) l << s;
      } else l << " value=" << tv[i];
      lines.push_back(l.str());
    }
    for (auto &s : lines) o << s << "\n";
  }
  return o.str();
}
static std::string dump_cpukinds(hwloc_topology_t t) {
  std::ostringstream o; int nr = hwloc_cpukinds_get_nr(t, 0);
  for (int i = 0; i < nr; i++) {
    hwloc_bitmap_t cs = hwloc_bitmap_alloc(); int eff = -2; struct hwloc_infos_s *infos = NULL;
    if (hwloc_cpukinds_get_info(t, i, cs, &eff, &infos, 0) == 0) { o << "cpukind " << i << " cpuset=" << bstr(cs) << " eff=" << eff; if (infos) dump_infos(o, infos); o << "\n"; }
    hwloc_bitmap_free(cs);
  }
  return o.str();
}

static std::string dump_topology(hwloc_topology_t t, unsigned what = DUMP_ALL) {
  std::ostringstream o;
  if (what & DUMP_CONFIG) {
    o << "flags=" << hwloc_topology_get_flags(t) << " filters=";
    for (int ty = 0; ty < HWLOC_OBJ_TYPE_MAX; ty++) { enum hwloc_type_filter_e f; hwloc_topology_get_type_filter(t, (hwloc_obj_type_t)ty, &f); o << (int)f; }
    o << " thissystem=" << hwloc_topology_is_thissystem(t) << "\n";  // (the topology-level userdata pointer is not part of any equality claim: hwloc_topology_dup() does not copy it)
  }
  if (what & DUMP_SUPPORT) {
    const struct hwloc_topology_support *s = hwloc_topology_get_support(t);
    o << "support discovery="; for (size_t i = 0; i < sizeof(*s->discovery); i++) o << (int)((unsigned char *)s->discovery)[i];
    o << " cpubind="; for (size_t i = 0; i < sizeof(*s->cpubind); i++) o << (int)((unsigned char *)s->cpubind)[i];
    o << " membind="; for (size_t i = 0; i < sizeof(*s->membind); i++) o << (int)((unsigned char *)s->membind)[i];
    o << " misc="; for (size_t i = 0; i < sizeof(*s->misc); i++) o << (int)((unsigned char *)s->misc)[i];
    o << "\n";
  }
  o << "depth=" << hwloc_topology_get_depth(t) << " allowed_cpuset=" << bstr(hwloc_topology_get_allowed_cpuset(t)) << " allowed_nodeset=" << bstr(hwloc_topology_get_allowed_nodeset(t)) << "\n";
  o << "topology infos:"; dump_infos(o, hwloc_topology_get_infos(t)); o << "\n";
  for (int d = 0; d < hwloc_topology_get_depth(t); d++) o << "level " << d << " type=" << hwloc_obj_type_string(hwloc_get_depth_type(t, d)) << " width=" << hwloc_get_nbobjs_by_depth(t, d) << "\n";
  dump_obj(o, hwloc_get_root_obj(t), 0, what);
  if (what & DUMP_EXTRAS) { o << dump_distances(t, what) << dump_memattrs(t, what) << dump_cpukinds(t); }
  return o.str();
}

// first differing line of two dumps ("" if equal)
// the same dump without what depends on the assignment of objects to levels (depths, logical indexes, Group depth attribute, level table):
// hwloc edits the level arrays in place when it merges levels, so two topologies with the same tree can be levelled differently
#include <regex>
static std::string strip_levels(const std::string &d) {
  static const std::regex r1("\\nlevel [0-9]+ type=[^\\n]*"), r2(" L[0-9]+ os="), r3(" depth=-?[0-9]+"), r4("group\\(depth=[0-9]+,"), r5("(^|\\n)depth=[0-9]+ allowed"), r6("#L[0-9]+");
  std::string x = std::regex_replace(d, r1, ""); x = std::regex_replace(x, r2, " os="); x = std::regex_replace(x, r3, ""); x = std::regex_replace(x, r4, "group("); x = std::regex_replace(x, r5, "$1allowed"); x = std::regex_replace(x, r6, "#");
  return x;
}
static std::string first_diff(const std::string &a, const std::string &b) {
  if (a == b) return "";
  std::istringstream ia(a), ib(b); std::string la, lb; int n = 0;
  while (true) { bool ga = (bool)std::getline(ia, la), gb = (bool)std::getline(ib, lb); n++; if (!ga && !gb) return "(identical lines?)"; if (!ga) la = "<EOF>"; if (!gb) lb = "<EOF>"; if (la != lb || !ga || !gb) { std::ostringstream o; o << "line " << n << ":\n   A: " << la.substr(0, 600) << "\n   B: " << lb.substr(0, 600); return o.str(); } }
}

static std::string export_xml(hwloc_topology_t t, unsigned long flags = 0) {
  char *x = NULL; int l = 0; if (hwloc_topology_export_xmlbuffer(t, &x, &l, flags) < 0) return std::string("\x01""EXPORT-FAILED"); std::string s(x); hwloc_free_xmlbuffer(t, x); return s;
}

// Open finding F-C18-a (known_findings.json): a memory object whose CPU-side parent was removed or merged away keeps that parent's complete_cpuset;
// the XML importer recomputes it, so a reload differs in exactly that field.  Harnesses that compare a topology with its XML reload exclude it by
// construction: when the topology shows the stale field, the complete_cpuset of memory objects is masked in both dumps (counted as excluded).
static bool memchild_ccs_stale(hwloc_topology_t t) {
  for (auto o : all_objs(t)) if (hwloc_obj_type_is_memory(o->type)) { hwloc_obj_t p = o->parent; while (p && hwloc_obj_type_is_memory(p->type)) p = p->parent; if (p && !hwloc_bitmap_isequal(o->complete_cpuset, p->complete_cpuset)) return true; }
  return false;
}
static std::string mask_mem_ccs(const std::string &dump) {
  std::string out; size_t i = 0;
  while (i < dump.size()) {
    size_t e = dump.find('\n', i); if (e == std::string::npos) e = dump.size(); std::string line = dump.substr(i, e - i); i = e + 1;
    size_t f = line.find_first_not_of(' ');
    if (f != std::string::npos && (line.compare(f, 9, "NUMANode ") == 0 || line.compare(f, 9, "MemCache ") == 0)) { size_t a = line.find(" ccs={"); if (a != std::string::npos) { size_t b = line.find('}', a); if (b != std::string::npos) line.replace(a, b + 1 - a, " ccs=*"); } }
    out += line; out += '\n';
  }
  return out;
}

