// Reference model of a hwloc bitmap (DESIGN.md 3.1): a set of non-negative integers that is finite or cofinite.
// Written from the set definitions only; no hwloc call on this side.
#pragma once
#include <set>
#include <string>
#include <vector>
#include <cstdint>

struct BitRef {
  std::set<long> f;   // explicit members, all < inf when inf >= 0
  long inf = -1;      // inf >= 0: every index >= inf is a member
  bool has(long i) const { return (inf >= 0 && i >= inf) || f.count(i); }
  void norm() {
    if (inf >= 0) { while (inf > 0 && f.count(inf - 1)) { f.erase(inf - 1); inf--; } for (auto it = f.lower_bound(inf); it != f.end();) it = f.erase(it); }
  }
  bool empty() const { return inf < 0 && f.empty(); }
  bool full() const { return inf == 0; }
  bool infinite() const { return inf >= 0; }
  long first() const { if (!f.empty()) return *f.begin(); return inf >= 0 ? inf : -1; }
  long last() const { if (inf >= 0) return -1; return f.empty() ? -1 : *f.rbegin(); }
  long weight() const { return inf >= 0 ? -1 : (long)f.size(); }
  long next(long p) const {  // smallest member > p
    auto it = f.upper_bound(p); long a = it != f.end() ? *it : -1;
    if (inf >= 0) { long b = p + 1 >= inf ? p + 1 : inf; if (a < 0 || b < a) a = b; }
    return a;
  }
  long next_unset(long p) const { long i = p + 1; while (true) { if (inf >= 0 && i >= inf) return -1; if (!f.count(i)) return i; i++; } }
  long first_unset() const { return next_unset(-1); }
  long last_unset() const { if (inf < 0) return -1; for (long i = inf - 1; i >= 0; i--) if (!f.count(i)) return i; return -1; }
  long highest_interesting() const { long m = inf >= 0 ? inf : 0; if (!f.empty() && *f.rbegin() > m) m = *f.rbegin(); return m; }
  bool operator==(const BitRef &o) const { return f == o.f && inf == o.inf; }

  static BitRef zero() { return BitRef(); }
  static BitRef fullset() { BitRef r; r.inf = 0; return r; }
  void set(long i) { if (!has(i)) f.insert(i); norm(); }
  void clr(long i) {
    if (inf >= 0 && i >= inf) { for (long k = inf; k < i; k++) f.insert(k); inf = i + 1; } else f.erase(i);
    norm();
  }
  void set_range(long b, long e) {  // e == -1: infinite
    if (e < 0) { if (inf < 0 || inf > b) inf = b; } else for (long i = b; i <= e; i++) if (!has(i)) f.insert(i);
    norm();
  }
  void clr_range(long b, long e) {
    if (e < 0) { // clear [b, inf)
      if (inf >= 0) { for (long k = inf; k < b; k++) f.insert(k); inf = -1; }
      for (auto it = f.lower_bound(b); it != f.end();) it = f.erase(it);
    } else {
      if (e < b) return;
      if (inf >= 0 && e >= inf) { long start = inf; for (long k = start; k < b; k++) f.insert(k); inf = e + 1; }
      for (auto it = f.lower_bound(b); it != f.end() && *it <= e;) it = f.erase(it);
    }
    norm();
  }
  static BitRef binop(const BitRef &a, const BitRef &b, int op) {  // 0 or, 1 and, 2 andnot, 3 xor
    auto z = [&](bool x, bool y) { return op == 0 ? (x || y) : op == 1 ? (x && y) : op == 2 ? (x && !y) : (x != y); };
    BitRef r; long lim = std::max(a.highest_interesting(), b.highest_interesting()) + 1;
    std::set<long> cand = a.f; cand.insert(b.f.begin(), b.f.end());
    // members below lim: candidates are explicit members plus the tail ranges
    if (a.inf >= 0) for (long i = a.inf; i < lim; i++) cand.insert(i);
    if (b.inf >= 0) for (long i = b.inf; i < lim; i++) cand.insert(i);
    for (long i : cand) if (i < lim && z(a.has(i), b.has(i))) r.f.insert(i);
    if (z(a.inf >= 0, b.inf >= 0)) r.inf = lim;
    r.norm(); return r;
  }
  static BitRef neg(const BitRef &a) {
    BitRef r; long lim = a.highest_interesting() + 1;
    for (long i = 0; i < lim; i++) if (!a.has(i)) r.f.insert(i);
    if (a.inf < 0) r.inf = lim;
    r.norm(); return r;
  }
  std::string str() const {
    std::string s = "{"; bool first = true; long run_start = -2, prev = -2;
    auto flush = [&]() { if (run_start < 0) return; if (!first) s += ","; first = false; s += std::to_string(run_start); if (prev > run_start) s += "-" + std::to_string(prev); };
    for (long i : f) { if (i == prev + 1 && run_start >= 0) { prev = i; continue; } flush(); run_start = prev = i; }
    flush();
    if (inf >= 0) { if (!first) s += ","; s += std::to_string(inf) + "-"; }
    return s + "}";
  }
  unsigned long word(unsigned i) const { unsigned long w = 0; for (int j = 0; j < 64; j++) if (has((long)i * 64 + j)) w |= 1UL << j; return w; }
};
