// Modifying-operation alphabet (DESIGN.md 3.5).  Every op is decoded from one op tape; arguments that denote live objects are
// selectors resolved against the current topology, so every shrunk subsequence is still a meaningful history.
#pragma once
#include "topogen.hpp"
#include <map>

enum OpKind { OP_RESTRICT, OP_MISC, OP_GROUP, OP_ALLOW, OP_DIST_ADD, OP_DIST_REMOVE, OP_MEMATTR, OP_CPUKIND, OP_INFO, OP_REFRESH, OP_NKINDS };
static const char *op_kind_name[] = {"restrict", "misc", "group", "allow", "dist_add", "dist_remove", "memattr", "cpukind", "info", "refresh"};

struct OpOpts {
  bool allow_dist_group = true;     // hwloc_distances_add_commit() with GROUP flags
  bool allow_dont_merge = true;
  bool allow_cpuless_nodeset_group = true;
  unsigned kinds_mask = (1u << OP_NKINDS) - 1;
};

struct OpRes {
  int kind = -1; std::string desc; int rc = 0; int err = 0;
  bool ok = false;            // the call succeeded
  bool structural = false;    // it changed the object tree
  bool must_unchanged = false;  // documented to leave the topology untouched (failed call)
  bool may_add_objects = false; // new objects may legitimately appear (Misc, Group)
  bool changed_allowed = false;
};

static hwloc_obj_t sel_obj(Draw &d, hwloc_topology_t t) { auto v = all_objs(t); return v[d.raw() % v.size()]; }
static hwloc_obj_t sel_obj_with_sets(Draw &d, hwloc_topology_t t) { auto v = all_objs(t); std::vector<hwloc_obj_t> w; for (auto o : v) if (o->cpuset) w.push_back(o); return w[d.raw() % w.size()]; }
static hwloc_obj_t sel_type(Draw &d, hwloc_topology_t t, hwloc_obj_type_t ty) { int n = hwloc_get_nbobjs_by_type(t, ty); if (n <= 0) return NULL; return hwloc_get_obj_by_type(t, ty, d.raw() % n); }

// a cpuset (or nodeset) argument in one of the shapes of DESIGN 3.5
static hwloc_bitmap_t gen_set_arg(Draw &d, hwloc_topology_t t, bool nodes, std::string &how) {
  hwloc_obj_t root = hwloc_get_root_obj(t);
  hwloc_const_bitmap_t uni = nodes ? root->complete_nodeset : root->complete_cpuset;
  hwloc_bitmap_t s = hwloc_bitmap_alloc(); int shape = d.range(0, 11);
  switch (shape) {
  case 0: case 1: case 2: case 3: { int keep = d.range(1, 9); int i; hwloc_bitmap_foreach_begin(i, uni) { if ((int)(d.raw() % 10) < keep) hwloc_bitmap_set(s, i); } hwloc_bitmap_foreach_end(); how = "subset"; break; }
  case 4: { hwloc_obj_t o = sel_obj_with_sets(d, t); hwloc_bitmap_copy(s, nodes ? o->nodeset : o->cpuset); how = std::string("set-of-") + hwloc_obj_type_string(o->type); break; }
  case 5: { hwloc_obj_t o = sel_obj_with_sets(d, t); hwloc_bitmap_andnot(s, uni, nodes ? o->nodeset : o->cpuset); how = std::string("all-but-") + hwloc_obj_type_string(o->type); break; }
  case 6: hwloc_bitmap_copy(s, uni); how = "whole"; break;
  case 7: hwloc_bitmap_copy(s, uni); hwloc_bitmap_set(s, hwloc_bitmap_last(uni) + 1 + d.range(0, 200)); how = "superset"; break;
  case 8: hwloc_bitmap_copy(s, uni); hwloc_bitmap_set_range(s, hwloc_bitmap_last(uni) + 1 + d.range(0, 100), -1); how = "infinite-superset"; break;
  case 9: hwloc_bitmap_set_range(s, hwloc_bitmap_last(uni) + 1 + d.range(0, 50), d.chance(1, 2) ? -1 : hwloc_bitmap_last(uni) + 300); how = "disjoint"; break;
  case 10: how = "empty"; break;
  default: { int a = hwloc_bitmap_first(uni), b = hwloc_bitmap_last(uni); if (a < 0) a = b = 0; int x = d.range(a, b), y = d.range(x, b); hwloc_bitmap_set_range(s, x, y); hwloc_bitmap_and(s, s, uni); if (d.chance(1, 4)) hwloc_bitmap_set_range(s, b + 1, -1); how = "range"; break; }
  }
  return s;
}

// (characters outside HWLOC_XML_CHAR_VALID are removed by the XML exporter by design, pitfall 9.27: harnesses that compare
//  across an XML round trip set ops_xml_safe)
static bool ops_xml_safe = false;
static std::string gen_name(Draw &d) {
  static const char *names[] = {"m", "misc<&>", "a b", "x\"y'", "", "name-with-long-text-0123456789", "tab\there", "caf\xc3\xa9"};
  std::string s = d.pick(names);
  if (ops_xml_safe && s == "caf\xc3\xa9") s = " lead&trail ";
  return s;
}

static OpRes op_restrict(Case &c, Draw &d, hwloc_topology_t t) {
  OpRes r; r.kind = OP_RESTRICT;
  unsigned long f = d.chance(1, 3) ? 0 : (unsigned long)d.range(0, 31); if (d.chance(1, 20)) f |= 1UL << d.range(5, 20);
  bool bynode = f & HWLOC_RESTRICT_FLAG_BYNODESET;
  std::string how; hwloc_bitmap_t set = gen_set_arg(d, t, bynode, how);
  c.attempt(strf("restrict(%s %s, flags=0x%lx)", how.c_str(), bstr(set).c_str(), f));
  errno = 0; r.rc = hwloc_topology_restrict(t, set, f); r.err = errno;
  r.desc = strf("restrict(%s %s, flags=0x%lx)=%d/%d", how.c_str(), bstr(set).c_str(), f, r.rc, r.rc < 0 ? r.err : 0);
  hwloc_bitmap_free(set);
  if (r.rc < 0) { r.must_unchanged = true; CHECK(c, r.err == EINVAL || r.err == ENOMEM, "restrict_errno", "restrict failed with errno %d", r.err); }
  else { r.ok = true; r.structural = true; r.changed_allowed = true; }
  return r;
}

static OpRes op_misc(Case &c, Draw &d, hwloc_topology_t t) {
  OpRes r; r.kind = OP_MISC; hwloc_obj_t parent = sel_obj(d, t); bool noname = d.chance(1, 4); std::string nm = gen_name(d);
  enum hwloc_type_filter_e f; hwloc_topology_get_type_filter(t, HWLOC_OBJ_MISC, &f);
  hwloc_obj_t m = hwloc_topology_insert_misc_object(t, parent, noname ? NULL : nm.c_str());
  r.desc = strf("insert_misc(under %s gp%llu, name=%s)=%s", hwloc_obj_type_string(parent->type), (unsigned long long)parent->gp_index, noname ? "NULL" : qstr(nm.c_str()).c_str(), m ? "obj" : "NULL");
  if (m) {
    r.ok = true; r.structural = true; r.may_add_objects = true;
    CHECK(c, f != HWLOC_TYPE_FILTER_KEEP_NONE, "misc_filter", "Misc inserted although the Misc filter is KEEP_NONE");
    CHECK(c, m->type == HWLOC_OBJ_MISC && m->parent == parent, "misc_parent", "inserted Misc has type %d / wrong parent", m->type);
    CHECK(c, noname ? m->name == NULL : (m->name && nm == m->name), "misc_name", "inserted Misc name differs");
  } else { r.must_unchanged = true; CHECK(c, f == HWLOC_TYPE_FILTER_KEEP_NONE, "misc_insert", "insert_misc_object failed although Misc objects are kept"); }
  return r;
}

static OpRes op_group(Case &c, Draw &d, hwloc_topology_t t, const OpOpts &o) {
  OpRes r; r.kind = OP_GROUP;
  hwloc_obj_t g = hwloc_topology_alloc_group_object(t);
  CHECK(c, g != NULL, "group_alloc", "alloc_group_object returned NULL");
  CHECK(c, g->type == HWLOC_OBJ_GROUP && !g->cpuset && !g->nodeset, "group_alloc", "allocated group is not an empty Group");
  int mode = d.range(0, 9);
  if (mode == 0) { int rc = hwloc_topology_free_group_object(t, g); r.desc = "group(alloc+free)"; r.must_unchanged = true; CHECK(c, rc == 0, "group_free", "free_group_object returned %d", rc); return r; }
  int k = d.range(1, 3); std::string from; bool cpuless_in_nodeset = false;
  if (mode == 1) {   // only a nodeset (NUMA os indexes of 1-3 selected objects)
    g->nodeset = hwloc_bitmap_alloc();
    for (int i = 0; i < k; i++) { hwloc_obj_t x = sel_obj_with_sets(d, t); hwloc_bitmap_or(g->nodeset, g->nodeset, x->nodeset); from += strf("%s#%u+", hwloc_obj_type_string(x->type), x->logical_index); }
    for (hwloc_obj_t n = NULL; (n = hwloc_get_next_obj_by_type(t, HWLOC_OBJ_NUMANODE, n));) if (hwloc_bitmap_isset(g->nodeset, n->os_index) && hwloc_bitmap_iszero(n->cpuset)) cpuless_in_nodeset = true;
    if (cpuless_in_nodeset && !o.allow_cpuless_nodeset_group) {  // F-C02-d excluded by construction
      for (hwloc_obj_t n = NULL; (n = hwloc_get_next_obj_by_type(t, HWLOC_OBJ_NUMANODE, n));) if (hwloc_bitmap_iszero(n->cpuset)) hwloc_bitmap_clr(g->nodeset, n->os_index);
      c.excluded("F-C02-d"); cpuless_in_nodeset = false;
    }
    from = "nodeset-of:" + from;
  } else if (mode == 2) {  // all four sets through the documented helper
    for (int i = 0; i < k; i++) { hwloc_obj_t x = sel_obj_with_sets(d, t); hwloc_obj_add_other_obj_sets(g, x); from += strf("%s#%u+", hwloc_obj_type_string(x->type), x->logical_index); }
    from = "other_obj_sets:" + from;
  } else {               // a cpuset
    g->cpuset = hwloc_bitmap_alloc();
    for (int i = 0; i < k; i++) { hwloc_obj_t x = sel_obj_with_sets(d, t); hwloc_bitmap_or(g->cpuset, g->cpuset, x->cpuset); from += strf("%s#%u+", hwloc_obj_type_string(x->type), x->logical_index); }
    if (mode == 3) { hwloc_bitmap_set(g->cpuset, hwloc_bitmap_last(hwloc_topology_get_complete_cpuset(t)) + 1 + d.range(0, 50)); from += "foreign-bit+"; }
    if (mode == 4) { hwloc_bitmap_zero(g->cpuset); from = "empty"; }
    if (mode == 5 && d.chance(1, 2)) { int i; hwloc_bitmap_t s = hwloc_bitmap_alloc(); hwloc_bitmap_foreach_begin(i, hwloc_topology_get_topology_cpuset(t)) { if (d.chance(1, 2)) hwloc_bitmap_set(s, i); } hwloc_bitmap_foreach_end(); hwloc_bitmap_copy(g->cpuset, s); hwloc_bitmap_free(s); from = "arbitrary-bits"; }
    from = "cpuset-of:" + from;
  }
  // F-C02-d (open) excluded by construction in every shape: a Group whose nodeset names a CPU-less NUMA node is inserted by cpuset only and ends up
  // with a nodeset the tree does not justify (the helper hwloc_obj_add_other_obj_sets() on a CPU-less node builds such a Group too)
  if (!o.allow_cpuless_nodeset_group) { bool hit = false;
    for (hwloc_obj_t n = NULL; (n = hwloc_get_next_obj_by_type(t, HWLOC_OBJ_NUMANODE, n));) if (hwloc_bitmap_iszero(n->cpuset)) { if (g->nodeset && hwloc_bitmap_isset(g->nodeset, n->os_index)) { hwloc_bitmap_clr(g->nodeset, n->os_index); hit = true; } if (g->complete_nodeset && hwloc_bitmap_isset(g->complete_nodeset, n->os_index)) { hwloc_bitmap_clr(g->complete_nodeset, n->os_index); hit = true; } }
    // same root cause when the helper is used on a CPU-less normal object: its nodeset holds nodes whose CPUs are not in the Group's cpuset
    // ("both, if compatible"): nodes whose cpuset is disjoint from a non-empty requested cpuset are removed as well
    if (g->cpuset && !hwloc_bitmap_iszero(g->cpuset)) for (hwloc_obj_t n = NULL; (n = hwloc_get_next_obj_by_type(t, HWLOC_OBJ_NUMANODE, n));) if (!hwloc_bitmap_intersects(n->cpuset, g->cpuset)) { if (g->nodeset && hwloc_bitmap_isset(g->nodeset, n->os_index)) { hwloc_bitmap_clr(g->nodeset, n->os_index); hit = true; } if (g->complete_nodeset && hwloc_bitmap_isset(g->complete_nodeset, n->os_index)) { hwloc_bitmap_clr(g->complete_nodeset, n->os_index); hit = true; } }
    if (hit) { c.excluded("F-C02-d"); from += "(nodes outside the cpuset's locality removed)"; } }
  g->attr->group.kind = d.chance(2, 3) ? 0 : d.range(1, 5); g->attr->group.subkind = d.range(0, 3);
  if (d.chance(1, 5)) { if (o.allow_dont_merge) g->attr->group.dont_merge = 1; else c.excluded("F-C02-a"); }
  if (d.chance(1, 3)) hwloc_obj_add_info(g, "GroupInfo", "v");
  uint64_t gp = g->gp_index; int dm = g->attr->group.dont_merge;
  c.attempt(strf("insert_group(%s cpuset=%s nodeset=%s dont_merge=%d kind=%u)", from.c_str(), bstr(g->cpuset).c_str(), bstr(g->nodeset).c_str(), dm, g->attr->group.kind));
  hwloc_obj_t res = hwloc_topology_insert_group_object(t, g);
  r.err = errno;
  r.desc = strf("group(%s kind=%u dont_merge=%d)=%s", from.c_str(), 0u, dm, !res ? "NULL" : res->gp_index == gp ? "new" : "existing");
  if (!res) r.must_unchanged = true;
  else {
    r.ok = true;
    if (res->gp_index == gp) { r.structural = true; r.may_add_objects = true; CHECK(c, res->type == HWLOC_OBJ_GROUP, "group_insert", "inserted group has type %d", res->type); }
    // (a Group that covers the whole machine is merged into the root by design, also with dont_merge)
  }
  return r;
}

static OpRes op_allow(Case &c, Draw &d, hwloc_topology_t t) {
  OpRes r; r.kind = OP_ALLOW;
  int which = d.range(0, 4);
  unsigned long f = which == 0 ? HWLOC_ALLOW_FLAG_ALL : which == 1 ? HWLOC_ALLOW_FLAG_LOCAL_RESTRICTIONS : which <= 3 ? HWLOC_ALLOW_FLAG_CUSTOM : (unsigned long)d.range(0, 15);
  std::string h1 = "NULL", h2 = "NULL"; hwloc_bitmap_t cs = NULL, ns = NULL;
  bool give = f == HWLOC_ALLOW_FLAG_CUSTOM ? true : d.chance(1, 8);
  if (give) { if (d.chance(3, 4)) cs = gen_set_arg(d, t, false, h1); if (d.chance(1, 2) || !cs) ns = gen_set_arg(d, t, true, h2); }
  c.attempt(strf("allow(cpuset=%s, nodeset=%s, flags=0x%lx)", cs ? bstr(cs).c_str() : "NULL", ns ? bstr(ns).c_str() : "NULL", f));
  errno = 0; r.rc = hwloc_topology_allow(t, cs, ns, f); r.err = errno;
  r.desc = strf("allow(cpuset=%s %s, nodeset=%s %s, flags=0x%lx)=%d/%d", h1.c_str(), cs ? bstr(cs).c_str() : "", h2.c_str(), ns ? bstr(ns).c_str() : "", f, r.rc, r.rc < 0 ? r.err : 0);
  if (cs) hwloc_bitmap_free(cs); if (ns) hwloc_bitmap_free(ns);
  if (r.rc < 0) r.must_unchanged = true; else { r.ok = true; r.changed_allowed = true; }
  return r;
}

static OpRes op_dist_add(Case &c, Draw &d, hwloc_topology_t t, const OpOpts &o) {
  OpRes r; r.kind = OP_DIST_ADD;
  static const hwloc_obj_type_t types[] = {HWLOC_OBJ_PU, HWLOC_OBJ_NUMANODE, HWLOC_OBJ_CORE, HWLOC_OBJ_PACKAGE, HWLOC_OBJ_GROUP, HWLOC_OBJ_L2CACHE};
  bool mixed = d.chance(1, 6); std::vector<hwloc_obj_t> objs;
  hwloc_obj_type_t ty = d.pick(types); int n = hwloc_get_nbobjs_by_type(t, ty);
  if (mixed || n < 1) { auto v = all_objs(t); int nb = d.range(2, 5); for (int i = 0; i < nb; i++) { hwloc_obj_t x = v[d.raw() % v.size()]; bool dup = false; for (auto y : objs) if (y == x) dup = true; if (!dup && x->type != HWLOC_OBJ_MISC && x->type != HWLOC_OBJ_MACHINE) objs.push_back(x); } }
  else { int nb = d.range(0, 9) == 0 ? d.range(0, 1) : d.range(2, n < 8 ? n : 8); if (nb > n) nb = n; int start = d.range(0, n - nb); for (int i = 0; i < nb; i++) objs.push_back(hwloc_get_obj_by_type(t, ty, start + i)); }
  size_t nb = objs.size(); std::vector<hwloc_uint64_t> vals(nb * nb + 1, 20);
  int shape = d.range(0, 3); size_t half = nb >= 2 ? 1 + d.raw() % (nb - 1) : 1; size_t in = 1 + d.range(0, 2), out = in * (2 + d.range(0, 1));   // shape 3: nested clusters (inner size `in`, outer size `out`): two Group levels
  for (size_t i = 0; i < nb; i++) for (size_t j = 0; j < nb; j++)
    vals[i * nb + j] = shape == 3 ? (i == j ? 10 : i / in == j / in ? 20 : i / out == j / out ? 40 : 80) : shape == 0 ? (i == j ? 10 : ((i < half) == (j < half)) ? 12 : 40)   // symmetric, clustered: triggers grouping
                     : shape == 1 ? (i == j ? 1 : 1 + (d.raw() % 7)) : ((hwloc_uint64_t)d.raw() << d.range(0, 30));
  unsigned long kind; int kw = d.range(0, 9);
  if (kw < 7) kind = (d.chance(1, 2) ? HWLOC_DISTANCES_KIND_FROM_USER : HWLOC_DISTANCES_KIND_FROM_OS) | (d.chance(1, 2) ? HWLOC_DISTANCES_KIND_VALUE_LATENCY : d.chance(1, 2) ? HWLOC_DISTANCES_KIND_VALUE_BANDWIDTH : HWLOC_DISTANCES_KIND_VALUE_HOPS);
  else if (kw == 7) kind = HWLOC_DISTANCES_KIND_FROM_USER | HWLOC_DISTANCES_KIND_FROM_OS | HWLOC_DISTANCES_KIND_VALUE_LATENCY;   // illegal: two FROM bits
  else if (kw == 8) kind = HWLOC_DISTANCES_KIND_FROM_USER | HWLOC_DISTANCES_KIND_VALUE_LATENCY | HWLOC_DISTANCES_KIND_VALUE_BANDWIDTH;  // illegal: two VALUE bits
  else kind = 1UL << d.range(8, 30);  // unknown bits
  unsigned long cflags = d.chance(1, 12) ? 1UL << d.range(0, 6) : 0, aflags = d.chance(1, 12) ? 1UL << d.range(0, 6) : 0;
  unsigned long gflags = 0; if (d.chance(1, 3)) { if (o.allow_dist_group) gflags = d.chance(1, 2) ? HWLOC_DISTANCES_ADD_FLAG_GROUP : (HWLOC_DISTANCES_ADD_FLAG_GROUP | HWLOC_DISTANCES_ADD_FLAG_GROUP_INACCURATE); else c.excluded("F-C02-b"); }
  if ((gflags & HWLOC_DISTANCES_ADD_FLAG_GROUP) && !o.allow_cpuless_nodeset_group) {   // grouping objects that own CPU-less NUMA nodes is F-C02-d
    bool cpuless = false; for (hwloc_obj_t n = NULL; (n = hwloc_get_next_obj_by_type(t, HWLOC_OBJ_NUMANODE, n));) if (hwloc_bitmap_iszero(n->cpuset)) cpuless = true;
    if (cpuless) { gflags = 0; c.excluded("F-C02-d"); }
  }
  if (d.chance(1, 15)) gflags |= 1UL << d.range(2, 10);
  std::string nm = gen_name(d); bool noname = d.chance(1, 3);
  { std::string os; for (auto x : objs) os += strf("%s#%u,", hwloc_obj_type_string(x->type), x->logical_index); c.attempt(strf("dist_add(kind=0x%lx objs=[%s] shape=%d flags=%lx/%lx/%lx)", kind, os.c_str(), shape, cflags, aflags, gflags)); }
  errno = 0; hwloc_distances_add_handle_t h = hwloc_distances_add_create(t, noname ? NULL : nm.c_str(), kind, cflags);
  std::string st = "create";
  if (h) { st = "values"; std::vector<hwloc_obj_t> arr(objs); arr.push_back(NULL);
    r.rc = hwloc_distances_add_values(t, h, (unsigned)nb, arr.data(), vals.data(), aflags);
    if (r.rc == 0) { st = "commit"; r.rc = hwloc_distances_add_commit(t, h, gflags); } } else r.rc = -1;
  r.err = errno;
  std::string os; for (auto x : objs) os += strf("%s#%u,", hwloc_obj_type_string(x->type), x->logical_index);
  r.desc = strf("dist_add(name=%s kind=0x%lx objs=[%s] shape=%d cflags=0x%lx aflags=0x%lx gflags=0x%lx)=%d at %s", noname ? "NULL" : qstr(nm.c_str()).c_str(), kind, os.c_str(), shape, cflags, aflags, gflags, r.rc, st.c_str());
  if (r.rc < 0) r.must_unchanged = true; else { r.ok = true; if (gflags & HWLOC_DISTANCES_ADD_FLAG_GROUP) { r.may_add_objects = true; r.structural = true; } }
  // documented rejections
  bool bad = kw >= 7 || cflags || aflags || (gflags & ~(unsigned long)(HWLOC_DISTANCES_ADD_FLAG_GROUP | HWLOC_DISTANCES_ADD_FLAG_GROUP_INACCURATE)) || nb < 2;
  if (bad) CHECK(c, r.rc < 0, "dist_add_invalid", "invalid distances (kind=0x%lx nbobjs=%zu flags %lx/%lx/%lx) were accepted", kind, nb, cflags, aflags, gflags);
  return r;
}

static OpRes op_dist_remove(Case &c, Draw &d, hwloc_topology_t t) {
  OpRes r; r.kind = OP_DIST_REMOVE; int w = d.range(0, 3);
  if (w == 3) { static const hwloc_obj_type_t tys[] = {HWLOC_OBJ_PU, HWLOC_OBJ_NUMANODE, HWLOC_OBJ_CORE, HWLOC_OBJ_PACKAGE, HWLOC_OBJ_GROUP, HWLOC_OBJ_L2CACHE, HWLOC_OBJ_PCI_DEVICE}; hwloc_obj_type_t ty = d.pick(tys); r.rc = hwloc_distances_remove_by_type(t, ty); r.desc = strf("distances_remove_by_type(%s)=%d", hwloc_obj_type_string(ty), r.rc); r.err = errno; if (r.rc == 0) r.ok = true; return r; }
  if (w == 0) { r.rc = hwloc_distances_remove(t); r.desc = strf("distances_remove()=%d", r.rc); }
  else if (w == 1) { int depth = d.chance(1, 2) ? HWLOC_TYPE_DEPTH_NUMANODE : d.range(0, hwloc_topology_get_depth(t) - 1); r.rc = hwloc_distances_remove_by_depth(t, depth); r.desc = strf("distances_remove_by_depth(%d)=%d", depth, r.rc); }
  else { unsigned nr = 1; struct hwloc_distances_s *ds = NULL; hwloc_distances_get(t, &nr, &ds, 0, 0); if (nr >= 1 && ds) { r.rc = hwloc_distances_release_remove(t, ds); r.desc = strf("distances_release_remove(first)=%d", r.rc); } else r.desc = "distances_release_remove(none)"; }
  r.ok = r.rc == 0;
  return r;
}

static OpRes op_memattr(Case &c, Draw &d, hwloc_topology_t t) {
  OpRes r; r.kind = OP_MEMATTR; hwloc_memattr_id_t id = 0;
  int nnu = hwloc_get_nbobjs_by_type(t, HWLOC_OBJ_NUMANODE), npu = hwloc_get_nbobjs_by_type(t, HWLOC_OBJ_PU);
  if (d.chance(1, 2)) {
    unsigned long mf = (unsigned long)d.range(0, 7); char nm[24]; snprintf(nm, sizeof nm, d.chance(1, 8) ? "Bandwidth" : "attr%d", d.range(0, 3));
    errno = 0; r.rc = hwloc_memattr_register(t, nm, mf, &id); r.err = errno; r.desc = strf("memattr_register(%s, flags=%lu)=%d/%d", nm, mf, r.rc, r.rc < 0 ? r.err : 0);
    bool legal = ((mf & 3) == 1 || (mf & 3) == 2);
    if (!legal) CHECK(c, r.rc < 0 && r.err == EINVAL, "memattr_register_flags", "register with flags %lu returned %d/%d", mf, r.rc, r.err);
  } else {
    // set a value on an existing attribute (predefined ids 2.. or custom)
    int idsel = d.range(0, 12); const char *name = NULL; if (hwloc_memattr_get_name(t, idsel, &name) < 0) { idsel = HWLOC_MEMATTR_ID_BANDWIDTH; name = NULL; hwloc_memattr_get_name(t, idsel, &name); } id = idsel;
    unsigned long fl = 0; hwloc_memattr_get_flags(t, id, &fl);
    hwloc_obj_t n = hwloc_get_obj_by_type(t, HWLOC_OBJ_NUMANODE, d.raw() % nnu);
    struct hwloc_location loc; bool objloc = d.chance(1, 3);
    if (objloc) { loc.type = HWLOC_LOCATION_TYPE_OBJECT; loc.location.object = sel_obj_with_sets(d, t); }
    else { loc.type = HWLOC_LOCATION_TYPE_CPUSET; loc.location.cpuset = hwloc_get_obj_by_type(t, HWLOC_OBJ_PU, d.raw() % npu)->cpuset; }
    bool give = (fl & HWLOC_MEMATTR_FLAG_NEED_INITIATOR) ? !d.chance(1, 10) : d.chance(1, 10);
    hwloc_uint64_t v = d.range(1, 1000);
    errno = 0; r.rc = hwloc_memattr_set_value(t, id, n, give ? &loc : NULL, 0, v); r.err = errno;
    r.desc = strf("memattr_set_value(id=%u node L%u initiator=%s value=%llu)=%d/%d", id, n->logical_index, give ? (objloc ? "object" : "cpuset") : "NULL", (unsigned long long)v, r.rc, r.rc < 0 ? r.err : 0);
    // (by name: with HWLOC_TOPOLOGY_FLAG_NO_MEMATTRS the predefined attributes do not exist and custom ids start at 0)
    if (name && (!strcmp(name, "Capacity") || !strcmp(name, "Locality"))) CHECK(c, r.rc < 0, "memattr_readonly", "set_value on %s succeeded (%s)", name, r.desc.c_str());
  }
  r.ok = r.rc == 0;
  return r;
}

static OpRes op_cpukind(Case &c, Draw &d, hwloc_topology_t t) {
  OpRes r; r.kind = OP_CPUKIND; std::string how; hwloc_bitmap_t cs = gen_set_arg(d, t, false, how);
  if (hwloc_bitmap_weight(cs) < 0) { hwloc_bitmap_and(cs, cs, hwloc_topology_get_complete_cpuset(t)); how += "(finite part)"; }
  struct hwloc_info_s inf[2]; inf[0].name = (char *)"CoreType"; inf[0].value = (char *)(d.chance(1, 2) ? "big" : "little"); inf[1].name = (char *)"FrequencyMaxMHz"; inf[1].value = (char *)"3000";
  struct hwloc_infos_s infs; infs.array = inf; infs.count = d.range(0, 2); infs.allocated = 2;
  int eff = d.range(-1, 3); unsigned long fl = d.chance(1, 10) ? 1 : 0; bool null = d.chance(1, 15);
  errno = 0; r.rc = hwloc_cpukinds_register(t, null ? NULL : cs, eff, infs.count ? &infs : NULL, fl); r.err = errno;
  r.desc = strf("cpukinds_register(%s %s, eff=%d, infos=%u, flags=%lu)=%d/%d", null ? "NULL" : how.c_str(), bstr(cs).c_str(), eff, infs.count, fl, r.rc, r.rc < 0 ? r.err : 0);
  if (null || fl || hwloc_bitmap_iszero(cs)) CHECK(c, r.rc < 0 && r.err == EINVAL, "cpukinds_register_invalid", "invalid registration returned %d/%d", r.rc, r.err);
  hwloc_bitmap_free(cs); r.ok = r.rc == 0; return r;
}

static OpRes op_info(Case &c, Draw &d, hwloc_topology_t t) {
  OpRes r; r.kind = OP_INFO; hwloc_obj_t o = sel_obj(d, t); int w = d.range(0, 6);
  static const char *keys[] = {"k", "k2", "Backend", "a&b"}; const char *k = d.pick(keys); std::string v = gen_name(d);
  struct hwloc_infos_s *infos = d.chance(1, 6) ? hwloc_topology_get_infos(t) : &o->infos;
  switch (w) {
  case 0: r.rc = hwloc_obj_add_info(o, k, v.c_str()); r.desc = strf("obj_add_info(gp%llu,%s)=%d", (unsigned long long)o->gp_index, k, r.rc); break;
  case 1: r.rc = hwloc_modify_infos(infos, HWLOC_MODIFY_INFOS_OP_ADD, k, v.c_str()); r.desc = strf("modify_infos(ADD,%s)=%d", k, r.rc); break;
  case 2: r.rc = hwloc_modify_infos(infos, HWLOC_MODIFY_INFOS_OP_ADD_UNIQUE, k, v.c_str()); r.desc = strf("modify_infos(ADD_UNIQUE,%s)=%d", k, r.rc); break;
  case 3: r.rc = hwloc_modify_infos(infos, HWLOC_MODIFY_INFOS_OP_REPLACE, k, v.c_str()); r.desc = strf("modify_infos(REPLACE,%s)=%d", k, r.rc); break;
  case 4: r.rc = hwloc_modify_infos(infos, HWLOC_MODIFY_INFOS_OP_REMOVE, d.chance(1, 4) ? NULL : k, d.chance(1, 2) ? NULL : v.c_str()); r.desc = strf("modify_infos(REMOVE,%s)=%d", k, r.rc); break;
  case 5: r.rc = hwloc_obj_set_subtype(t, o, d.chance(1, 3) ? NULL : v.c_str()); r.desc = strf("set_subtype(gp%llu)=%d", (unsigned long long)o->gp_index, r.rc); break;
  default: r.rc = hwloc_obj_add_info(o, d.chance(1, 2) ? NULL : k, d.chance(1, 2) ? NULL : v.c_str()); r.desc = strf("obj_add_info(NULL name or value)=%d", r.rc); break;
  }
  r.ok = r.rc == 0; return r;
}

static OpRes apply_op(Case &c, Draw &d, hwloc_topology_t t, const OpOpts &o = OpOpts()) {
  static const int weights[OP_NKINDS] = {5, 2, 4, 2, 3, 1, 2, 2, 2, 1};
  int total = 0; for (int k = 0; k < OP_NKINDS; k++) if (o.kinds_mask >> k & 1) total += weights[k];
  int x = d.range(0, total - 1), kind = 0;
  for (int k = 0; k < OP_NKINDS; k++) if (o.kinds_mask >> k & 1) { if (x < weights[k]) { kind = k; break; } x -= weights[k]; }
  switch (kind) {
  case OP_RESTRICT: return op_restrict(c, d, t);
  case OP_MISC: return op_misc(c, d, t);
  case OP_GROUP: return op_group(c, d, t, o);
  case OP_ALLOW: return op_allow(c, d, t);
  case OP_DIST_ADD: return op_dist_add(c, d, t, o);
  case OP_DIST_REMOVE: return op_dist_remove(c, d, t);
  case OP_MEMATTR: return op_memattr(c, d, t);
  case OP_CPUKIND: return op_cpukind(c, d, t);
  case OP_INFO: return op_info(c, d, t);
  default: { OpRes r; r.kind = OP_REFRESH; r.rc = hwloc_topology_refresh(t); r.desc = strf("refresh()=%d", r.rc); r.ok = r.rc == 0; return r; }
  }
}

// gp_index -> (type, userdata) bookkeeping: gp_index values and userdata pointers of surviving objects never change
struct UDMap {
  std::map<uint64_t, std::pair<int, void *>> m; uintptr_t next = 0x1000;
  void tag_all(hwloc_topology_t t) { for (auto o : all_objs(t)) if (!m.count(o->gp_index)) { o->userdata = (void *)(next++ * 16); m[o->gp_index] = {o->type, o->userdata}; } }
  void verify(Case &c, hwloc_topology_t t, bool may_add, const char *after) {
    std::map<uint64_t, int> seen;
    for (auto x : all_objs(t)) {
      CHECK(c, !seen[x->gp_index]++, "gp_unique", "duplicate gp_index %llu after %s", (unsigned long long)x->gp_index, after);
      auto it = m.find(x->gp_index);
      if (it == m.end()) {
        if (may_add && (x->type == HWLOC_OBJ_GROUP || x->type == HWLOC_OBJ_MISC)) { x->userdata = (void *)(next++ * 16); m[x->gp_index] = {x->type, x->userdata}; continue; }
        c.fail("gp_stable", "object %s gp%llu appeared from nowhere after %s", hwloc_obj_type_string(x->type), (unsigned long long)x->gp_index, after);
      }
      CHECK(c, it->second.first == (int)x->type, "gp_stable", "gp%llu changed type after %s", (unsigned long long)x->gp_index, after);
      CHECK(c, it->second.second == x->userdata, "userdata_stable", "userdata of %s gp%llu altered by %s", hwloc_obj_type_string(x->type), (unsigned long long)x->gp_index, after);
    }
  }
};
