// Shared pieces for the synthetic-description checks (DESIGN.md C07): cost pre-scan and the accepted-description oracle B.
#pragma once
#include "snap.hpp"
#include <hwloc.h>

// Cost, not correctness: insertion is quadratic in the number of siblings (a flat "4000" takes 26 s under ASan) and the number of
// objects is the product of the arities.  Every integer literal followed by optional attributes counts as an arity candidate.
static bool synthetic_costly(const std::string &s, unsigned long max_product, unsigned long max_arity = 512) {
  unsigned long prod = 1; const char *p = s.c_str();
  while (*p) {
    if (*p >= '0' && *p <= '9') { char *e; unsigned long v = strtoul(p, &e, 0); if (v > max_arity) return true; if (v > 1) { if (prod > max_product / v) return true; prod *= v; } p = e; }
    else p++;
  }
  return prod > max_product;
}

typedef void (*synth_fail_t)(const char *rule, const char *msg);
// Oracle B: set_synthetic returns 0 or -1/EINVAL; an accepted small description loads (0/-1) and a loaded topology is well formed.
// returns 0 rejected, 1 accepted+loaded, 2 accepted but load failed, -1 skipped as costly
static int check_synthetic_string(const std::string &s, synth_fail_t failcb, bool &nontrivial) {
  nontrivial = false;
  if (synthetic_costly(s, 4096)) return -1;
  char *blk = (char *)malloc(s.size() + 1); memcpy(blk, s.data(), s.size()); blk[s.size()] = 0;   // exactly-sized: ASan sees any over-read
  hwloc_topology_t t; hwloc_topology_init(&t); errno = 0;
  int r = hwloc_topology_set_synthetic(t, blk); int e = errno; int ret = 0;
  if (r != 0 && !(r == -1 && e == EINVAL)) { char m[128]; snprintf(m, sizeof m, "set_synthetic returned %d errno %d", r, e); failcb("set_synthetic_ret", m); }
  if (r == 0) {
    int l = hwloc_topology_load(t);
    if (l != 0 && l != -1) failcb("load_ret", "load returned something else than 0/-1");
    if (l == 0) { ret = 1; WFError we; wf_check(t, we); if (!we.ok()) failcb("wf", ("accepted description loads into an ill-formed topology: " + we.msgs[0]).c_str()); hwloc_topology_check(t);
      if (hwloc_topology_get_depth(t) >= 4) nontrivial = true;
      // export must obey the length contract whenever it succeeds
      char big[8192]; int n = hwloc_topology_export_synthetic(t, big, sizeof big, 0);
      if (n >= 0) { if ((size_t)n >= sizeof big || strlen(big) != (size_t)n) failcb("export_len", "export_synthetic return value does not match the text length"); char small[9]; memset(small, 0x5a, sizeof small); int n2 = hwloc_topology_export_synthetic(t, small, 8, 0); if (small[8] != 0x5a || (n2 >= 0 && strnlen(small, 8) >= 8)) failcb("export_bounds", "export_synthetic wrote outside an 8-byte buffer"); }
    } else ret = 2;
  }
  hwloc_topology_destroy(t); free(blk); return ret;
}
