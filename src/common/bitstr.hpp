// Oracles for bitmap <-> string conversions (DESIGN.md C04), shared by the rapidcheck harness and the libFuzzer targets.
#pragma once
#include <hwloc.h>
#include <string>
#include <vector>
#include <cstring>
#include <cstdlib>
#include <cstdio>
#include <cstdarg>

struct BitFmt {
  const char *name;
  int (*snp)(char *, size_t, hwloc_const_bitmap_t);
  int (*asp)(char **, hwloc_const_bitmap_t);
  int (*ssc)(hwloc_bitmap_t, const char *);
};
static const BitFmt BITFMT[3] = {
  {"hwloc", hwloc_bitmap_snprintf, hwloc_bitmap_asprintf, hwloc_bitmap_sscanf},
  {"list", hwloc_bitmap_list_snprintf, hwloc_bitmap_list_asprintf, hwloc_bitmap_list_sscanf},
  {"taskset", hwloc_bitmap_taskset_snprintf, hwloc_bitmap_taskset_asprintf, hwloc_bitmap_taskset_sscanf},
};

typedef void (*bitstr_fail_t)(const char *rule, const char *msg);
static bitstr_fail_t bitstr_fail;
static unsigned long bitstr_checks;
static void BSFAIL(const char *rule, const char *fmt, ...) __attribute__((format(printf, 2, 3)));
static void BSFAIL(const char *rule, const char *fmt, ...) { char b[4096]; va_list ap; va_start(ap, fmt); vsnprintf(b, sizeof b, fmt, ap); va_end(ap); bitstr_fail(rule, b); }
#define BSCHECK(cond, rule, ...) do { bitstr_checks++; if (!(cond)) BSFAIL(rule, __VA_ARGS__); } while (0)

// parse from an exactly-sized heap block so that ASan sees any read past the terminating NUL
static int parse_exact(const BitFmt &f, hwloc_bitmap_t dst, const std::string &s) {
  char *blk = (char *)malloc(s.size() + 1); memcpy(blk, s.data(), s.size()); blk[s.size()] = 0;
  int r = f.ssc(dst, blk); free(blk); return r;
}

// Cost pre-scan for the list format (pitfall 9.22): the parser hands every token to strtoul(,,0) and accepts "negative" and
// enormous indexes (bit 4294967291 = a 512 MiB bitmap).  Re-tokenise with the same walk; this bounds allocation, it is not an oracle.
static bool list_string_costly(const std::string &s) {
  const char *current = s.c_str(); char *next;
  while (*current) {   // the same walk as hwloc_bitmap_list_sscanf()
    while (*current == ',' || *current == ' ') current++;
    unsigned long val = strtoul(current, &next, 0);
    if (next == current) return false;      // the parser fails here, nothing costly was reached... except what came before, already checked
    if (val > 1000000UL) return true;       // includes "negative" literals, which strtoul wraps around
    if (*next == '\0') break;
    current = next + 1;
  }
  return false;
}
static bool other_string_costly(const std::string &s) { return s.size() > 6000; }

// the snprintf contract + round trip for one bitmap and one format; returns the full text
static std::string check_print(const BitFmt &f, hwloc_const_bitmap_t A, unsigned extra_len_seed) {
  int need = f.snp(NULL, 0, A);
  BSCHECK(need >= 0, "snprintf_null", "%s snprintf(NULL,0) returned %d", f.name, need);
  std::vector<char> full(need + 1 + 16, (char)0xA5);
  int r2 = f.snp(full.data() + 8, need + 1, A);
  BSCHECK(r2 == need, "snprintf_len", "%s snprintf(buf,needed+1) returned %d, snprintf(NULL,0) returned %d", f.name, r2, need);
  BSCHECK((int)strnlen(full.data() + 8, need + 1) == need, "snprintf_len", "%s text length %zu != returned %d", f.name, strnlen(full.data() + 8, need + 1), need);
  for (int g = 0; g < 8; g++) BSCHECK(full[g] == (char)0xA5 && full[8 + need + 1 + g] == (char)0xA5, "snprintf_bounds", "%s wrote outside [buf,buf+buflen) at full size", f.name);
  std::string text(full.data() + 8, need);
  // every buffer length 0..needed+1 (all of them up to 96, then the last few and a sample)
  std::vector<int> sizes; for (int sz = 0; sz <= need + 1 && sz <= 96; sz++) sizes.push_back(sz);
  for (int sz = need - 3; sz <= need + 1; sz++) if (sz > 96) sizes.push_back(sz);
  for (int k = 1; k <= 6 && need > 100; k++) sizes.push_back(97 + (int)((extra_len_seed * 2654435761u * k) % (unsigned)(need - 96)));
  for (int sz : sizes) {
    std::vector<char> buf(sz + 16, (char)0xA5);
    int r3 = f.snp(buf.data() + 8, sz, A);
    BSCHECK(r3 == need, "snprintf_ret", "%s buflen %d returned %d instead of the untruncated length %d", f.name, sz, r3, need);
    for (int g = 0; g < 8; g++) BSCHECK(buf[g] == (char)0xA5 && buf[8 + sz + g] == (char)0xA5, "snprintf_bounds", "%s buflen %d wrote outside the buffer", f.name, sz);
    if (sz > 0) {
      size_t l = strnlen(buf.data() + 8, sz);
      BSCHECK(l < (size_t)sz, "snprintf_nul", "%s buflen %d: no NUL inside the buffer", f.name, sz);
      BSCHECK(text.compare(0, l, buf.data() + 8, l) == 0, "snprintf_prefix", "%s buflen %d: [%.*s] is not a prefix of [%s]", f.name, sz, (int)l, buf.data() + 8, text.substr(0, 200).c_str());
    }
  }
  char *as = NULL; int ra = f.asp(&as, A);
  BSCHECK(ra == need && as && text == as, "asprintf", "%s asprintf returned %d [%s], snprintf %d [%s]", f.name, ra, as ? std::string(as).substr(0, 200).c_str() : "(null)", need, text.substr(0, 200).c_str());
  free(as);
  return text;
}

// arbitrary string: returns 0/-1, result independent of the destination's previous content, accepted input stable under print/parse
// returns 1 if accepted, 0 if rejected, -1 if skipped as costly
static int check_parse_arbitrary(int fmt, const std::string &s) {
  const BitFmt &f = BITFMT[fmt];
  if (fmt == 1 ? list_string_costly(s) : other_string_costly(s)) return -1;
  hwloc_bitmap_t F = hwloc_bitmap_alloc(), G = hwloc_bitmap_alloc(), H = hwloc_bitmap_alloc_full();
  hwloc_bitmap_set_range(G, 37, 900); hwloc_bitmap_set_range(G, 2000, -1);
  int r1 = parse_exact(f, F, s), rg = parse_exact(f, G, s), rh = parse_exact(f, H, s);
  BSCHECK((r1 == 0 || r1 == -1), "sscanf_ret", "%s sscanf returned %d", f.name, r1);
  BSCHECK(r1 == rg && r1 == rh, "sscanf_dest", "%s sscanf result depends on the destination: %d (fresh) %d (dirty) %d (full)", f.name, r1, rg, rh);
  if (r1 == 0) {
    BSCHECK(hwloc_bitmap_isequal(F, G) && hwloc_bitmap_isequal(F, H), "sscanf_dest", "%s sscanf parsed value depends on the destination's previous content", f.name);
    // the accepted value must have a sane representation: weight/last consistent
    int w = hwloc_bitmap_weight(F), l = hwloc_bitmap_last(F);
    BSCHECK((w == -1) == (l == -1 && !hwloc_bitmap_iszero(F)) || w == 0, "sscanf_value", "%s accepted value has weight %d last %d", f.name, w, l);
    if (l < 4000000) {
      char *p1 = NULL; f.asp(&p1, F);
      hwloc_bitmap_t K = hwloc_bitmap_alloc(); hwloc_bitmap_set_range(K, 11, 300);
      int rk = parse_exact(f, K, p1);
      BSCHECK(rk == 0 && hwloc_bitmap_isequal(K, F), "sscanf_stable", "%s accepted input is not stable under print-then-parse (printed [%s], reparse ret %d)", f.name, std::string(p1).substr(0, 300).c_str(), rk);
      char *p2 = NULL; f.asp(&p2, K);
      BSCHECK(!strcmp(p1, p2), "sscanf_stable", "%s print(parse(print(x))) != print(x)", f.name);
      free(p1); free(p2); hwloc_bitmap_free(K);
    }
  }
  hwloc_bitmap_free(F); hwloc_bitmap_free(G); hwloc_bitmap_free(H);
  return r1 == 0 ? 1 : 0;
}
