// Lock-step bitmap histories: every constructor/modifier call is applied to a hwloc bitmap and to the BitRef model
// (DESIGN.md C03).  Shared by C03 (set semantics) and C04 (string conversions).
#pragma once
#include "engine.h"
#include "bitref.hpp"
#include <hwloc.h>
// hwloc_bitmap_compare_inclusion() is exported (HWLOC_DECLSPEC) but declared in private/misc.h, which is not C++-clean
extern "C" int hwloc_bitmap_compare_inclusion(hwloc_const_bitmap_t bitmap1, hwloc_const_bitmap_t bitmap2);
enum { BITMAP_EQUAL = 0, BITMAP_INCLUDED = 1, BITMAP_CONTAINS = 2, BITMAP_INTERSECTS = 3, BITMAP_DIFFERENT = 4 };
#include <cstring>

static long bit_index(Draw &d) {
  static const int b[] = {0, 1, 2, 30, 31, 32, 33, 34, 62, 63, 64, 65, 66, 126, 127, 128, 129, 130, 510, 511, 512, 513, 514, 1022, 1023, 1024, 1025, 1026};
  int k = d.range(0, 9);
  if (k < 6) return d.pick(b);
  if (k < 9) return d.range(0, 2099);
  return d.chance(1, 4) ? d.range(0, 69999) : d.range(0, 2099);
}

struct Slot { hwloc_bitmap_t b; BitRef m; };

// observe a hwloc bitmap through isset only (plus weight/last cross-check) and compare with the model
static void same_as_model(Case &c, hwloc_const_bitmap_t b, const BitRef &m, const char *what) {
  long hi = m.highest_interesting();
  long win = hi + 130 < 2300 ? hi + 130 : 2300;
  for (long i = 0; i < win; i++) if ((hwloc_bitmap_isset(b, (unsigned)i) != 0) != m.has(i)) c.fail("model", "%s: bit %ld is %d, model %s", what, i, hwloc_bitmap_isset(b, (unsigned)i), m.str().c_str());
  if (hi + 130 >= 2300) {  // spot probes around every run boundary above the window
    std::vector<long> probes; for (long x : m.f) if (x >= win - 2) { probes.push_back(x - 1); probes.push_back(x); probes.push_back(x + 1); }
    if (m.inf >= 0) { probes.push_back(m.inf - 1); probes.push_back(m.inf); probes.push_back(m.inf + 1); probes.push_back(m.inf + 64); }
    probes.push_back(hi + 64); probes.push_back(hi + 129);
    for (long i : probes) if (i >= 0 && (hwloc_bitmap_isset(b, (unsigned)i) != 0) != m.has(i)) c.fail("model", "%s: bit %ld is %d, model %s", what, i, hwloc_bitmap_isset(b, (unsigned)i), m.str().c_str());
    // an independent walk with next() must visit exactly the model's members
    long p = -1; int steps = 0; long mw = m.inf >= 0 ? -1 : (long)m.f.size();
    if (mw >= 0 && mw < 5000) { for (long x : m.f) { p = hwloc_bitmap_next(b, (int)p); if (p != x) c.fail("model", "%s: walk by next() gives %ld where the model has %ld (%s)", what, p, x, m.str().c_str()); steps++; } if (hwloc_bitmap_next(b, (int)p) != -1) c.fail("model", "%s: extra member after %ld", what, p); }
  }
  bool tail = hwloc_bitmap_isset(b, 3000000u) != 0;
  if (tail != (m.inf >= 0)) c.fail("model", "%s: infinite tail is %d, model %s", what, tail, m.str().c_str());
  c.checks(3);
}

static const char *binop_name[] = {"or", "and", "andnot", "xor"};
static int do_binop(int op, hwloc_bitmap_t r, hwloc_const_bitmap_t a, hwloc_const_bitmap_t b) {
  return op == 0 ? hwloc_bitmap_or(r, a, b) : op == 1 ? hwloc_bitmap_and(r, a, b) : op == 2 ? hwloc_bitmap_andnot(r, a, b) : hwloc_bitmap_xor(r, a, b);
}

// one generated constructor/modifier call on slot s (other slots may be operands); returns a description
static std::string bitmap_step(Case &c, Draw &d, std::vector<Slot> &S, unsigned s) {
  Slot &x = S[s]; unsigned o1 = d.range(0, (int)S.size() - 1), o2 = d.range(0, (int)S.size() - 1);
  int k = d.range(0, 21); long i = bit_index(d); std::string desc; int rc = 0;
  switch (k) {
  case 0: rc = hwloc_bitmap_set(x.b, (unsigned)i); x.m.set(i); desc = strf("set(%ld)", i); break;
  case 1: rc = hwloc_bitmap_clr(x.b, (unsigned)i); x.m.clr(i); desc = strf("clr(%ld)", i); break;
  case 2: { long e = d.chance(1, 4) ? -1 : d.chance(1, 8) ? (i > 0 ? d.range(0, (int)i) - 1 : 0) : i + d.range(0, 140); if (e < -1) e = 0;
      rc = hwloc_bitmap_set_range(x.b, (unsigned)i, (int)e); if (e == -1 || e >= i) x.m.set_range(i, e); desc = strf("set_range(%ld,%ld)", i, e); break; }
  case 3: { long e = d.chance(1, 4) ? -1 : d.chance(1, 8) ? (i > 0 ? d.range(0, (int)i) - 1 : 0) : i + d.range(0, 140); if (e < -1) e = 0;
      rc = hwloc_bitmap_clr_range(x.b, (unsigned)i, (int)e); if (e == -1 || e >= i) x.m.clr_range(i, e); desc = strf("clr_range(%ld,%ld)", i, e); break; }
  case 4: hwloc_bitmap_zero(x.b); x.m = BitRef::zero(); desc = "zero"; break;
  case 5: hwloc_bitmap_fill(x.b); x.m = BitRef::fullset(); desc = "fill"; break;
  case 6: rc = hwloc_bitmap_only(x.b, (unsigned)i); x.m = BitRef(); x.m.f.insert(i); desc = strf("only(%ld)", i); break;
  case 7: rc = hwloc_bitmap_allbut(x.b, (unsigned)i); x.m = BitRef::fullset(); x.m.clr(i); desc = strf("allbut(%ld)", i); break;
  case 8: { unsigned long w = ((unsigned long)d.raw() << 34) ^ ((unsigned long)d.raw() << 5) ^ d.raw(); if (d.chance(1, 6)) w = 0; if (d.chance(1, 6)) w = ~0UL;
      rc = hwloc_bitmap_from_ulong(x.b, w); x.m = BitRef(); for (int j = 0; j < 64; j++) if (w >> j & 1) x.m.f.insert(j); desc = strf("from_ulong(0x%lx)", w); break; }
  case 9: { unsigned long w = ((unsigned long)d.raw() << 34) ^ ((unsigned long)d.raw() << 5) ^ d.raw(); if (d.chance(1, 6)) w = 0; unsigned wi = d.range(0, 9) < 8 ? d.range(0, 3) : d.range(4, 33);
      rc = hwloc_bitmap_from_ith_ulong(x.b, wi, w); x.m = BitRef(); for (int j = 0; j < 64; j++) if (w >> j & 1) x.m.f.insert((long)wi * 64 + j); desc = strf("from_ith_ulong(%u,0x%lx)", wi, w); break; }
  case 10: { unsigned nr = d.range(0, 9) < 8 ? d.range(0, 4) : d.range(5, 20); std::vector<unsigned long> w(nr + 1); x.m = BitRef();
      for (unsigned q = 0; q < nr; q++) { w[q] = d.chance(1, 3) ? 0 : (((unsigned long)d.raw() << 34) ^ ((unsigned long)d.raw() << 3) ^ d.raw()); for (int j = 0; j < 64; j++) if (w[q] >> j & 1) x.m.f.insert((long)q * 64 + j); }
      rc = hwloc_bitmap_from_ulongs(x.b, nr, w.data()); desc = strf("from_ulongs(nr=%u)", nr); break; }
  case 11: { unsigned long w = ((unsigned long)d.raw() << 34) ^ ((unsigned long)d.raw() << 5) ^ d.raw(); if (d.chance(1, 6)) w = 0; if (d.chance(1, 6)) w = ~0UL; unsigned wi = d.range(0, 9) < 8 ? d.range(0, 3) : d.range(4, 33);
      rc = hwloc_bitmap_set_ith_ulong(x.b, wi, w);
      for (int j = 0; j < 64; j++) { long idx = (long)wi * 64 + j; if (w >> j & 1) x.m.set(idx); else x.m.clr(idx); }
      desc = strf("set_ith_ulong(%u,0x%lx)", wi, w); break; }
  case 12: { // singlify: documented as "keep a single index among those set": a singleton subset (empty stays empty)
      BitRef before = x.m; rc = hwloc_bitmap_singlify(x.b); int w = hwloc_bitmap_weight(x.b); int f = hwloc_bitmap_first(x.b);
      CHECK(c, w == (before.empty() ? 0 : 1) && (before.empty() || before.has(f)), "singlify", "singlify of %s gives weight %d first %d", before.str().c_str(), w, f);
      x.m = BitRef(); if (f >= 0) x.m.f.insert(f); desc = "singlify"; break; }
  case 13: rc = hwloc_bitmap_copy(x.b, S[o1].b); x.m = S[o1].m; desc = strf("copy(from #%u)", o1); break;
  case 14: { hwloc_bitmap_t n = hwloc_bitmap_dup(S[o1].b); hwloc_bitmap_free(x.b); x.b = n; x.m = S[o1].m; desc = strf("dup(of #%u)", o1); break; }
  case 15: { BitRef r = BitRef::neg(S[o1].m); rc = hwloc_bitmap_not(x.b, S[o1].b); x.m = r; desc = strf("not(#%u)%s", o1, o1 == s ? " aliased" : ""); if (o1 == s) c.cls("aliased-destination"); break; }
  case 16: case 17: case 18: case 19: { int op = k - 16; BitRef r = BitRef::binop(S[o1].m, S[o2].m, op);
      if ((S[o1].m.inf >= 0) != (S[o2].m.inf >= 0)) c.cls("binop:mixed-finite-infinite");
      if (o1 == s || o2 == s) c.cls("aliased-destination");
      rc = do_binop(op, x.b, S[o1].b, S[o2].b); x.m = r; desc = strf("%s(#%u,#%u)%s", binop_name[op], o1, o2, (o1 == s || o2 == s) ? " aliased" : ""); break; }
  case 20: { hwloc_bitmap_free(x.b); x.b = hwloc_bitmap_alloc(); x.m = BitRef(); desc = "alloc"; break; }
  default: { hwloc_bitmap_free(x.b); x.b = hwloc_bitmap_alloc_full(); x.m = BitRef::fullset(); desc = "alloc_full"; break; }
  }
  CHECK(c, rc == 0, "retval", "%s returned %d", desc.c_str(), rc);
  return strf("#%u.%s", s, desc.c_str());
}
