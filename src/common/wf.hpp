// Independent well-formedness checker (DESIGN.md 3.2): a transcription of the C01 statement over the public API only.
// Sets are converted to std::set through hwloc_bitmap_isset only, so the combinators under test are not trusted.
#pragma once
#include <hwloc.h>
#include <string>
#include <vector>
#include <set>
#include <map>
#include <sstream>
#include <cstring>
#include <cinttypes>

// enums that a hostile XML document may fill with any number are read as ints (no UB on the harness side)
static inline int enum_int(const void *p) { int v; memcpy(&v, p, sizeof v); return v; }
struct WFError { std::vector<std::string> msgs; void add(const std::string &s){ if (msgs.size()<20) msgs.push_back(s);} bool ok() const {return msgs.empty();} };

typedef std::set<unsigned> USet;
// convert a finite hwloc bitmap into a std::set using only isset/weight/last (cross-checked)
static bool to_uset(hwloc_const_bitmap_t b, USet &out, std::string *why=nullptr) {
  out.clear();
  if (!b) { if (why) *why="NULL bitmap"; return false; }
  int w = hwloc_bitmap_weight(b);
  if (w < 0) { if (why) *why="infinite bitmap"; return false; }
  int last = hwloc_bitmap_last(b);
  if (w == 0) { if (last != -1) { if (why) *why="weight 0 but last != -1"; return false;} return true; }
  if (last < 0 || last > (1<<22)) { if (why) *why="bad last"; return false; }
  for (int i=0;i<=last;i++) if (hwloc_bitmap_isset(b,i)) out.insert(i);
  if ((int)out.size()!=w) { if (why) *why="weight mismatch"; return false; }
  // probe a window beyond last
  for (int i=last+1;i<last+130;i++) if (hwloc_bitmap_isset(b,i)) { if (why) *why="bit set beyond last"; return false; }
  return true;
}
static bool subset(const USet&a,const USet&b){ for (auto x:a) if(!b.count(x)) return false; return true; }
static bool disjoint(const USet&a,const USet&b){ for (auto x:a) if(b.count(x)) return false; return true; }
static std::string ustr(const USet&s){ std::ostringstream o; bool f=true; for(auto x:s){ if(!f)o<<","; o<<x; f=false;} return o.str(); }

static bool is_normal(hwloc_obj_type_t t){ return t<=HWLOC_OBJ_GROUP; }
static bool is_memory(hwloc_obj_type_t t){ return t==HWLOC_OBJ_NUMANODE||t==HWLOC_OBJ_MEMCACHE; }
static bool is_io(hwloc_obj_type_t t){ return t==HWLOC_OBJ_BRIDGE||t==HWLOC_OBJ_PCI_DEVICE||t==HWLOC_OBJ_OS_DEVICE; }
static bool is_cache(hwloc_obj_type_t t){ return t>=HWLOC_OBJ_L1CACHE && t<=HWLOC_OBJ_L3ICACHE; }

struct WFCtx {
  hwloc_topology_t topo; WFError &err; unsigned long flags;
  std::set<uint64_t> gps; std::set<unsigned> pu_os, numa_os;
  std::map<hwloc_obj_t,int> seen; // objects seen in the tree walk
  std::map<int,std::vector<hwloc_obj_t>> bydepth_walk; // objects per depth in DFS order (for count check)
};
#define WFCHK(cond, msg) do { if(!(cond)) { std::ostringstream _o; _o<<msg; c.err.add(_o.str()); } } while(0)
static std::string oid(hwloc_obj_t o){ std::ostringstream s; s<<hwloc_obj_type_string(o->type)<<"[gp"<<o->gp_index<<",L"<<o->logical_index<<",d"<<o->depth<<"]"; return s.str(); }

static int special_depth(hwloc_obj_type_t t){ switch(t){case HWLOC_OBJ_NUMANODE:return HWLOC_TYPE_DEPTH_NUMANODE;case HWLOC_OBJ_MEMCACHE:return HWLOC_TYPE_DEPTH_MEMCACHE;case HWLOC_OBJ_BRIDGE:return HWLOC_TYPE_DEPTH_BRIDGE;case HWLOC_OBJ_PCI_DEVICE:return HWLOC_TYPE_DEPTH_PCI_DEVICE;case HWLOC_OBJ_OS_DEVICE:return HWLOC_TYPE_DEPTH_OS_DEVICE;case HWLOC_OBJ_MISC:return HWLOC_TYPE_DEPTH_MISC;default:return 0;} }

// returns total memory below, fills contribution nodeset
static uint64_t wf_obj(WFCtx &c, hwloc_obj_t o, hwloc_obj_t parent, unsigned rank, const USet &inherited_nodes, USet &contrib_nodes /*out: NUMA nodes attached in this subtree*/) {
  contrib_nodes.clear();
  WFCHK(!c.seen.count(o), "object visited twice "<<oid(o));
  c.seen[o]=1;
  WFCHK(o->parent==parent, "parent mismatch at "<<oid(o));
  WFCHK(o->sibling_rank==rank, "sibling_rank "<<o->sibling_rank<<" != "<<rank<<" at "<<oid(o));
  WFCHK((unsigned)o->type < HWLOC_OBJ_TYPE_MAX, "bad type");
  WFCHK(o->gp_index!=0, "zero gp_index at "<<oid(o));
  WFCHK(c.gps.insert(o->gp_index).second, "duplicate gp_index "<<o->gp_index);
  enum hwloc_type_filter_e f; hwloc_topology_get_type_filter(c.topo,o->type,&f);
  WFCHK(f!=HWLOC_TYPE_FILTER_KEEP_NONE, "object of KEEP_NONE type present: "<<oid(o));
  c.bydepth_walk[o->depth].push_back(o);
  USet cs, ccs, ns, cns; std::string why;
  bool special = is_io(o->type)||o->type==HWLOC_OBJ_MISC;
  if (special) {
    WFCHK(!o->cpuset&&!o->complete_cpuset&&!o->nodeset&&!o->complete_nodeset, "special object with sets "<<oid(o));
    WFCHK(o->depth==special_depth(o->type), "special depth wrong "<<oid(o));
    WFCHK(o->arity==0 && !o->first_child && o->memory_arity==0 && !o->memory_first_child, "special object with normal/memory children "<<oid(o));
    if (o->type==HWLOC_OBJ_MISC) WFCHK(o->io_arity==0 && !o->io_first_child, "misc with io children");
  } else {
    bool okk = to_uset(o->cpuset,cs,&why)&&to_uset(o->complete_cpuset,ccs,&why)&&to_uset(o->nodeset,ns,&why)&&to_uset(o->complete_nodeset,cns,&why);
    WFCHK(okk, "bad sets at "<<oid(o)<<": "<<why);
    if (!okk) return 0;
    WFCHK(subset(cs,ccs), "cpuset not in complete_cpuset "<<oid(o));
    WFCHK(subset(ns,cns), "nodeset not in complete_nodeset "<<oid(o));
    if (parent) { USet pcs,pccs,pns,pcns; if (to_uset(parent->cpuset,pcs)&&to_uset(parent->complete_cpuset,pccs)&&to_uset(parent->nodeset,pns)&&to_uset(parent->complete_nodeset,pcns)) {
      WFCHK(subset(cs,pcs), "cpuset not in parent's "<<oid(o)); WFCHK(subset(ccs,pccs), "complete_cpuset not in parent's "<<oid(o));
      WFCHK(subset(ns,pns), "nodeset not in parent's "<<oid(o)<<" ns="<<ustr(ns)<<" pns="<<ustr(pns)); WFCHK(subset(cns,pcns), "complete_nodeset not in parent's "<<oid(o)); } }
    if (is_memory(o->type)) { WFCHK(o->depth==special_depth(o->type), "memory depth wrong"); WFCHK(o->arity==0&&!o->first_child, "memory obj with normal children"); WFCHK(o->io_arity==0, "memory obj with io children");
      if (parent) { USet pcs; to_uset(parent->cpuset,pcs); WFCHK(cs==pcs, "memory child cpuset != parent's at "<<oid(o)); } }
    else WFCHK(o->depth>=0, "normal obj negative depth");
  }
  if (o->type==HWLOC_OBJ_PU) { WFCHK(cs.size()==1 && *cs.begin()==o->os_index, "PU cpuset != {os_index} "<<oid(o)); WFCHK(ccs==cs, "PU complete_cpuset"); WFCHK(c.pu_os.insert(o->os_index).second, "dup PU os_index "<<o->os_index);
    WFCHK(o->arity==0 && o->memory_arity==0, "PU with children"); WFCHK(o->depth==hwloc_topology_get_depth(c.topo)-1, "PU not at deepest level");
    if (!(c.flags&HWLOC_TOPOLOGY_FLAG_INCLUDE_DISALLOWED)) WFCHK(hwloc_bitmap_isset(hwloc_topology_get_allowed_cpuset(c.topo),o->os_index), "PU not allowed"); }
  if (o->type==HWLOC_OBJ_NUMANODE) { WFCHK(ns.size()==1 && *ns.begin()==o->os_index, "NUMA nodeset != {os_index} "<<oid(o)); WFCHK(cns==ns, "NUMA complete_nodeset"); WFCHK(c.numa_os.insert(o->os_index).second, "dup NUMA os_index"); WFCHK(o->memory_arity==0, "NUMA with memory children");
    if (!(c.flags&HWLOC_TOPOLOGY_FLAG_INCLUDE_DISALLOWED)) WFCHK(hwloc_bitmap_isset(hwloc_topology_get_allowed_nodeset(c.topo),o->os_index), "NUMA not allowed"); }
  if (o->type==HWLOC_OBJ_MACHINE) WFCHK(!parent, "Machine not root");
  if (is_cache(o->type)) { unsigned d=o->attr->cache.depth; int t=enum_int(&o->attr->cache.type); bool ic = o->type>=HWLOC_OBJ_L1ICACHE;
    if (ic) WFCHK(t==HWLOC_OBJ_CACHE_INSTRUCTION && d==(unsigned)(o->type-HWLOC_OBJ_L1ICACHE+1), "icache attr mismatch "<<oid(o));
    else WFCHK((t==HWLOC_OBJ_CACHE_UNIFIED||t==HWLOC_OBJ_CACHE_DATA) && d==(unsigned)(o->type-HWLOC_OBJ_L1CACHE+1), "cache attr mismatch "<<oid(o)); }
  // children lists
  uint64_t total = (o->type==HWLOC_OBJ_NUMANODE) ? o->attr->numanode.local_memory : 0;
  // memory children first: local nodes
  USet local; { unsigned n=0; hwloc_obj_t prev=NULL; for (hwloc_obj_t ch=o->memory_first_child; ch; prev=ch, ch=ch->next_sibling, n++) { WFCHK(is_memory(ch->type), "non-memory in memory list"); WFCHK(ch->prev_sibling==prev, "prev_sibling (mem)");
      USet sub; total += wf_obj(c,ch,o,n,USet(),sub); WFCHK(disjoint(local,sub), "memory children nodesets intersect at "<<oid(o)); local.insert(sub.begin(),sub.end()); if (n>100000) break; }
    WFCHK(n==o->memory_arity, "memory_arity "<<o->memory_arity<<" != "<<n<<" at "<<oid(o)); }
  if (o->type==HWLOC_OBJ_NUMANODE) { local.insert(o->os_index); }
  USet inh = inherited_nodes; 
  if (is_normal(o->type)) { WFCHK(disjoint(inh,local), "local nodes intersect inherited at "<<oid(o)); inh.insert(local.begin(),local.end()); }
  USet below = local; USet unioncs;
  { unsigned n=0; hwloc_obj_t prev=NULL; int prevdepth=-1; (void)prevdepth; for (hwloc_obj_t ch=o->first_child; ch; prev=ch, ch=ch->next_sibling, n++) { WFCHK(is_normal(ch->type), "non-normal in normal list"); WFCHK(ch->prev_sibling==prev, "prev_sibling"); WFCHK(ch->depth>o->depth, "child depth <= parent depth");
      if (n<o->arity && o->children) WFCHK(o->children[n]==ch, "children[] mismatch at "<<oid(o));
      USet sub; total += wf_obj(c,ch,o,n,inh,sub); WFCHK(disjoint(below,sub), "children NUMA contributions intersect at "<<oid(o)); below.insert(sub.begin(),sub.end());
      USet chcs; if (to_uset(ch->cpuset,chcs)) { WFCHK(disjoint(unioncs,chcs), "children cpusets intersect at "<<oid(o)); unioncs.insert(chcs.begin(),chcs.end()); } if (n>100000) break; }
    WFCHK(n==o->arity, "arity "<<o->arity<<" != "<<n<<" at "<<oid(o));
    if (o->arity) { WFCHK(o->first_child==o->children[0] && o->last_child==o->children[o->arity-1], "first/last child"); } else WFCHK(!o->first_child&&!o->last_child, "first/last child non-NULL with arity 0"); }
  if (is_normal(o->type) && o->type!=HWLOC_OBJ_PU) WFCHK(unioncs==cs, "cpuset != union of children cpusets at "<<oid(o)<<" cs="<<ustr(cs)<<" union="<<ustr(unioncs));
  if (is_normal(o->type)) { USet expect = inherited_nodes; expect.insert(below.begin(),below.end()); WFCHK(ns==expect, "nodeset != inherited+local+children at "<<oid(o)<<" ns="<<ustr(ns)<<" expect="<<ustr(expect)); }
  else if (o->type==HWLOC_OBJ_MEMCACHE) { WFCHK(ns==local, "memcache nodeset != union of memory children"); WFCHK(o->memory_arity>=1, "memcache without memory child"); }
  { unsigned n=0; hwloc_obj_t prev=NULL; for (hwloc_obj_t ch=o->io_first_child; ch; prev=ch, ch=ch->next_sibling, n++) { WFCHK(is_io(ch->type), "non-io in io list"); WFCHK(ch->prev_sibling==prev, "prev_sibling (io)"); USet d; wf_obj(c,ch,o,n,USet(),d); if (n>100000) break; } WFCHK(n==o->io_arity, "io_arity at "<<oid(o)); }
  { unsigned n=0; hwloc_obj_t prev=NULL; for (hwloc_obj_t ch=o->misc_first_child; ch; prev=ch, ch=ch->next_sibling, n++) { WFCHK(ch->type==HWLOC_OBJ_MISC, "non-misc in misc list"); WFCHK(ch->prev_sibling==prev, "prev_sibling (misc)"); USet d; wf_obj(c,ch,o,n,USet(),d); if (n>100000) break; } WFCHK(n==o->misc_arity, "misc_arity at "<<oid(o)); }
  // children order (mirrors hwloc__check_children_cpusets / hwloc__check_nodesets): by first bit of the complete sets
  if (!special) { int prev_first=-1; bool prev_empty=false; for (hwloc_obj_t ch=o->first_child; ch; ch=ch->next_sibling) { USet x; if(!to_uset(ch->complete_cpuset,x)) continue; int first = x.empty()?-1:(int)*x.begin(); if (first>=0) { WFCHK(!prev_empty, "child with CPUs after CPU-less child at "<<oid(o)); WFCHK(prev_first<first, "normal children not ordered by complete_cpuset at "<<oid(o)); } else prev_empty=true; prev_first=first; }
    prev_first=-1; for (hwloc_obj_t ch=o->memory_first_child; ch; ch=ch->next_sibling) { USet x; if(!to_uset(ch->complete_nodeset,x)) continue; int first = x.empty()?-1:(int)*x.begin(); WFCHK(prev_first<first, "memory children not ordered by complete_nodeset at "<<oid(o)); prev_first=first; } }
  if (o->type==HWLOC_OBJ_GROUP) WFCHK(o->attr->group.depth!=(unsigned)-1, "group depth unset at "<<oid(o));
  if (o->type==HWLOC_OBJ_BRIDGE) { int up=enum_int(&o->attr->bridge.upstream_type), down=enum_int(&o->attr->bridge.downstream_type); WFCHK(up==HWLOC_OBJ_BRIDGE_HOST||up==HWLOC_OBJ_BRIDGE_PCI, "bridge upstream type invalid at "<<oid(o)); WFCHK(down==HWLOC_OBJ_BRIDGE_PCI, "bridge downstream type not PCI at "<<oid(o)); }
  // (unknown OS-device type bits are tolerated: printing ignores them since the F-C11-a repair, and the battery checks that it terminates)
  WFCHK(o->total_memory==total, "total_memory "<<o->total_memory<<" != "<<total<<" at "<<oid(o));
  contrib_nodes = below;
  return total;
}

static void wf_check(hwloc_topology_t topo, WFError &err) {
  WFCtx c{topo, err, hwloc_topology_get_flags(topo)};
  int depth = hwloc_topology_get_depth(topo);
  WFCHK(depth>=2, "depth < 2");
  hwloc_obj_t root = hwloc_get_root_obj(topo);
  WFCHK(root && root->type==HWLOC_OBJ_MACHINE && hwloc_get_nbobjs_by_depth(topo,0)==1, "root is not a single Machine");
  if (!root) return;
  WFCHK(hwloc_get_depth_type(topo,depth-1)==HWLOC_OBJ_PU, "deepest level is not PU");
  WFCHK(hwloc_get_nbobjs_by_type(topo,HWLOC_OBJ_NUMANODE)>=1, "no NUMA node");
  USet contrib; wf_obj(c, root, NULL, 0, USet(), contrib);
  // levels
  std::vector<int> depths; for (int d=0; d<depth; d++) depths.push_back(d);
  int sp[] = {HWLOC_TYPE_DEPTH_NUMANODE,HWLOC_TYPE_DEPTH_BRIDGE,HWLOC_TYPE_DEPTH_PCI_DEVICE,HWLOC_TYPE_DEPTH_OS_DEVICE,HWLOC_TYPE_DEPTH_MISC,HWLOC_TYPE_DEPTH_MEMCACHE}; for (int d: sp) depths.push_back(d);
  size_t total_in_levels=0;
  for (int d : depths) {
    unsigned n = hwloc_get_nbobjs_by_depth(topo,d); total_in_levels+=n;
    hwloc_obj_type_t lt = hwloc_get_depth_type(topo,d);
    if (d>=0) WFCHK(n>=1, "empty normal level "<<d);
    hwloc_obj_t prev=NULL;
    for (unsigned i=0;i<n;i++) { hwloc_obj_t o = hwloc_get_obj_by_depth(topo,d,i); WFCHK(o, "NULL obj in level "<<d<<" idx "<<i); if (!o) break;
      WFCHK(c.seen.count(o), "level object not in tree "<<d<<":"<<i);
      WFCHK(o->depth==d && o->logical_index==i, "depth/logical_index mismatch at "<<oid(o)<<" expected d"<<d<<" L"<<i);
      WFCHK(o->type==lt, "type differs from level type at "<<oid(o)); WFCHK(o->prev_cousin==prev, "prev_cousin at "<<oid(o)); if (prev) WFCHK(prev->next_cousin==o, "next_cousin at "<<oid(prev));
      if (o->type==HWLOC_OBJ_GROUP && prev) WFCHK(o->attr->group.depth==prev->attr->group.depth, "group depth differs within level");
      prev=o; }
    if (prev) WFCHK(prev->next_cousin==NULL, "last next_cousin not NULL depth "<<d);
    WFCHK(hwloc_get_obj_by_depth(topo,d,n)==NULL, "obj beyond level width");
    if (n) { int td = hwloc_get_type_depth(topo,lt); WFCHK(td==d || (td==HWLOC_TYPE_DEPTH_MULTIPLE && d>=0), "get_type_depth("<<hwloc_obj_type_string(lt)<<")="<<td<<" vs level "<<d); }
    if (d>0 && d<depth-1) WFCHK(lt!=HWLOC_OBJ_PU && lt!=HWLOC_OBJ_MACHINE, "PU/Machine at intermediate level");
    // DFS order of the walk must match level order (logical order = tree order)
    auto &w = c.bydepth_walk[d]; WFCHK(w.size()==n, "level width "<<n<<" != objects found by walk "<<w.size()<<" at depth "<<d);
    if (d>=0 && w.size()==n) for (unsigned i=0;i<n;i++) WFCHK(w[i]==hwloc_get_obj_by_depth(topo,d,i), "level order != DFS order at depth "<<d<<" idx "<<i);
  }
  WFCHK(total_in_levels==c.seen.size(), "objects in levels "<<total_in_levels<<" != objects in tree "<<c.seen.size());
  for (int t=0;t<HWLOC_OBJ_TYPE_MAX;t++) { int td = hwloc_get_type_depth(topo,(hwloc_obj_type_t)t); if (td>=0) WFCHK(hwloc_get_depth_type(topo,td)==(hwloc_obj_type_t)t, "type/depth not inverse for "<<hwloc_obj_type_string((hwloc_obj_type_t)t));
    if (special_depth((hwloc_obj_type_t)t)) WFCHK(td==special_depth((hwloc_obj_type_t)t), "special type depth"); }
  // allowed sets
  USet acs, ans, rcs, rns; std::string why; bool ok = to_uset(hwloc_topology_get_allowed_cpuset(topo),acs,&why)&&to_uset(hwloc_topology_get_allowed_nodeset(topo),ans,&why)&&to_uset(root->cpuset,rcs,&why)&&to_uset(root->nodeset,rns,&why);
  WFCHK(ok, "allowed/root sets: "<<why);
  if (ok) { if (c.flags&HWLOC_TOPOLOGY_FLAG_INCLUDE_DISALLOWED) { WFCHK(subset(acs,rcs), "allowed_cpuset not in root cpuset"); WFCHK(subset(ans,rns), "allowed_nodeset not in root nodeset"); }
    else { WFCHK(acs==rcs, "allowed_cpuset != root cpuset (acs="<<ustr(acs)<<" rcs="<<ustr(rcs)<<")"); WFCHK(ans==rns, "allowed_nodeset != root nodeset"); }
    WFCHK(rcs==c.pu_os, "root cpuset != set of PU os_indexes"); WFCHK(rns==c.numa_os, "root nodeset != set of NUMA os_indexes"); }
  WFCHK(hwloc_topology_get_topology_cpuset(topo)==root->cpuset && hwloc_topology_get_complete_cpuset(topo)==root->complete_cpuset, "topology set getters");
}
