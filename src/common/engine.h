// rcfork engine: rapidcheck owns generation/shrinking of a "tape" of integers in the parent process;
// every case is decoded and executed against hwloc in a forked child (so asserts, sanitizer aborts and
// hangs shrink exactly like oracle failures).  See DESIGN.md section 2.2.
#pragma once
#include <cstdint>
#include <cstdarg>
#include <string>
#include <vector>

struct Draw {
  const std::vector<uint32_t> *v = nullptr;
  size_t pos = 0;
  uint32_t raw() { return (v && pos < v->size()) ? (*v)[pos++] : 0; }
  // uniform in [lo,hi]; tape value 0 -> lo (so lo should be the simplest choice)
  int range(int lo, int hi) { if (hi <= lo) { raw(); return lo; } return lo + (int)(raw() % (uint32_t)(hi - lo + 1)); }
  unsigned urange(unsigned lo, unsigned hi) { if (hi <= lo) { raw(); return lo; } return lo + raw() % (hi - lo + 1); }
  // true with probability num/den; tape value 0 -> false
  bool chance(int num, int den) { uint32_t r = raw() % (uint32_t)den; return r >= (uint32_t)(den - num); }
  template <class T> const T &pick(const std::vector<T> &c) { return c[raw() % c.size()]; }
  template <class T, size_t N> const T &pick(const T (&c)[N]) { return c[raw() % N]; }
  bool exhausted() const { return !v || pos >= v->size(); }
};

struct Case {
  Draw head;
  std::vector<Draw> ops;
  // --- reporting (all go to a page shared with the parent) ---
  void desc(const std::string &s);             // append to the human-readable description of the decoded case
  void descf(const char *fmt, ...) __attribute__((format(printf, 2, 3)));
  void cls(const char *name, unsigned n = 1);  // classification counter
  void attempt(const std::string &s);          // what is about to be executed (reported if the child dies inside it)
  void nontrivial();                           // mark the case non-trivial (by the harness' stated rule)
  void checks(unsigned n = 1);                 // number of oracle assertions evaluated
  void excluded(const char *finding_id);       // a known finding's trigger was excluded by construction
  [[noreturn]] void fail(const char *rule, const char *fmt, ...) __attribute__((format(printf, 3, 4)));
  [[noreturn]] void discard();                 // case is outside the domain (counted, not a failure)
  std::string description() const;
};

#define CHECK(c, cond, rule, ...) do { (c).checks(); if (!(cond)) (c).fail(rule, __VA_ARGS__); } while (0)

struct HConfig {
  const char *property = "C00";
  const char *name = "harness";
  const char *rule = "";           // text for evidence.coverage.rule
  unsigned head_len = 64;          // number of draws available to the case header
  unsigned op_len = 12;            // draws per operation
  unsigned max_ops = 12;           // upper bound on generated history length (rapidcheck size)
  bool leak_check = true;          // __lsan_do_recoverable_leak_check() at the end of each case
  unsigned cpu_limit_s = 20;       // CPU seconds per case before "timeout"
  unsigned wall_limit_s = 0;       // wall-clock seconds per case (0 = none); needed when threads can block each other
  bool hang_is_violation = false;  // properties that include termination
  bool warm_xml = true;            // do one XML export+import in the parent before forking
};

// provided by each harness
void h_configure(HConfig &cfg);
void h_run(Case &c);
// optional per-process initialisation in the parent (before any fork); default does nothing
void h_init_parent() __attribute__((weak));
// optional: called in the parent after every evaluated case, whatever its outcome (C18 restores its fault-injected snapshot here)
void h_after_case_parent() __attribute__((weak));
// optional: deterministic named regression cases ("named: <id>" replay files); returns false if the name is unknown.
// These bypass the generator entirely, so they stay valid when generators change.
bool h_named(const std::string &name, Case &c) __attribute__((weak));

// helpers
uint64_t fnv1a(const void *p, size_t n, uint64_t h = 1469598103934665603ULL);
std::string strf(const char *fmt, ...) __attribute__((format(printf, 1, 2)));
// printable rendering of a C string (NULL-safe)
static inline std::string qstr(const char *s) { if (!s) return "(null)"; std::string r = "\""; for (const char *p = s; *p; p++) { unsigned char ch = *p; if (ch < 0x20 || ch >= 0x7f || ch == '"' || ch == '\\') { char b[8]; __builtin_snprintf(b, sizeof b, "\\x%02x", ch); r += b; } else r += (char)ch; } return r + "\""; }
const char *h_workdir();   // per-worker scratch directory (exists), from --workdir
