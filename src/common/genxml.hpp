// Generated hwloc-format XML documents, written from an abstract tree and NOT through hwloc's exporter (DESIGN.md 12.7).
// The tree is consistent by construction (sets, child order, singleton PU/NUMA sets), so an importer that loads it must produce a
// well-formed topology, and the abstract values are the oracle for what the importer read ("import fidelity").
// What it reaches that synthetic descriptions and the stored files do not: asymmetric trees (levels present in some branches only),
// memory attached at different levels in different branches, several NUMA nodes per object, memory-side caches, offline PUs / nodes
// (complete sets larger than the sets), disallowed PUs / nodes, sparse and shuffled gp_index values, optional attributes left out
// (allowed_*, complete_*), Misc and I/O children anywhere, several Group levels with kinds, L1i caches, Die levels.
#pragma once
#include "engine.h"
#include "snap.hpp"
#include <hwloc.h>
#include <string>
#include <vector>
#include <memory>
#include <map>
#include <functional>
#include <algorithm>

struct GNode {
  hwloc_obj_type_t type = HWLOC_OBJ_MACHINE;
  long os = -1;                        // -1: no os_index attribute
  USet cs, ccs, ns, cns;               // normal and memory objects only
  std::vector<std::unique_ptr<GNode>> mem, kids, io, misc;
  std::string name, subtype;
  std::vector<std::pair<std::string, std::string>> infos;
  uint64_t gp = 0;
  unsigned cdepth = 0, ctype = 0, linesize = 0; int assoc = 0; uint64_t csize = 0;   // caches
  unsigned gkind = 0, gsubkind = 0; bool dont_merge = false;                          // groups
  uint64_t localmem = 0; std::vector<std::pair<uint64_t, uint64_t>> pages;                                                               // NUMA nodes
  unsigned pdom = 0, pbus = 0, pdev = 0, pfunc = 0, secbus = 0, subbus = 0; bool hostbridge = false; unsigned osdev = 0;   // I/O
};

struct GenXmlOpts { int max_pus = 20; bool allow_io = true; bool allow_misc = true; bool allow_disallowed = true; bool allow_offline = true; bool allow_omit = true; };

struct GenXml {
  std::unique_ptr<GNode> root;
  std::string text, summary;
  USet pus, numas, allowed_c, allowed_n, offline_c, offline_n;
  bool has_allowed_attrs = true, has_complete_attrs = true, asym = false, has_memcache = false, multi_numa_obj = false, interleaved = false;
  unsigned nio = 0, nmisc = 0, ngroups = 0;
  uint64_t total_memory = 0;
};

static std::string gx_bitmap(const USet &s) {   // hwloc format by hand (32-bit groups, highest first), independent of hwloc_bitmap_snprintf
  if (s.empty()) return "0x0";
  unsigned top = *s.rbegin() / 32; std::string r;
  for (int g = (int)top; g >= 0; g--) { uint32_t w = 0; for (unsigned b = 0; b < 32; b++) if (s.count(g * 32 + b)) w |= 1u << b; char buf[16]; if (w || g == (int)top || g == 0) { snprintf(buf, sizeof buf, "0x%08x", w); r += buf; } if (g) r += ","; }   // empty middle groups may be left blank, the last one may not
  return r;
}
static std::string gx_esc(const std::string &v) { std::string r; for (char ch : v) { if (ch == '&') r += "&amp;"; else if (ch == '<') r += "&lt;"; else if (ch == '>') r += "&gt;"; else if (ch == '"') r += "&quot;"; else r += ch; } return r; }

struct GxCtx { Draw &d; GenXml &g; const GenXmlOpts &o; std::vector<unsigned> online; std::vector<std::vector<unsigned>> extra /* offline indexes owned by online[i] */; std::vector<hwloc_obj_type_t> chain; std::vector<bool> use; std::vector<GNode *> normals; uint64_t next_gp = 1; };

static std::unique_ptr<GNode> gx_new(GxCtx &x, hwloc_obj_type_t ty) { std::unique_ptr<GNode> n(new GNode); n->type = ty; return n; }

static void gx_build(GxCtx &x, GNode *parent, unsigned lo, unsigned hi, unsigned level) {
  // PUs online[lo..hi) become the normal children of `parent`, below the remaining levels of the chain
  Draw &d = x.d;
  while (level < x.chain.size()) { bool inc = x.use[level]; if (x.g.asym && d.chance(1, 4)) inc = !inc; if (inc) break; level++; }
  if (level == x.chain.size()) {
    for (unsigned i = lo; i < hi; i++) { auto pu = gx_new(x, HWLOC_OBJ_PU); pu->os = x.online[i]; pu->cs.insert(x.online[i]); pu->ccs = pu->cs; parent->kids.push_back(std::move(pu)); }
    // offline indexes owned by these PUs stay in the parent's complete set
    for (unsigned i = lo; i < hi; i++) for (unsigned e : x.extra[i]) parent->ccs.insert(e);
    return;
  }
  hwloc_obj_type_t ty = x.chain[level]; unsigned n = hi - lo; unsigned parts = 1 + d.range(0, 2); if (parts > n) parts = n; if (ty == HWLOC_OBJ_CORE && n <= 4 && d.chance(1, 2)) parts = d.chance(1, 2) ? n : (n + 1) / 2;   // cores with one or two PUs are the common shapes
  unsigned start = lo;
  for (unsigned p = 0; p < parts; p++) {
    unsigned remaining = hi - start, left = parts - p; unsigned sz = left == 1 ? remaining : 1 + d.range(0, (int)(remaining - left)); if (!x.g.asym && left > 1) sz = std::max(1u, remaining / left);
    auto node = gx_new(x, ty); GNode *np = node.get();
    if (ty == HWLOC_OBJ_PACKAGE || ty == HWLOC_OBJ_CORE || ty == HWLOC_OBJ_DIE) np->os = (long)(p + 10 * level + (ty == HWLOC_OBJ_CORE ? start : 0));
    if (ty >= HWLOC_OBJ_L1CACHE && ty <= HWLOC_OBJ_L3ICACHE) { bool icache = ty >= HWLOC_OBJ_L1ICACHE; np->cdepth = icache ? ty - HWLOC_OBJ_L1ICACHE + 1 : ty - HWLOC_OBJ_L1CACHE + 1; np->ctype = icache ? 2 : (np->cdepth == 1 ? 1 : 0); np->csize = (uint64_t)(32768u << (2 * np->cdepth)) + (d.chance(1, 4) ? 4096 : 0); np->linesize = d.chance(1, 5) ? 0 : 64; np->assoc = d.chance(1, 4) ? -1 : (int)d.range(0, 16); }
    if (ty == HWLOC_OBJ_GROUP) { np->gkind = d.chance(1, 2) ? 0 : d.range(1, 6) * 100 + 1; np->gsubkind = d.range(0, 2); np->dont_merge = d.chance(1, 4); x.g.ngroups++; }
    gx_build(x, np, start, start + sz, level + 1);
    for (auto &k : np->kids) { np->cs.insert(k->cs.begin(), k->cs.end()); np->ccs.insert(k->ccs.begin(), k->ccs.end()); }
    x.normals.push_back(np);
    parent->kids.push_back(std::move(node)); start += sz;
  }
}

static void gx_nodesets(GNode *n, const USet &inherited, USet &contrib) {
  // ns = NUMA nodes attached at ancestors (inherited) + attached here + attached below
  USet local; for (auto &m : n->mem) { GNode *nn = m->type == HWLOC_OBJ_MEMCACHE ? m->mem[0].get() : m.get(); local.insert((unsigned)nn->os); }
  USet down = inherited; down.insert(local.begin(), local.end());
  USet below; for (auto &k : n->kids) gx_nodesets(k.get(), down, below);
  n->ns = down; n->ns.insert(below.begin(), below.end()); n->cns = n->ns;
  for (auto &m : n->mem) { GNode *nn = m.get(); if (m->type == HWLOC_OBJ_MEMCACHE) { nn = m->mem[0].get(); m->cs = n->cs; m->ccs = n->ccs; m->ns.clear(); m->ns.insert((unsigned)nn->os); m->cns = m->ns; } nn->cs = n->cs; nn->ccs = n->ccs; nn->ns.clear(); nn->ns.insert((unsigned)nn->os); nn->cns = nn->ns; }
  contrib.insert(local.begin(), local.end()); contrib.insert(below.begin(), below.end());
}

static void gx_number(GxCtx &x, GNode *n, std::vector<GNode *> &all) { all.push_back(n); for (auto &m : n->mem) gx_number(x, m.get(), all); for (auto &k : n->kids) gx_number(x, k.get(), all); for (auto &k : n->io) gx_number(x, k.get(), all); for (auto &k : n->misc) gx_number(x, k.get(), all); }

static void gx_write(const GenXml &g, const GNode *n, std::string &o, int ind, bool isroot) {
  std::string pad(ind, ' '); o += pad + "<object type=\"" + hwloc_obj_type_string(n->type) + "\"";
  if (n->os >= 0) o += strf(" os_index=\"%ld\"", n->os);
  bool sets = n->type <= HWLOC_OBJ_GROUP || n->type == HWLOC_OBJ_NUMANODE || n->type == HWLOC_OBJ_MEMCACHE;
  if (sets) { o += " cpuset=\"" + gx_bitmap(n->cs) + "\""; if (g.has_complete_attrs || n->ccs != n->cs) o += " complete_cpuset=\"" + gx_bitmap(n->ccs) + "\""; if (isroot && g.has_allowed_attrs) o += " allowed_cpuset=\"" + gx_bitmap(g.allowed_c) + "\"";
    o += " nodeset=\"" + gx_bitmap(n->ns) + "\""; if (g.has_complete_attrs || n->cns != n->ns) o += " complete_nodeset=\"" + gx_bitmap(n->cns) + "\""; if (isroot && g.has_allowed_attrs) o += " allowed_nodeset=\"" + gx_bitmap(g.allowed_n) + "\""; }
  o += strf(" gp_index=\"%llu\"", (unsigned long long)n->gp);
  if (!n->name.empty()) o += " name=\"" + gx_esc(n->name) + "\""; if (!n->subtype.empty()) o += " subtype=\"" + gx_esc(n->subtype) + "\"";
  if (n->type == HWLOC_OBJ_NUMANODE) o += strf(" local_memory=\"%llu\"", (unsigned long long)n->localmem);
  if ((n->type >= HWLOC_OBJ_L1CACHE && n->type <= HWLOC_OBJ_L3ICACHE) || n->type == HWLOC_OBJ_MEMCACHE) o += strf(" cache_size=\"%llu\" depth=\"%u\" cache_linesize=\"%u\" cache_associativity=\"%d\" cache_type=\"%u\"", (unsigned long long)n->csize, n->cdepth, n->linesize, n->assoc, n->ctype);
  if (n->type == HWLOC_OBJ_GROUP) { o += strf(" kind=\"%u\" subkind=\"%u\"", n->gkind, n->gsubkind); if (n->dont_merge) o += " dont_merge=\"1\""; }
  if (n->type == HWLOC_OBJ_BRIDGE) { if (n->hostbridge) o += strf(" bridge_type=\"0-1\" depth=\"0\" bridge_pci=\"%04x:[%02x-%02x]\"", n->pdom, n->secbus, n->subbus); else o += strf(" bridge_type=\"1-1\" depth=\"1\" bridge_pci=\"%04x:[%02x-%02x]\" pci_busid=\"%04x:%02x:%02x.%01x\" pci_type=\"0604 [8086:3c08] [0000:0000] 07 00\" pci_link_speed=\"0.000000\"", n->pdom, n->secbus, n->subbus, n->pdom, n->pbus, n->pdev, n->pfunc); }
  if (n->type == HWLOC_OBJ_PCI_DEVICE) o += strf(" pci_busid=\"%04x:%02x:%02x.%01x\" pci_type=\"0200 [8086:1521] [00d9:0021] 01 00\" pci_link_speed=\"2.000000\"", n->pdom, n->pbus, n->pdev, n->pfunc);
  if (n->type == HWLOC_OBJ_OS_DEVICE) o += strf(" osdev_type=\"%u\"", n->osdev);
  bool leaf = n->mem.empty() && n->kids.empty() && n->io.empty() && n->misc.empty() && n->infos.empty() && n->pages.empty();
  if (leaf) { o += "/>\n"; return; }
  o += ">\n";
  for (auto &pg : n->pages) o += pad + strf("  <page_type size=\"%llu\" count=\"%llu\"/>\n", (unsigned long long)pg.first, (unsigned long long)pg.second);
  for (auto &kv : n->infos) o += pad + "  <info name=\"" + gx_esc(kv.first) + "\" value=\"" + gx_esc(kv.second) + "\"/>\n";
  for (auto &m : n->mem) gx_write(g, m.get(), o, ind + 2, false); for (auto &k : n->kids) gx_write(g, k.get(), o, ind + 2, false); for (auto &k : n->io) gx_write(g, k.get(), o, ind + 2, false); for (auto &k : n->misc) gx_write(g, k.get(), o, ind + 2, false);
  o += pad + "</object>\n";
}

static GenXml gen_xml(Draw &d, const GenXmlOpts &o = GenXmlOpts()) {
  GenXml g; GxCtx x{d, g, o};
  // index space: online PUs (objects) and offline indexes (complete sets only), each offline index owned by the online PU before it
  unsigned npu = 1 + d.range(0, o.max_pus - 1); unsigned idx = d.chance(1, 3) ? d.range(0, 3) : 0; bool sparse = d.chance(1, 3); std::vector<unsigned> pending;
  while (x.online.size() < npu) { bool off = o.allow_offline && d.chance(1, 12); if (off) { g.offline_c.insert(idx); pending.push_back(idx); } else { x.online.push_back(idx); x.extra.push_back(pending); pending.clear(); } idx += 1 + (sparse && d.chance(1, 4) ? d.range(1, 40) : 0); }
  if (o.allow_offline && d.chance(1, 10)) { g.offline_c.insert(idx); x.extra.back().push_back(idx); }
  for (auto p : x.online) g.pus.insert(p);
  g.asym = d.chance(1, 2);
  x.chain = {HWLOC_OBJ_GROUP, HWLOC_OBJ_PACKAGE, HWLOC_OBJ_DIE, HWLOC_OBJ_GROUP, HWLOC_OBJ_L3CACHE, HWLOC_OBJ_L2CACHE, HWLOC_OBJ_L1CACHE, HWLOC_OBJ_L1ICACHE, HWLOC_OBJ_CORE};
  static const int prob[] = {6, 2, 5, 6, 3, 3, 3, 5, 2};   // 1-in-N chance of leaving a level out
  for (unsigned i = 0; i < x.chain.size(); i++) x.use.push_back(prob[i] <= 2 ? !d.chance(1, 4) : d.chance(1, prob[i] - 1));   // Package and Core usually present, the others less often
  g.root = gx_new(x, HWLOC_OBJ_MACHINE); g.root->os = 0; GNode *root = g.root.get();
  gx_build(x, root, 0, npu, 0);
  for (auto &k : root->kids) { root->cs.insert(k->cs.begin(), k->cs.end()); root->ccs.insert(k->ccs.begin(), k->ccs.end()); }
  x.normals.push_back(root);
  // one document in three: OS indexes interleaved across the tree (package 0 = CPUs 0,4,8,12 as on real machines) instead of contiguous
  // ranges: a random bijection on the index space, then every children list sorted by the first bit of its complete set
  if (d.chance(1, 3)) { std::vector<unsigned> from; for (auto v : root->ccs) from.push_back(v); std::vector<unsigned> to = from; for (size_t i = to.size(); i > 1; i--) std::swap(to[i - 1], to[d.raw() % i]); std::map<unsigned, unsigned> pi; for (size_t i = 0; i < from.size(); i++) pi[from[i]] = to[i];
    auto mapset = [&](USet &u) { USet r; for (auto v : u) r.insert(pi[v]); u = r; };
    std::function<void(GNode *)> rec = [&](GNode *n) { mapset(n->cs); mapset(n->ccs); if (n->type == HWLOC_OBJ_PU) n->os = (long)*n->cs.begin(); for (auto &k : n->kids) rec(k.get()); std::sort(n->kids.begin(), n->kids.end(), [](const std::unique_ptr<GNode> &a, const std::unique_ptr<GNode> &b) { return *a->ccs.begin() < *b->ccs.begin(); }); };
    rec(root); mapset(g.pus); mapset(g.offline_c); g.interleaved = true; }
  // NUMA nodes: memory children of arbitrary normal non-PU objects (several per object allowed), optionally behind a memory-side cache
  unsigned nnuma = 1 + (d.chance(1, 2) ? d.range(0, 4) : 0); unsigned nidx = d.chance(1, 4) ? d.range(0, 2) : 0; std::vector<unsigned> nos; for (unsigned i = 0; i < nnuma; i++) { nos.push_back(nidx); nidx += 1 + (d.chance(1, 5) ? d.range(1, 3) : 0); }
  int attach_mode = d.range(0, 2);   // 0: anywhere, 1: all at the root, 2: at one level's objects in order
  for (unsigned i = 0; i < nnuma; i++) { GNode *host = attach_mode == 1 ? root : x.normals[d.raw() % x.normals.size()]; auto nn = gx_new(x, HWLOC_OBJ_NUMANODE); nn->os = nos[i]; nn->localmem = d.chance(1, 6) ? 0 : ((uint64_t)d.range(1, 64) << 26); g.total_memory += nn->localmem; g.numas.insert(nos[i]);
    if (d.chance(1, 2)) { nn->pages.push_back({4096, nn->localmem / 4096}); if (d.chance(1, 2)) nn->pages.push_back({2097152, nn->localmem ? (uint64_t)d.range(0, 8) : 0}); }   // memory-less nodes list their page sizes too (count 0), as Linux reports them
    if (!host->mem.empty()) g.multi_numa_obj = true;
    if (d.chance(1, 6)) { auto mc = gx_new(x, HWLOC_OBJ_MEMCACHE); mc->cdepth = 1; mc->ctype = 0; mc->csize = (uint64_t)d.range(1, 16) << 24; mc->linesize = 64; mc->assoc = 0; mc->mem.push_back(std::move(nn)); host->mem.push_back(std::move(mc)); g.has_memcache = true; } else host->mem.push_back(std::move(nn)); }
  for (GNode *n : x.normals) std::sort(n->mem.begin(), n->mem.end(), [](const std::unique_ptr<GNode> &a, const std::unique_ptr<GNode> &b) { long oa = a->type == HWLOC_OBJ_MEMCACHE ? a->mem[0]->os : a->os, ob = b->type == HWLOC_OBJ_MEMCACHE ? b->mem[0]->os : b->os; return oa < ob; });
  { USet none, contrib; gx_nodesets(root, none, contrib); }
  if (o.allow_offline && d.chance(1, 8)) { unsigned off = nidx + d.range(0, 2); g.offline_n.insert(off); root->cns.insert(off); }
  // allowed sets: everything, or one PU / one node disallowed
  g.allowed_c = g.pus; g.allowed_n = g.numas;
  if (o.allow_disallowed && g.pus.size() > 1 && d.chance(1, 6)) { auto it = g.allowed_c.begin(); std::advance(it, d.raw() % g.allowed_c.size()); g.allowed_c.erase(it); }
  if (o.allow_disallowed && g.numas.size() > 1 && d.chance(1, 8)) { auto it = g.allowed_n.begin(); std::advance(it, d.raw() % g.allowed_n.size()); g.allowed_n.erase(it); }
  if (o.allow_omit) { g.has_allowed_attrs = !d.chance(1, 5); g.has_complete_attrs = !d.chance(1, 6); if (!g.has_allowed_attrs) { g.allowed_c = g.pus; g.allowed_n = g.numas; } }
  // decorations: names, subtypes, infos, Misc and I/O children; one document in four is heavily decorated (Misc on most objects, so that
  // objects and their single child both carry special children), and memory objects carry Misc children too
  int miscden = d.chance(1, 4) ? 2 : 10;
  if (o.allow_misc) { std::vector<GNode *> memobjs; for (GNode *n : x.normals) for (auto &m : n->mem) { memobjs.push_back(m.get()); if (m->type == HWLOC_OBJ_MEMCACHE) memobjs.push_back(m->mem[0].get()); }
    for (GNode *mo : memobjs) if (d.chance(1, miscden == 2 ? 2 : 6)) { auto m = gx_new(x, HWLOC_OBJ_MISC); m->name = mo->type == HWLOC_OBJ_MEMCACHE ? "misc-on-memcache" : "misc-on-numa"; mo->misc.push_back(std::move(m)); g.nmisc++; } }
  for (GNode *n : x.normals) { if (d.chance(1, 6)) n->name = d.chance(1, 2) ? "nm" : "a<b&c\"d"; if (d.chance(1, 8)) n->subtype = "sub"; if (d.chance(1, 6)) n->infos.push_back({"k", d.chance(1, 2) ? "v" : "x>y"});
    if (o.allow_misc && d.chance(1, miscden)) { auto m = gx_new(x, HWLOC_OBJ_MISC); m->name = "misc"; if (d.chance(1, 3)) { auto m2 = gx_new(x, HWLOC_OBJ_MISC); m2->name = "inner"; m->misc.push_back(std::move(m2)); g.nmisc++; } n->misc.push_back(std::move(m)); g.nmisc++; } }
  if (o.allow_io && d.chance(1, 3)) { unsigned nhb = 1 + d.range(0, 1); for (unsigned h = 0; h < nhb; h++) { GNode *host = x.normals[d.raw() % x.normals.size()]; auto hb = gx_new(x, HWLOC_OBJ_BRIDGE); hb->hostbridge = true; hb->pdom = d.chance(1, 8) ? 0x10000 : 0; hb->secbus = h * 0x40; hb->subbus = h * 0x40 + 0x3f;
      unsigned ndev = 1 + d.range(0, 2); for (unsigned k = 0; k < ndev; k++) { auto pd = gx_new(x, HWLOC_OBJ_PCI_DEVICE); pd->pdom = hb->pdom; pd->pbus = hb->secbus; pd->pdev = k + 1; pd->pfunc = d.range(0, 1); if (d.chance(1, 2)) { auto od = gx_new(x, HWLOC_OBJ_OS_DEVICE); od->name = strf("dev%u", k); od->osdev = 1u << d.range(0, 6); pd->io.push_back(std::move(od)); g.nio++; } hb->io.push_back(std::move(pd)); g.nio++; }
      if (d.chance(1, 2)) { auto br = gx_new(x, HWLOC_OBJ_BRIDGE); br->pdom = hb->pdom; br->pbus = hb->secbus; br->pdev = 0x1f; br->secbus = hb->secbus + 1; br->subbus = hb->secbus + 2; auto pd = gx_new(x, HWLOC_OBJ_PCI_DEVICE); pd->pdom = hb->pdom; pd->pbus = br->secbus; pd->pdev = 0; br->io.push_back(std::move(pd)); hb->io.push_back(std::move(br)); g.nio += 2; }
      host->io.push_back(std::move(hb)); g.nio++; } }
  // gp_index: unique, shuffled, possibly sparse
  { std::vector<GNode *> all; gx_number(x, root, all); std::vector<uint64_t> ids; uint64_t cur = 1; for (size_t i = 0; i < all.size(); i++) { ids.push_back(cur); cur += 1 + (d.chance(1, 6) ? d.range(1, 50) : 0); } if (d.chance(1, 2)) for (size_t i = ids.size(); i > 1; i--) std::swap(ids[i - 1], ids[d.raw() % i]); for (size_t i = 0; i < all.size(); i++) all[i]->gp = ids[i]; }
  g.text = "<?xml version=\"1.0\" encoding=\"UTF-8\"?>\n<!DOCTYPE topology SYSTEM \"hwloc2.dtd\">\n<topology version=\"3.0\">\n"; gx_write(g, root, g.text, 2, true); g.text += "</topology>\n";
  g.summary = strf("genxml(%zu PUs%s%s, %zu NUMA%s%s%s, offline cpus {%s} nodes {%s}, %s%s, %u io, %u misc, %u groups)", g.pus.size(), g.asym ? ", asymmetric" : "", g.interleaved ? ", interleaved indexes" : "", g.numas.size(), g.has_memcache ? "+memcache" : "", g.multi_numa_obj ? ", several per object" : "", attach_mode == 1 ? " at the root" : "", ustr(g.offline_c).c_str(), ustr(g.offline_n).c_str(),
                   g.has_allowed_attrs ? strf("allowed cpus {%s} nodes {%s}", ustr(g.allowed_c).c_str(), ustr(g.allowed_n).c_str()).c_str() : "no allowed_* attributes", g.has_complete_attrs ? "" : ", complete_* left out where equal", g.nio, g.nmisc, g.ngroups);
  return g;
}

// Import fidelity: a topology loaded from the document with every type kept and INCLUDE_DISALLOWED must hold exactly the abstract tree.
static void gx_compare(Case &c, const GNode *n, hwloc_obj_t o, const GenXml &g) {
  CHECK(c, o->type == n->type, "genxml_fidelity", "object gp %llu: type %s, the document says %s", (unsigned long long)n->gp, hwloc_obj_type_string(o->type), hwloc_obj_type_string(n->type));
  CHECK(c, o->gp_index == n->gp, "genxml_fidelity", "%s: gp_index %llu, the document says %llu", hwloc_obj_type_string(n->type), (unsigned long long)o->gp_index, (unsigned long long)n->gp);
  if (n->os >= 0) CHECK(c, o->os_index == (unsigned)n->os, "genxml_fidelity", "%s gp %llu: os_index %u, the document says %ld", hwloc_obj_type_string(n->type), (unsigned long long)n->gp, o->os_index, n->os);
  bool sets = n->type <= HWLOC_OBJ_GROUP || n->type == HWLOC_OBJ_NUMANODE || n->type == HWLOC_OBJ_MEMCACHE;
  if (sets) { USet a, b, e, f; to_uset(o->cpuset, a); to_uset(o->complete_cpuset, b); to_uset(o->nodeset, e); to_uset(o->complete_nodeset, f);
    CHECK(c, a == n->cs && b == n->ccs && e == n->ns && f == n->cns, "genxml_fidelity", "%s gp %llu: sets {%s}/{%s}/{%s}/{%s}, the document says {%s}/{%s}/{%s}/{%s}", hwloc_obj_type_string(n->type), (unsigned long long)n->gp, ustr(a).c_str(), ustr(b).c_str(), ustr(e).c_str(), ustr(f).c_str(), ustr(n->cs).c_str(), ustr(n->ccs).c_str(), ustr(n->ns).c_str(), ustr(n->cns).c_str()); }
  else CHECK(c, !o->cpuset && !o->nodeset, "genxml_fidelity", "I/O or Misc object with sets");
  CHECK(c, (o->name ? std::string(o->name) : std::string()) == n->name && (o->subtype ? std::string(o->subtype) : std::string()) == n->subtype, "genxml_fidelity", "%s gp %llu: name %s subtype %s, the document says %s / %s", hwloc_obj_type_string(n->type), (unsigned long long)n->gp, qstr(o->name).c_str(), qstr(o->subtype).c_str(), qstr(n->name.c_str()).c_str(), qstr(n->subtype.c_str()).c_str());
  CHECK(c, o->infos.count == n->infos.size(), "genxml_fidelity", "%s gp %llu: %u info pairs, the document has %zu", hwloc_obj_type_string(n->type), (unsigned long long)n->gp, o->infos.count, n->infos.size());
  for (unsigned i = 0; i < o->infos.count; i++) CHECK(c, n->infos[i].first == o->infos.array[i].name && n->infos[i].second == o->infos.array[i].value, "genxml_fidelity", "info pair %u of gp %llu differs", i, (unsigned long long)n->gp);
  if (n->type == HWLOC_OBJ_NUMANODE) { CHECK(c, o->attr->numanode.page_types_len == n->pages.size(), "genxml_fidelity", "NUMA node %ld: %u page types, the document has %zu", n->os, o->attr->numanode.page_types_len, n->pages.size()); for (size_t i = 0; i < n->pages.size(); i++) CHECK(c, o->attr->numanode.page_types[i].size == n->pages[i].first && o->attr->numanode.page_types[i].count == n->pages[i].second, "genxml_fidelity", "NUMA node %ld: page type %zu is %llu x %llu, the document says %llu x %llu", n->os, i, (unsigned long long)o->attr->numanode.page_types[i].size, (unsigned long long)o->attr->numanode.page_types[i].count, (unsigned long long)n->pages[i].first, (unsigned long long)n->pages[i].second); }
  if (n->type == HWLOC_OBJ_NUMANODE) CHECK(c, o->attr->numanode.local_memory == n->localmem, "genxml_fidelity", "NUMA node %ld: local_memory %llu, the document says %llu", n->os, (unsigned long long)o->attr->numanode.local_memory, (unsigned long long)n->localmem);
  if ((n->type >= HWLOC_OBJ_L1CACHE && n->type <= HWLOC_OBJ_L3ICACHE) || n->type == HWLOC_OBJ_MEMCACHE) CHECK(c, o->attr->cache.size == n->csize && o->attr->cache.depth == n->cdepth && o->attr->cache.linesize == n->linesize && o->attr->cache.associativity == n->assoc && (unsigned)o->attr->cache.type == n->ctype, "genxml_fidelity",
      "%s gp %llu: cache attributes size %llu depth %u line %u assoc %d type %d, the document says %llu %u %u %d %u", hwloc_obj_type_string(n->type), (unsigned long long)n->gp, (unsigned long long)o->attr->cache.size, o->attr->cache.depth, o->attr->cache.linesize, o->attr->cache.associativity, (int)o->attr->cache.type, (unsigned long long)n->csize, n->cdepth, n->linesize, n->assoc, n->ctype);
  if (n->type == HWLOC_OBJ_GROUP) CHECK(c, o->attr->group.kind == n->gkind && o->attr->group.subkind == n->gsubkind && (o->attr->group.dont_merge != 0) == n->dont_merge, "genxml_fidelity", "Group gp %llu: kind %u subkind %u dont_merge %d, the document says %u %u %d", (unsigned long long)n->gp, o->attr->group.kind, o->attr->group.subkind, (int)o->attr->group.dont_merge, n->gkind, n->gsubkind, (int)n->dont_merge);
  if (n->type == HWLOC_OBJ_PCI_DEVICE) CHECK(c, o->attr->pcidev.domain == n->pdom && o->attr->pcidev.bus == n->pbus && o->attr->pcidev.dev == n->pdev && o->attr->pcidev.func == n->pfunc && o->attr->pcidev.vendor_id == 0x8086 && o->attr->pcidev.device_id == 0x1521 && o->attr->pcidev.class_id == 0x0200, "genxml_fidelity", "PCI device gp %llu: %04x:%02x:%02x.%x, the document says %04x:%02x:%02x.%x", (unsigned long long)n->gp, o->attr->pcidev.domain, o->attr->pcidev.bus, o->attr->pcidev.dev, o->attr->pcidev.func, n->pdom, n->pbus, n->pdev, n->pfunc);
  if (n->type == HWLOC_OBJ_BRIDGE) CHECK(c, o->attr->bridge.downstream_type == HWLOC_OBJ_BRIDGE_PCI && o->attr->bridge.downstream.pci.domain == n->pdom && o->attr->bridge.downstream.pci.secondary_bus == n->secbus && o->attr->bridge.downstream.pci.subordinate_bus == n->subbus && (o->attr->bridge.upstream_type == HWLOC_OBJ_BRIDGE_HOST) == n->hostbridge, "genxml_fidelity", "Bridge gp %llu: attributes differ from the document", (unsigned long long)n->gp);
  if (n->type == HWLOC_OBJ_OS_DEVICE) CHECK(c, o->attr->osdev.types == n->osdev, "genxml_fidelity", "OS device gp %llu: types 0x%lx, the document says 0x%x", (unsigned long long)n->gp, (unsigned long)o->attr->osdev.types, n->osdev);
  auto cmp_list = [&](const std::vector<std::unique_ptr<GNode>> &exp, hwloc_obj_t first, const char *what) { size_t i = 0; for (hwloc_obj_t k = first; k; k = k->next_sibling, i++) { CHECK(c, i < exp.size(), "genxml_fidelity", "%s gp %llu has more %s children than the document (%zu)", hwloc_obj_type_string(n->type), (unsigned long long)n->gp, what, exp.size()); gx_compare(c, exp[i].get(), k, g); } CHECK(c, i == exp.size(), "genxml_fidelity", "%s gp %llu has %zu %s children, the document has %zu", hwloc_obj_type_string(n->type), (unsigned long long)n->gp, i, what, exp.size()); };
  cmp_list(n->mem, o->memory_first_child, "memory"); cmp_list(n->kids, o->first_child, "normal"); cmp_list(n->io, o->io_first_child, "I/O"); cmp_list(n->misc, o->misc_first_child, "Misc");
}
static void gx_fidelity(Case &c, const GenXml &g) {
  hwloc_topology_t t; hwloc_topology_init(&t); hwloc_topology_set_flags(t, HWLOC_TOPOLOGY_FLAG_INCLUDE_DISALLOWED); hwloc_topology_set_all_types_filter(t, HWLOC_TYPE_FILTER_KEEP_ALL);
  CHECK(c, hwloc_topology_set_xmlbuffer(t, g.text.c_str(), (int)g.text.size() + 1) == 0, "genxml_load", "set_xmlbuffer rejected a consistent generated document");
  c.attempt("load of the generated document with every type kept"); CHECK(c, hwloc_topology_load(t) == 0, "genxml_load", "a consistent generated document does not load (every type kept, INCLUDE_DISALLOWED)");
  // Groups without dont_merge and Die levels identical to their Package may legitimately be merged at load (Group cannot be KEEP_ALL):
  // the object-by-object comparison runs when nothing was merged (same number of objects), otherwise only the totals are compared
  WFError e; wf_check(t, e); CHECK(c, e.ok(), "wf", "generated document, every type kept: %s", e.ok() ? "" : e.msgs[0].c_str());
  USet ac, an; to_uset(hwloc_topology_get_allowed_cpuset(t), ac); to_uset(hwloc_topology_get_allowed_nodeset(t), an);
  CHECK(c, ac == g.allowed_c && an == g.allowed_n, "genxml_fidelity", "allowed sets {%s} / {%s}, the document says {%s} / {%s}", ustr(ac).c_str(), ustr(an).c_str(), ustr(g.allowed_c).c_str(), ustr(g.allowed_n).c_str());
  size_t ndoc = 0; { std::vector<const GNode *> st{g.root.get()}; while (!st.empty()) { const GNode *n = st.back(); st.pop_back(); ndoc++; for (auto &k : n->mem) st.push_back(k.get()); for (auto &k : n->kids) st.push_back(k.get()); for (auto &k : n->io) st.push_back(k.get()); for (auto &k : n->misc) st.push_back(k.get()); } }
  size_t nobj = all_objs(t).size();
  if (nobj == ndoc) { gx_compare(c, g.root.get(), hwloc_get_root_obj(t), g); c.cls("genxml:tree-compared"); } else { CHECK(c, nobj < ndoc, "genxml_fidelity", "the loaded topology has %zu objects, the document %zu", nobj, ndoc); c.cls("genxml:levels-merged-at-load"); }
  CHECK(c, hwloc_get_root_obj(t)->total_memory == g.total_memory, "genxml_fidelity", "total_memory %llu, the NUMA nodes of the document sum to %llu", (unsigned long long)hwloc_get_root_obj(t)->total_memory, (unsigned long long)g.total_memory);
  hwloc_topology_destroy(t);
}
