// C11 — object type strings parse back; obj/attr snprintf obey the length contract (DESIGN.md section 4, C11).
#include "topogen.hpp"

void h_configure(HConfig &cfg) {
  cfg.property = "C11"; cfg.name = "c11_types";
  cfg.rule = "case = topology (TopoSpec incl. corpus XML with all I/O kept, or a generated XML document carrying caches L1-L5 u/d/i, Group levels, host/PCI bridges and OS devices with generated type words) x every object (<= 400) x 6 flag words x every buffer size 0..needed+1, plus 40 generated/mutated strings for hwloc_type_sscanf; non-trivial = the topology has objects whose type text carries attributes (caches, Groups, bridges, multi-bit OS devices); distinct by hash of the topology source. Exhaustive slices (run once per check): hwloc_compare_types over all type pairs, and every type name/abbreviation x next byte 1..255 x 3 suffixes for the parser";
  cfg.head_len = 400; cfg.op_len = 1; cfg.max_ops = 1; cfg.leak_check = false; cfg.hang_is_violation = true;
}

static const unsigned long FLAGW[] = {0, HWLOC_OBJ_SNPRINTF_FLAG_LONG_NAMES, HWLOC_OBJ_SNPRINTF_FLAG_MORE_ATTRS, HWLOC_OBJ_SNPRINTF_FLAG_NO_UNITS | HWLOC_OBJ_SNPRINTF_FLAG_MORE_ATTRS, HWLOC_OBJ_SNPRINTF_FLAG_UNITS_1000 | HWLOC_OBJ_SNPRINTF_FLAG_LONG_NAMES, HWLOC_OBJ_SNPRINTF_FLAG_OLD_VERBOSE, HWLOC_OBJ_SNPRINTF_FLAG_SHORT_NAMES, HWLOC_OBJ_SNPRINTF_FLAG_SHORT_NAMES | HWLOC_OBJ_SNPRINTF_FLAG_LONG_NAMES | HWLOC_OBJ_SNPRINTF_FLAG_MORE_ATTRS};

// the snprintf-style contract for one producer (returns the full text)
template <class F> static std::string contract(Case &c, F fn, const char *what) {
  int need = fn((char *)NULL, (size_t)0);
  CHECK(c, need >= 0, "snprintf_null", "%s: (NULL,0) returned %d", what, need);
  std::vector<char> full(need + 1 + 16, (char)0xA5); int r2 = fn(full.data() + 8, (size_t)need + 1);
  CHECK(c, r2 == need && (int)strnlen(full.data() + 8, need + 1) == need, "snprintf_len", "%s: returned %d for a sufficient buffer, %d for (NULL,0), text length %zu", what, r2, need, strnlen(full.data() + 8, need + 1));
  for (int g = 0; g < 8; g++) CHECK(c, full[g] == (char)0xA5 && full[8 + need + 1 + g] == (char)0xA5, "snprintf_bounds", "%s: wrote outside the buffer at full size", what);
  std::string text(full.data() + 8, need);
  for (int sz = 0; sz <= need + 1; sz++) { std::vector<char> buf(sz + 16, (char)0xA5); int r3 = fn(buf.data() + 8, (size_t)sz);
    CHECK(c, r3 == need, "snprintf_ret", "%s: size %d returned %d instead of the untruncated length %d", what, sz, r3, need);
    for (int g = 0; g < 8; g++) CHECK(c, buf[g] == (char)0xA5 && buf[8 + sz + g] == (char)0xA5, "snprintf_bounds", "%s: size %d wrote outside the buffer", what, sz);
    if (sz > 0) { size_t l = strnlen(buf.data() + 8, sz); CHECK(c, l < (size_t)sz, "snprintf_nul", "%s: size %d not NUL-terminated", what, sz); CHECK(c, text.compare(0, l, buf.data() + 8, l) == 0, "snprintf_prefix", "%s: size %d: truncated text is not a prefix of \"%s\"", what, sz, text.c_str()); } }
  return text;
}

static void check_parse_back(Case &c, hwloc_obj_t o, const std::string &text, unsigned long fl) {
  hwloc_obj_type_t ty = (hwloc_obj_type_t)-5; union hwloc_obj_attr_u at; memset(&at, 0x5a, sizeof at);
  char *blk = strdup(text.c_str()); int r = hwloc_type_sscanf(blk, &ty, &at, sizeof at); free(blk);
  CHECK(c, r == 0 && ty == o->type, "parse_back", "type_sscanf(\"%s\") (printed with flags 0x%lx for a %s) returned %d type %d", text.c_str(), fl, hwloc_obj_type_string(o->type), r, (int)ty);
  if (hwloc_obj_type_is_cache(o->type)) CHECK(c, at.cache.depth == o->attr->cache.depth && enum_int(&at.cache.type) == enum_int(&o->attr->cache.type), "parse_back_attr", "\"%s\": cache depth/type %u/%d, object has %u/%d", text.c_str(), at.cache.depth, enum_int(&at.cache.type), o->attr->cache.depth, enum_int(&o->attr->cache.type));
  if (o->type == HWLOC_OBJ_GROUP) CHECK(c, at.group.depth == o->attr->group.depth, "parse_back_attr", "\"%s\": group depth %u, object has %u", text.c_str(), at.group.depth, o->attr->group.depth);
  if (o->type == HWLOC_OBJ_BRIDGE) CHECK(c, enum_int(&at.bridge.upstream_type) == enum_int(&o->attr->bridge.upstream_type), "parse_back_attr", "\"%s\": bridge upstream type %d, object has %d", text.c_str(), enum_int(&at.bridge.upstream_type), enum_int(&o->attr->bridge.upstream_type));
  if (o->type == HWLOC_OBJ_OS_DEVICE) CHECK(c, at.osdev.types == (o->attr->osdev.types & 0x7f), "parse_back_attr", "\"%s\": OS device types 0x%lx, object has 0x%lx", text.c_str(), at.osdev.types, o->attr->osdev.types);
}

static std::string gen_xml(Draw &d, bool &attrs) {
  std::string x = "<?xml version=\"1.0\" encoding=\"UTF-8\"?>\n<!DOCTYPE topology SYSTEM \"hwloc2.dtd\">\n<topology version=\"3.0\">\n <object type=\"Machine\" os_index=\"0\" cpuset=\"0x3\" complete_cpuset=\"0x3\" allowed_cpuset=\"0x3\" nodeset=\"0x1\" complete_nodeset=\"0x1\" allowed_nodeset=\"0x1\" gp_index=\"1\">\n  <object type=\"NUMANode\" os_index=\"0\" cpuset=\"0x3\" complete_cpuset=\"0x3\" nodeset=\"0x1\" complete_nodeset=\"0x1\" gp_index=\"2\" local_memory=\"1048576\"/>\n";
  unsigned gp = 10; std::string close; const char *sets = "cpuset=\"0x3\" complete_cpuset=\"0x3\" nodeset=\"0x1\" complete_nodeset=\"0x1\"";
  int ng = d.range(0, 3); for (int i = 0; i < ng; i++) { x += strf("  <object type=\"Group\" %s gp_index=\"%u\" kind=\"%d\" subkind=\"%d\" dont_merge=\"1\">\n", sets, gp++, d.range(0, 3), i); close = "  </object>\n" + close; attrs = true; }
  static const struct { const char *t; int depth; int ctype; } caches[] = {{"L5Cache", 5, 0}, {"L4Cache", 4, 0}, {"L3Cache", 3, 0}, {"L3iCache", 3, 2}, {"L2Cache", 2, 0}, {"L2iCache", 2, 2}, {"L1Cache", 1, 1}, {"L1iCache", 1, 2}};
  for (auto &cc : caches) if (d.chance(1, 2)) { int ct = cc.ctype == 2 ? 2 : d.range(0, 1); x += strf("  <object type=\"%s\" %s gp_index=\"%u\" cache_size=\"%d\" depth=\"%d\" cache_linesize=\"64\" cache_associativity=\"%d\" cache_type=\"%d\">\n", cc.t, sets, gp++, d.range(0, 3) << 14, cc.depth, d.range(-1, 8), ct); close = "  </object>\n" + close; attrs = true; }
  x += "  <object type=\"PU\" os_index=\"0\" cpuset=\"0x1\" complete_cpuset=\"0x1\" nodeset=\"0x1\" complete_nodeset=\"0x1\" gp_index=\"3\"/>\n  <object type=\"PU\" os_index=\"1\" cpuset=\"0x2\" complete_cpuset=\"0x2\" nodeset=\"0x1\" complete_nodeset=\"0x1\" gp_index=\"4\"/>\n";
  int nb = d.range(0, 2); for (int b = 0; b < nb; b++) { x += strf("  <object type=\"Bridge\" gp_index=\"%u\" bridge_type=\"0-1\" depth=\"0\" bridge_pci=\"%04x:[%02x-%02x]\">\n", gp++, b, 0, 0x10); attrs = true;
    if (d.chance(1, 2)) { x += strf("   <object type=\"Bridge\" gp_index=\"%u\" bridge_type=\"1-1\" depth=\"1\" bridge_pci=\"%04x:[01-02]\" pci_busid=\"%04x:00:01.0\" pci_type=\"0604 [8086:1234] [0000:0000] 00 00\" pci_link_speed=\"%d.5\">\n", gp++, b, b, d.range(0, 30));
      x += strf("    <object type=\"PCIDev\" gp_index=\"%u\" pci_busid=\"%04x:01:00.0\" pci_type=\"0200 [15b3:%04x] [15b3:0008] 00 00\" pci_link_speed=\"%d.000000\">\n", gp++, b, d.range(0, 65535), d.range(0, 64));
      int nos = d.range(0, 3); for (int k = 0; k < nos; k++) x += strf("     <object type=\"OSDev\" gp_index=\"%u\" name=\"dev%d\" osdev_type=\"%d\"/>\n", gp++, k, d.range(0, 127)); x += "    </object>\n   </object>\n"; }
    int nos = d.range(0, 3); for (int k = 0; k < nos; k++) x += strf("   <object type=\"OSDev\" gp_index=\"%u\" name=\"os%d\" osdev_type=\"%d\"/>\n", gp++, k, d.chance(1, 2) ? (1 << d.range(0, 6)) : d.range(0, 127)); x += "  </object>\n"; }
  int nm = d.range(0, 2); for (int k = 0; k < nm; k++) x += strf("  <object type=\"Misc\" gp_index=\"%u\" name=\"misc%d\"/>\n", gp++, k);
  x += close + " </object>\n</topology>\n"; return x;
}

static void enumerated_slices(Case &c);

void h_run(Case &c) {
  Draw &d = c.head; bool attrs = false; hwloc_topology_t t; hwloc_topology_init(&t);
  if (d.chance(1, 2)) { std::string x = gen_xml(d, attrs); hwloc_topology_set_all_types_filter(t, HWLOC_TYPE_FILTER_KEEP_ALL); hwloc_topology_set_type_filter(t, HWLOC_OBJ_GROUP, HWLOC_TYPE_FILTER_KEEP_STRUCTURE);
    CHECK(c, hwloc_topology_set_xmlbuffer(t, x.c_str(), (int)x.size() + 1) == 0 && hwloc_topology_load(t) == 0, "setup", "generated XML document rejected"); c.descf("generated XML (%zu bytes, fnv %llx)", x.size(), (unsigned long long)fnv1a(x.data(), x.size())); }
  else { SpecOpts so; so.misc_keep = true; TopoSpec sp = gen_topospec(d, so); if (sp.is_xml) { sp.filters[HWLOC_OBJ_PCI_DEVICE] = sp.filters[HWLOC_OBJ_OS_DEVICE] = sp.filters[HWLOC_OBJ_BRIDGE] = HWLOC_TYPE_FILTER_KEEP_ALL; attrs = true; } c.desc(sp.text());
    if (apply_spec_and_load(c, t, sp) < 0) { hwloc_topology_destroy(t); c.discard(); } }
  require_wf(c, t, "topology");
  auto objs = all_objs(t); std::map<int, std::string> leveltext[8]; size_t n = 0;
  for (auto o : objs) {
    if (hwloc_obj_type_is_cache(o->type) || o->type == HWLOC_OBJ_GROUP || o->type == HWLOC_OBJ_BRIDGE || (o->type == HWLOC_OBJ_OS_DEVICE && (o->attr->osdev.types & (o->attr->osdev.types - 1)))) attrs = true;
    if (++n > 400) break;
    for (size_t fi = 0; fi < sizeof FLAGW / sizeof *FLAGW; fi++) { unsigned long fl = FLAGW[fi];
      std::string what = strf("type_snprintf(%s, flags 0x%lx)", hwloc_obj_type_string(o->type), fl); c.attempt(what);
      std::string txt = contract(c, [&](char *b, size_t s) { return hwloc_obj_type_snprintf(b, s, o, fl); }, what.c_str());
      if (!(fl & HWLOC_OBJ_SNPRINTF_FLAG_SHORT_NAMES)) { check_parse_back(c, o, txt, fl);
        // all objects of one level print the same type text (documented, hwloc.h); Bridge and OS-device levels are the known finding F-C11-b
        if (o->type != HWLOC_OBJ_BRIDGE && o->type != HWLOC_OBJ_OS_DEVICE) { auto it = leveltext[fi].find(o->depth); if (it == leveltext[fi].end()) leveltext[fi][o->depth] = txt; else CHECK(c, it->second == txt, "level_uniform", "objects of depth %d print \"%s\" and \"%s\" (flags 0x%lx)", o->depth, it->second.c_str(), txt.c_str(), fl); }
        else c.excluded("F-C11-b"); }
      static const char *seps[] = {"", " ", ", ", "#########-#########-#########-#########-"}; const char *sep = d.pick(seps);
      what = strf("attr_snprintf(%s, sep \"%s\", flags 0x%lx)", hwloc_obj_type_string(o->type), sep, fl); c.attempt(what);
      (void)contract(c, [&](char *b, size_t s) { return hwloc_obj_attr_snprintf(b, s, o, sep, fl); }, what.c_str()); }
    { hwloc_obj_type_t ty; char *blk = strdup(hwloc_obj_type_string(o->type)); CHECK(c, hwloc_type_sscanf(blk, &ty, NULL, 0) == 0 && ty == o->type, "parse_back", "type_sscanf(type_string) failed for %s", blk); free(blk); }
  }
  // generated and mutated strings: returns 0/-1, writes only inside attrp[0..attrsize)
  for (int k = 0; k < 40; k++) {
    static const char *names[] = {"Machine", "Package", "Die", "Core", "PU", "L1Cache", "L2iCache", "L3dCache", "L5uCache", "Group3", "NUMANode", "MemCache", "HostBridge", "PCIBridge", "Bridge", "PCIDev", "OSDev", "OS[GPU,CoProc]", "OS[Net,OFED]", "OS[Storage", "Misc", "node", "socket", "cache", "blo", "Tile", "L10", "Group4294967296", "OS[]", "OS[,]", "os[dma]"};
    std::string s = d.pick(names); int how = d.range(0, 4);
    if (how == 1) s = s.substr(0, d.range(0, (int)s.size())); else if (how == 2) { size_t p = d.range(0, (int)s.size()); s.insert(p, 1, (char)d.range(1, 255)); } else if (how == 3) { s += (char)d.range(1, 255); s += d.chance(1, 2) ? ":1" : ""; } else if (how == 4) { s.clear(); int n2 = d.range(0, 12); for (int i = 0; i < n2; i++) s += (char)d.range(1, 255); }
    char *blk = (char *)malloc(s.size() + 1); memcpy(blk, s.data(), s.size() + 1); hwloc_obj_type_t ty = (hwloc_obj_type_t)-7;
    size_t asz = d.chance(1, 3) ? d.range(0, (int)sizeof(union hwloc_obj_attr_u) - 1) : sizeof(union hwloc_obj_attr_u); std::vector<unsigned char> abuf(asz + 32, 0xA5);
    c.attempt("type_sscanf(" + qstr(s.c_str()) + ")"); int r = hwloc_type_sscanf(blk, &ty, (union hwloc_obj_attr_u *)(abuf.data() + 16), asz); free(blk);
    CHECK(c, r == 0 || r == -1, "sscanf_ret", "type_sscanf(%s) returned %d", qstr(s.c_str()).c_str(), r); for (int g = 0; g < 16; g++) CHECK(c, abuf[g] == 0xA5 && abuf[16 + asz + g] == 0xA5, "sscanf_bounds", "type_sscanf(%s) wrote outside attrp[0..%zu)", qstr(s.c_str()).c_str(), asz);
    if (r == 0) CHECK(c, (int)ty >= 0 && ty < HWLOC_OBJ_TYPE_MAX, "sscanf_type", "type_sscanf(%s) succeeded with type %d", qstr(s.c_str()).c_str(), (int)ty); c.cls(r == 0 ? "string:accepted" : "string:rejected"); }
  if (attrs) c.nontrivial();
  if (d.chance(1, 25)) enumerated_slices(c);   // the exhaustive slices are cheap; run them on a sample of cases and as a named case in the replay tier
  hwloc_topology_destroy(t);
}

static void enumerated_slices(Case &c) {
  // hwloc_compare_types over all pairs
  for (int a = 0; a < HWLOC_OBJ_TYPE_MAX; a++) { hwloc_obj_type_t A = (hwloc_obj_type_t)a; int kinds = hwloc_obj_type_is_normal(A) + hwloc_obj_type_is_memory(A) + hwloc_obj_type_is_io(A) + (A == HWLOC_OBJ_MISC);
    CHECK(c, kinds == 1, "kind_predicates", "%s satisfies %d of normal/memory/io/misc", hwloc_obj_type_string(A), kinds);
    { // the cache predicates against the documented type list: L1..L5 are data/unified caches, L1i..L3i instruction caches, MemCache is a memory object and not a CPU cache
      bool dc = A >= HWLOC_OBJ_L1CACHE && A <= HWLOC_OBJ_L5CACHE, ic = A >= HWLOC_OBJ_L1ICACHE && A <= HWLOC_OBJ_L3ICACHE;
      CHECK(c, (hwloc_obj_type_is_dcache(A) != 0) == dc && (hwloc_obj_type_is_icache(A) != 0) == ic && (hwloc_obj_type_is_cache(A) != 0) == (dc || ic), "kind_predicates", "%s: is_cache %d is_dcache %d is_icache %d", hwloc_obj_type_string(A), hwloc_obj_type_is_cache(A), hwloc_obj_type_is_dcache(A), hwloc_obj_type_is_icache(A));
      if (dc || ic) CHECK(c, hwloc_obj_type_is_normal(A), "kind_predicates", "CPU cache type %s is not normal", hwloc_obj_type_string(A)); } CHECK(c, hwloc_compare_types(A, A) == 0, "compare_types", "compare(%s,%s) != 0", hwloc_obj_type_string(A), hwloc_obj_type_string(A));
    for (int b = 0; b < HWLOC_OBJ_TYPE_MAX; b++) { hwloc_obj_type_t B = (hwloc_obj_type_t)b; int ab = hwloc_compare_types(A, B), ba = hwloc_compare_types(B, A);
      if (ab == HWLOC_TYPE_UNORDERED || ba == HWLOC_TYPE_UNORDERED) CHECK(c, ab == ba, "compare_types", "compare(%s,%s) unordered in one direction only", hwloc_obj_type_string(A), hwloc_obj_type_string(B)); else CHECK(c, (ab < 0) == (ba > 0) && (ab == 0) == (ba == 0), "compare_types", "compare(%s,%s)=%d but the reverse gives %d", hwloc_obj_type_string(A), hwloc_obj_type_string(B), ab, ba);
      bool na = hwloc_obj_type_is_normal(A), nb = hwloc_obj_type_is_normal(B);
      if (A != B && ((na && A != HWLOC_OBJ_MACHINE && !nb) || (nb && B != HWLOC_OBJ_MACHINE && !na))) CHECK(c, ab == HWLOC_TYPE_UNORDERED, "compare_types", "normal non-Machine %s vs non-normal %s must be unordered, got %d", hwloc_obj_type_string(A), hwloc_obj_type_string(B), ab);
      if (na && nb) { CHECK(c, ab != HWLOC_TYPE_UNORDERED, "compare_types", "two normal types unordered"); for (int k = 0; k < HWLOC_OBJ_TYPE_MAX; k++) { hwloc_obj_type_t K = (hwloc_obj_type_t)k; if (hwloc_obj_type_is_normal(K) && ab < 0 && hwloc_compare_types(B, K) < 0) CHECK(c, hwloc_compare_types(A, K) < 0, "compare_types", "not transitive on %s < %s < %s", hwloc_obj_type_string(A), hwloc_obj_type_string(B), hwloc_obj_type_string(K)); } }
      if (A == HWLOC_OBJ_MACHINE && ab != HWLOC_TYPE_UNORDERED) CHECK(c, ab <= 0, "compare_types", "Machine is not highest vs %s", hwloc_obj_type_string(B)); if (A == HWLOC_OBJ_PU && nb) CHECK(c, ab >= 0, "compare_types", "PU is not deepest vs %s", hwloc_obj_type_string(B)); } }
  // every type name and abbreviation x every next byte x 3 suffixes, each in an exactly-sized heap block
  static const char *names[] = {"machine", "package", "socket", "die", "core", "pu", "numanode", "node", "memcache", "memorysidecache", "group", "misc", "bridge", "hostbridge", "pcibridge", "pcidev", "osdev", "os", "l1cache", "l2dcache", "l3icache", "l1", "cache", "block", "tile", "storage", "network", "gpu", "coproc", "openfabrics", "dma", "memory"};
  unsigned long calls = 0;
  for (const char *nm : names) for (int byte = 1; byte < 256; byte++) for (const char *suf : {"", ":1", "3x"}) { std::string s = std::string(nm) + (char)byte + suf; char *blk = (char *)malloc(s.size() + 1); memcpy(blk, s.data(), s.size() + 1); hwloc_obj_type_t ty; union hwloc_obj_attr_u at; int r = hwloc_type_sscanf(blk, &ty, &at, sizeof at); free(blk); calls++; if (r != 0 && r != -1) c.fail("sscanf_ret", "type_sscanf returned %d", r); }
  c.cls("exhaustive-slices-run"); c.cls("exhaustive-parser-calls", (unsigned)calls); c.checks(calls);
}

bool h_named(const std::string &name, Case &c) {
  if (name == "exhaustive") { c.desc("compare_types over all type pairs; every type name x next byte 1..255 x {\"\", \":1\", \"3x\"} for the parser"); enumerated_slices(c); return true; }
  if (name == "F-C11-b") {   // open: Bridge and OS-device levels print several texts
    c.desc("16intel64-manyVFs.xml with I/O kept: all objects of one level must print the same type text (documented in hwloc.h)");
    hwloc_topology_t t; hwloc_topology_init(&t); hwloc_topology_set_io_types_filter(t, HWLOC_TYPE_FILTER_KEEP_ALL); hwloc_topology_set_xml(t, (std::string(verif_repo()) + "/tests/hwloc/xml/16intel64-manyVFs.xml").c_str()); CHECK(c, hwloc_topology_load(t) == 0, "named_setup", "load failed");
    std::map<int, std::string> lt; for (auto o : all_objs(t)) { char b[128]; hwloc_obj_type_snprintf(b, sizeof b, o, 0); auto it = lt.find(o->depth); if (it == lt.end()) lt[o->depth] = b; else CHECK(c, it->second == b, "level_uniform", "objects of the %s level print \"%s\" and \"%s\"", hwloc_obj_type_string(o->type), it->second.c_str(), b); }
    hwloc_topology_destroy(t); return true; }
  return false;
}
