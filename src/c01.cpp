// C01 — every successfully loaded topology is a well-formed object tree (DESIGN.md section 4, C01).
// Domain: TopoSpec source (generated synthetic description or corpus XML) x flag word x type-filter assignment.
// Oracle: load==0 -> wf_check (independent transcription of the statement) + hwloc_topology_check();
//         load==-1 -> the topology can be re-configured and loaded again; configuration calls return per the documented rules.
#include "topogen.hpp"
#include "genxml.hpp"

void h_configure(HConfig &cfg) {
  cfg.property = "C01"; cfg.name = "c01_load";
  cfg.rule = "case = (source, flags, filters) drawn from TopoSpec (synthetic description, stored XML file, this machine, or - 1 in 4 - an XML document generated from an abstract tree and compared with it after a load that keeps everything); non-trivial = load succeeded AND (a non-default filter or flag was active, or the topology is asymmetric / has I/O / has a CPU-less NUMA node); distinct by hash of the decoded case text";
  cfg.head_len = 900; cfg.op_len = 1; cfg.max_ops = 1; cfg.leak_check = true;
}

void h_run(Case &c) {
  Draw &d = c.head;
  SpecOpts o; o.thissystem_flags = true;
  TopoSpec sp = gen_topospec(d, o);
  // one case in 14: the live machine (native Linux + x86 discovery of this sandbox), where the IS_THISSYSTEM-dependent flags are legal
  if (d.chance(1, 14)) { sp.is_native = true; sp.is_xml = false; sp.synth.clear();
    if (d.chance(1, 3)) sp.flags |= HWLOC_TOPOLOGY_FLAG_THISSYSTEM_ALLOWED_RESOURCES;
    if (d.chance(1, 4)) sp.flags |= HWLOC_TOPOLOGY_FLAG_IS_THISSYSTEM | (d.chance(1, 2) ? HWLOC_TOPOLOGY_FLAG_RESTRICT_TO_CPUBINDING : HWLOC_TOPOLOGY_FLAG_RESTRICT_TO_MEMBINDING); }
  // one case in 4: a document generated from an abstract tree (asymmetric trees, memory at several levels, offline / disallowed resources,
  // optional attributes left out, shuffled gp_index, Misc and I/O anywhere); it is consistent by construction, so it must load
  GenXml gx; bool use_gx = !sp.is_native && d.chance(1, 4);
  if (use_gx) { gx = gen_xml(d); sp.is_xml = true; sp.synth.clear(); sp.xmlbuf = gx.text; sp.xmlbuf_summary = gx.summary; if (sp.flags & HWLOC_TOPOLOGY_FLAG_IS_THISSYSTEM) sp.flags &= ~(unsigned long)HWLOC_TOPOLOGY_FLAG_IS_THISSYSTEM; }
  c.desc(sp.text());
  hwloc_topology_t t;
  CHECK(c, hwloc_topology_init(&t) == 0, "init", "hwloc_topology_init failed");

  // illegal flag words must be rejected with EINVAL and leave the flags unchanged
  if (d.chance(1, 10)) {
    unsigned long bad; int k = d.range(0, 2);
    if (k == 0) bad = (1UL << d.range(10, 40)) | (unsigned long)d.range(0, 1023);
    else if (k == 1) bad = HWLOC_TOPOLOGY_FLAG_RESTRICT_TO_CPUBINDING | (d.chance(1, 2) ? HWLOC_TOPOLOGY_FLAG_INCLUDE_DISALLOWED : 0);
    else bad = HWLOC_TOPOLOGY_FLAG_RESTRICT_TO_MEMBINDING;
    unsigned long before = hwloc_topology_get_flags(t); errno = 0;
    int r = hwloc_topology_set_flags(t, bad);
    CHECK(c, r == -1 && errno == EINVAL && hwloc_topology_get_flags(t) == before, "set_flags_illegal", "illegal flag word 0x%lx: ret %d errno %d flags now 0x%lx", bad, r, errno, hwloc_topology_get_flags(t));
    c.descf(" illegalflags=0x%lx", bad); c.cls("flags:illegal-rejected");
  }

  int r = apply_spec_and_load(c, t, sp);
  c.cls(sp.is_native ? "source:this-machine" : use_gx ? "source:generated-xml" : sp.is_xml ? "source:xml" : "source:synthetic");
  if (use_gx) { CHECK(c, r == 0, "genxml_load", "a consistent generated document does not load with this configuration (errno %d)", errno); if (gx.asym) c.cls("genxml:asymmetric"); if (gx.interleaved) c.cls("genxml:interleaved-indexes"); if (!gx.has_allowed_attrs) c.cls("genxml:no-allowed-attrs"); if (!gx.offline_c.empty() || !gx.offline_n.empty()) c.cls("genxml:offline"); if (gx.multi_numa_obj) c.cls("genxml:several-numa-per-object"); }
  if (r == 0) {
    c.cls("load:ok");
    require_wf(c, t, "after load");
    // configuration is frozen after load
    errno = 0; CHECK(c, hwloc_topology_set_flags(t, 0) == -1 && errno == EBUSY, "set_flags_after_load", "set_flags after load did not fail with EBUSY");
    CHECK(c, hwloc_topology_get_flags(t) == sp.flags, "flags_kept", "flags 0x%lx != configured 0x%lx", hwloc_topology_get_flags(t), sp.flags);
    hwloc_obj_t root = hwloc_get_root_obj(t);
    bool nondefault = sp.flags != 0 || sp.all_filter_set; for (int f : sp.filters) if (f >= 0) nondefault = true;
    bool asym = !root->symmetric_subtree;
    bool io = hwloc_get_nbobjs_by_type(t, HWLOC_OBJ_PCI_DEVICE) > 0 || hwloc_get_nbobjs_by_type(t, HWLOC_OBJ_OS_DEVICE) > 0;
    bool cpuless = false; for (hwloc_obj_t n = NULL; (n = hwloc_get_next_obj_by_type(t, HWLOC_OBJ_NUMANODE, n));) if (hwloc_bitmap_iszero(n->cpuset)) cpuless = true;
    if (nondefault) c.cls("nondefault-config"); if (asym) c.cls("asymmetric"); if (io) c.cls("has-io"); if (cpuless) c.cls("cpuless-numa");
    if (hwloc_get_nbobjs_by_type(t, HWLOC_OBJ_MEMCACHE) > 0) c.cls("has-memcache");
    if (hwloc_get_nbobjs_by_type(t, HWLOC_OBJ_MISC) > 0) c.cls("has-misc");
    if (hwloc_get_type_depth(t, HWLOC_OBJ_GROUP) != HWLOC_TYPE_DEPTH_UNKNOWN) c.cls("has-group");
    if (nondefault || asym || io || cpuless) c.nontrivial();
    c.descf(" -> loaded depth=%d pus=%d numa=%d", hwloc_topology_get_depth(t), hwloc_get_nbobjs_by_type(t, HWLOC_OBJ_PU), hwloc_get_nbobjs_by_type(t, HWLOC_OBJ_NUMANODE));
  } else {
    c.cls("load:failed");
    c.descf(" -> load failed errno=%d", errno);
    // documented: the topology is reinitialised on failure and may be configured and loaded again
    int r2 = hwloc_topology_set_synthetic(t, "pack:2 core:2 pu:2");
    CHECK(c, r2 == 0, "reconfigure_after_failure", "set_synthetic after a failed load returned %d errno %d", r2, errno);
    r2 = hwloc_topology_load(t);
    CHECK(c, r2 == 0, "reload_after_failure", "load after a failed load returned %d", r2);
    require_wf(c, t, "after reload");
  }
  hwloc_topology_destroy(t);
  if (use_gx) gx_fidelity(c, gx);
}

// ---- deterministic regression cases (reproducers of findings; independent of the generators) ---------------------------
static void load_and_check(Case &c, hwloc_topology_t t, const char *where) {
  int r = hwloc_topology_load(t);
  CHECK(c, r == 0, "named_load", "%s: load failed", where);
  require_wf(c, t, where);
}
bool h_named(const std::string &name, Case &c) {
  hwloc_topology_t t; hwloc_topology_init(&t);
  std::string corpus = std::string(verif_repo()) + "/tests/hwloc/xml/";
  if (name == "F-C01-a") {          // Group + KEEP_IMPORTANT stored KEEP_ALL
    c.desc("set_type_filter(GROUP, KEEP_IMPORTANT); synthetic pack:2 core:2 pu:2");
    hwloc_topology_set_type_filter(t, HWLOC_OBJ_GROUP, HWLOC_TYPE_FILTER_KEEP_IMPORTANT);
    enum hwloc_type_filter_e f; hwloc_topology_get_type_filter(t, HWLOC_OBJ_GROUP, &f);
    CHECK(c, f != HWLOC_TYPE_FILTER_KEEP_ALL, "filter_important", "Group filter is KEEP_ALL after KEEP_IMPORTANT");
    hwloc_topology_set_synthetic(t, "pack:2 core:2 pu:2"); load_and_check(c, t, "F-C01-a");
  } else if (name == "F-C01-a2") {  // same through set_all_types_filter
    c.desc("set_all_types_filter(KEEP_IMPORTANT); synthetic group:2 pack:2 pu:2");
    hwloc_topology_set_all_types_filter(t, HWLOC_TYPE_FILTER_KEEP_IMPORTANT);
    hwloc_topology_set_synthetic(t, "group:2 pack:2 pu:2"); load_and_check(c, t, "F-C01-a2");
  } else if (name == "F-C01-b1") {  // XML import with Groups filtered out: memory children concatenated unsorted
    c.desc("xml 16amd64-8n2c-cpusets.xml, Group filter KEEP_NONE");
    hwloc_topology_set_type_filter(t, HWLOC_OBJ_GROUP, HWLOC_TYPE_FILTER_KEEP_NONE);
    hwloc_topology_set_xml(t, (corpus + "16amd64-8n2c-cpusets.xml").c_str()); load_and_check(c, t, "F-C01-b1");
  } else if (name == "F-C01-c") {   // memory-side cache inserted although MemCache is filtered out by default
    c.desc("synthetic pack:2 [numa(memorysidecachesize=1GB)] pu:2, default filters");
    hwloc_topology_set_synthetic(t, "pack:2 [numa(memorysidecachesize=1GB)] pu:2"); load_and_check(c, t, "F-C01-c");
    hwloc_topology_destroy(t); hwloc_topology_init(&t);
    hwloc_topology_set_synthetic(t, "pack:2 numa:2(memorysidecachesize=16MB) pu:2"); load_and_check(c, t, "F-C01-c (numa level)");
  } else if (name == "F-C01-d") {   // a failed load must leave a topology that can be configured and loaded again
    c.desc("XML buffer without PU/NUMA objects (load fails), then set_synthetic + load");
    const char *x = "<?xml version=\"1.0\" encoding=\"UTF-8\"?>\n<!DOCTYPE topology SYSTEM \"hwloc2.dtd\">\n<topology version=\"3.0\">\n <object type=\"Machine\" os_index=\"0\" cpuset=\"0x1\" complete_cpuset=\"0x1\" nodeset=\"0x1\" complete_nodeset=\"0x1\" gp_index=\"1\">\n  <object type=\"Package\" os_index=\"0\" cpuset=\"0x1\" complete_cpuset=\"0x1\" nodeset=\"0x1\" complete_nodeset=\"0x1\" gp_index=\"2\"/>\n </object>\n</topology>\n";
    int r = hwloc_topology_set_xmlbuffer(t, x, (int)strlen(x) + 1);
    CHECK(c, r == 0, "named_setup", "set_xmlbuffer rejected the crafted document");
    r = hwloc_topology_load(t);
    CHECK(c, r == -1, "named_setup", "crafted document without PUs unexpectedly loaded");
    r = hwloc_topology_set_synthetic(t, "pack:2 core:2 pu:2");
    CHECK(c, r == 0, "reconfigure_after_failure", "set_synthetic after a failed load returned %d errno %d", r, errno);
    load_and_check(c, t, "F-C01-d reload");
  } else { hwloc_topology_destroy(t); return false; }
  hwloc_topology_destroy(t);
  return true;
}
