// C10 — binding calls validate arguments, hand only legal sets to the OS, and round-trip (DESIGN.md section 4, C10).
// The harness interposes sched_{set,get}affinity, pthread_{set,get}affinity_np and the variadic syscall() (mbind, set_mempolicy,
// get_mempolicy, migrate_pages, move_pages).  In recording mode they return success without entering the kernel, so synthetic
// topologies with IS_THISSYSTEM can be driven safely; in pass-through mode (live part) they call the real functions.
#include "topogen.hpp"
#include <sched.h>
#include <pthread.h>
#include <dlfcn.h>
#include <sys/syscall.h>
#include <unistd.h>
#include <stdarg.h>
#include <sys/prctl.h>

struct Rec { long nr; std::vector<unsigned char> mask; int mode; };
static bool g_record = true; static std::vector<Rec> g_calls; static std::vector<unsigned char> g_lastcpumask;
typedef long (*syscall_fn)(long, ...);
static syscall_fn real_syscall() { static syscall_fn f = (syscall_fn)dlsym(RTLD_NEXT, "syscall"); return f; }
enum { NR_SETAFF = -1, NR_GETAFF = -2, NR_PSETAFF = -3, NR_PGETAFF = -4 };
static void rec(long nr, const void *mask, size_t bytes, int mode = 0) { Rec r; r.nr = nr; r.mode = mode; if (mask && bytes && bytes < (1u << 20)) r.mask.assign((const unsigned char *)mask, (const unsigned char *)mask + bytes); g_calls.push_back(r); }

extern "C" int sched_setaffinity(pid_t pid, size_t sz, const cpu_set_t *m) { rec(NR_SETAFF, m, sz); if (g_record) { g_lastcpumask.assign((const unsigned char *)m, (const unsigned char *)m + sz); return 0; } return (int)real_syscall()(SYS_sched_setaffinity, (long)pid, (long)sz, m) < 0 ? -1 : 0; }
extern "C" int sched_getaffinity(pid_t pid, size_t sz, cpu_set_t *m) { rec(NR_GETAFF, NULL, 0);
  if (g_record) { memset(m, 0, sz); if (g_lastcpumask.empty()) memset(m, 0xff, sz < 8 ? sz : 8); else memcpy(m, g_lastcpumask.data(), sz < g_lastcpumask.size() ? sz : g_lastcpumask.size()); return 0; }   // like the libc wrapper: 0 on success
  long r = real_syscall()(SYS_sched_getaffinity, (long)pid, (long)sz, m); if (r < 0) return -1; if ((size_t)r < sz) memset((char *)m + r, 0, sz - r); return 0; }
extern "C" int pthread_setaffinity_np(pthread_t th, size_t sz, const cpu_set_t *m) { rec(NR_PSETAFF, m, sz); if (g_record) { g_lastcpumask.assign((const unsigned char *)m, (const unsigned char *)m + sz); return 0; } typedef int (*fn)(pthread_t, size_t, const cpu_set_t *); static fn f = (fn)dlsym(RTLD_NEXT, "pthread_setaffinity_np"); return f(th, sz, m); }
extern "C" int pthread_getaffinity_np(pthread_t th, size_t sz, cpu_set_t *m) { rec(NR_PGETAFF, NULL, 0); if (g_record) { memset(m, 0, sz); if (g_lastcpumask.empty()) memset(m, 0xff, sz < 8 ? sz : 8); else memcpy(m, g_lastcpumask.data(), sz < g_lastcpumask.size() ? sz : g_lastcpumask.size()); return 0; } typedef int (*fn)(pthread_t, size_t, cpu_set_t *); static fn f = (fn)dlsym(RTLD_NEXT, "pthread_getaffinity_np"); return f(th, sz, m); }
// (the kernel reads maxnode-1 bits; reading six variadic slots regardless of how many were passed is harmless but must not be instrumented)
extern "C" __attribute__((no_sanitize("address"))) long syscall(long nr, ...) {
  va_list ap; va_start(ap, nr); long a[6]; for (int i = 0; i < 6; i++) a[i] = va_arg(ap, long); va_end(ap);
  switch (nr) {
  case SYS_mbind: rec(nr, (void *)a[3], a[3] && a[4] > 0 ? ((size_t)a[4] - 1 + 7) / 8 : 0, (int)a[2]); if (g_record) return 0; break;
  case SYS_set_mempolicy: rec(nr, (void *)a[1], a[1] && a[2] > 0 ? ((size_t)a[2] - 1 + 7) / 8 : 0, (int)a[0]); if (g_record) return 0; break;
  case SYS_get_mempolicy: rec(nr, NULL, 0); if (g_record) { if (a[0]) *(int *)a[0] = 0; if (a[1] && a[2] > 0) memset((void *)a[1], 0, ((size_t)a[2] - 1 + 7) / 8); return 0; } break;
  case SYS_migrate_pages: rec(nr, (void *)a[3], a[3] && a[1] > 0 ? ((size_t)a[1] - 1 + 7) / 8 : 0); if (g_record) return 0; break;
  case SYS_move_pages: rec(nr, NULL, 0); if (g_record) { int *status = (int *)a[4]; for (long i = 0; status && i < a[1]; i++) status[i] = 0; return 0; } break;
  case SYS_sched_setaffinity: rec(NR_SETAFF, (void *)a[2], (size_t)a[1]); if (g_record) return 0; break;
  case SYS_sched_getaffinity: rec(NR_GETAFF, NULL, 0); if (g_record) { memset((void *)a[2], 0xff, (size_t)a[1] < 8 ? (size_t)a[1] : 8); return (long)a[1]; } break;
  default: break; }
  return real_syscall()(nr, a[0], a[1], a[2], a[3], a[4], a[5]);
}

void h_configure(HConfig &cfg) {
  cfg.property = "C10"; cfg.name = "c10_binding";
  cfg.rule = "case = topology (synthetic or corpus XML, with/without IS_THISSYSTEM, optionally restricted so that complete != topology set) + 14 binding calls over all cpubind/membind entry points (set/get for this process, a pid, a thread, an area incl. empty areas, alloc_membind and alloc_membind_policy, last-location and memlocation getters, support bits vs ENOSYS) x set shapes {subset, topology, complete, empty, outside complete, infinite, full} x flag words (legal + unknown bits) x policies (legal, MIXED, garbage) x BYNODESET; every 8th case is a live round trip on the native topology; non-trivial = a call passed validation with a proper subset, or was rejected for a reason other than an empty set; distinct by hash of the decoded case";
  cfg.head_len = 900; cfg.op_len = 1; cfg.max_ops = 1; cfg.leak_check = false;
}

static bool mask_equals(const std::vector<unsigned char> &m, hwloc_const_bitmap_t b) { for (unsigned i = 0; i < m.size() * 8; i++) if ((bool)((m[i / 8] >> (i % 8)) & 1) != (hwloc_bitmap_isset(b, i) != 0)) return false; return hwloc_bitmap_weight(b) >= 0 && hwloc_bitmap_last(b) < (int)m.size() * 8; }
static std::string maskstr(const std::vector<unsigned char> &m) { std::string s; for (unsigned i = 0; i < m.size() * 8; i++) if ((m[i / 8] >> (i % 8)) & 1) s += std::to_string(i) + ","; return s; }

static hwloc_bitmap_t shape_set(Draw &d, hwloc_const_bitmap_t topo, hwloc_const_bitmap_t comp, int &shape) {
  hwloc_bitmap_t set = hwloc_bitmap_alloc(); shape = d.range(0, 7);
  if (shape == 0) { int f; hwloc_bitmap_foreach_begin(f, topo) { if (d.chance(1, 2)) hwloc_bitmap_set(set, f); } hwloc_bitmap_foreach_end(); if (hwloc_bitmap_iszero(set)) hwloc_bitmap_set(set, hwloc_bitmap_first(topo)); }
  else if (shape == 1) hwloc_bitmap_copy(set, topo); else if (shape == 2) hwloc_bitmap_copy(set, comp); else if (shape == 3) {} else if (shape == 4) { hwloc_bitmap_copy(set, topo); hwloc_bitmap_set(set, hwloc_bitmap_last(comp) + 1 + d.range(0, 50)); }
  else if (shape == 5) hwloc_bitmap_set_range(set, d.range(0, 3), -1); else if (shape == 6) hwloc_bitmap_fill(set); else { hwloc_bitmap_copy(set, topo); int l = hwloc_bitmap_last(topo); if (l >= 0 && hwloc_bitmap_weight(topo) > 1) hwloc_bitmap_clr(set, l); }
  return set;
}
// output bitmaps handed to the getters are never clean: a getter must overwrite, not accumulate
static hwloc_bitmap_t dirty_bitmap(Draw &d) { hwloc_bitmap_t b = hwloc_bitmap_alloc(); int m = d.range(0, 3); if (m == 1) hwloc_bitmap_fill(b); else if (m == 2) { hwloc_bitmap_set_range(b, 0, 70); hwloc_bitmap_set(b, 200); } else if (m == 3) hwloc_bitmap_set_range(b, d.range(0, 40), -1); return b; }
static const char *shape_name[] = {"subset", "topology", "complete", "empty", "outside-complete", "infinite", "full", "all-but-last"};

// a second thread that binds itself to one PU and sleeps until told to leave (live part: process-wide views, x86 save/restore of the loader's binding)
struct Helper { pthread_t th; int pu; volatile int ready, leave; };
static void *helper_main(void *arg) { Helper *h = (Helper *)arg; cpu_set_t m; CPU_ZERO(&m); CPU_SET(h->pu, &m); real_syscall()(SYS_sched_setaffinity, 0L, (long)sizeof m, &m); prctl(PR_SET_NAME, "helper) x", 0, 0, 0); h->ready = 1; while (!h->leave) usleep(500); return NULL; }

static void live_part(Case &c, Draw &d) {
  g_record = false; cpu_set_t orig; CPU_ZERO(&orig); CHECK(c, real_syscall()(SYS_sched_getaffinity, 0L, (long)sizeof orig, &orig) > 0, "harness_live", "cannot read the current affinity");
  std::vector<int> opus; for (int i = 0; i < CPU_SETSIZE; i++) if (CPU_ISSET(i, &orig)) opus.push_back(i);
  // the caller may already be bound to a subset, may have a thread bound elsewhere, and its threads may have unusual names
  Helper hp; hp.pu = -1; hp.ready = hp.leave = 0; bool helper = opus.size() >= 2 && d.chance(1, 2);
  cpu_set_t pre = orig; if (opus.size() >= 2 && d.chance(1, 2)) { CPU_ZERO(&pre); for (int pu : opus) if (d.chance(1, 3)) CPU_SET(pu, &pre); if (!CPU_COUNT(&pre)) CPU_SET(opus[d.raw() % opus.size()], &pre); }
  if (helper) { std::vector<int> cand; for (int pu : opus) if (!CPU_ISSET(pu, &pre) || CPU_COUNT(&pre) == (int)opus.size()) cand.push_back(pu); if (cand.empty()) cand = opus; hp.pu = cand[d.raw() % cand.size()]; CHECK(c, pthread_create(&hp.th, NULL, helper_main, &hp) == 0, "harness_live", "pthread_create failed"); while (!hp.ready) usleep(200); }
  real_syscall()(SYS_sched_setaffinity, 0L, (long)sizeof pre, &pre);
  static const char *names[] = {NULL, "plain", "w(1) x", "a) b) c", ") ", "((x", "sp ace"}; const char *tname = d.pick(names); if (tname) prctl(PR_SET_NAME, tname, 0, 0, 0);
  bool nox86 = d.chance(1, 2); if (nox86) setenv("HWLOC_COMPONENTS", "-x86", 1); else unsetenv("HWLOC_COMPONENTS");
  hwloc_topology_t t; hwloc_topology_init(&t); unsigned long fl = 0; int fk = d.range(0, 3); if (fk == 1) fl = HWLOC_TOPOLOGY_FLAG_INCLUDE_DISALLOWED; else if (fk == 2) fl = HWLOC_TOPOLOGY_FLAG_IS_THISSYSTEM | HWLOC_TOPOLOGY_FLAG_RESTRICT_TO_CPUBINDING; else if (fk == 3) fl = HWLOC_TOPOLOGY_FLAG_IS_THISSYSTEM | HWLOC_TOPOLOGY_FLAG_THISSYSTEM_ALLOWED_RESOURCES;
  CHECK(c, hwloc_topology_set_flags(t, fl) == 0, "harness_live", "flags 0x%lx rejected", fl); g_calls.clear();
  c.descf("live: native topology %s x86, flags 0x%lx, caller bound to %d of %zu PUs%s, thread name %s", nox86 ? "without" : "with", fl, CPU_COUNT(&pre), opus.size(), helper ? strf(", a second thread bound to PU %d", hp.pu).c_str() : "", tname ? qstr(tname).c_str() : "(unchanged)");
  c.attempt("native hwloc_topology_load"); CHECK(c, hwloc_topology_load(t) == 0, "live_load", "native load failed");
  cpu_set_t after; CPU_ZERO(&after); real_syscall()(SYS_sched_getaffinity, 0L, (long)sizeof after, &after);
  CHECK(c, CPU_EQUAL(&pre, &after), "load_keeps_binding", "hwloc_topology_load() (%s x86 backend, flags 0x%lx%s) changed the caller's binding: %d PUs before, %d after", nox86 ? "without" : "with", fl, helper ? ", second thread bound elsewhere" : "", CPU_COUNT(&pre), CPU_COUNT(&after));
  require_wf(c, t, "native topology");
  hwloc_const_bitmap_t allowed = hwloc_topology_get_allowed_cpuset(t); hwloc_bitmap_t cur = hwloc_bitmap_alloc(); CHECK(c, hwloc_get_cpubind(t, cur, HWLOC_CPUBIND_THREAD) == 0, "live_get", "get_cpubind failed errno %d", errno);
  // a topology that includes disallowed PUs and whose allowed set was narrowed by hwloc_topology_allow(): "any non-empty subset of the allowed cpuset" includes the allowed set itself
  bool narrowed = false;
  if (fk == 1 && hwloc_bitmap_weight(cur) >= 2 && d.chance(2, 3)) { hwloc_bitmap_t a = hwloc_bitmap_alloc(); int f; hwloc_bitmap_foreach_begin(f, cur) { if (hwloc_bitmap_isset(allowed, f) && d.chance(1, 2)) hwloc_bitmap_set(a, f); } hwloc_bitmap_foreach_end();
    if (hwloc_bitmap_iszero(a)) hwloc_bitmap_set(a, hwloc_bitmap_first(cur)); if (hwloc_bitmap_isequal(a, cur)) hwloc_bitmap_clr(a, hwloc_bitmap_last(a));
    int ar = hwloc_topology_allow(t, a, NULL, HWLOC_ALLOW_FLAG_CUSTOM); CHECK(c, ar == 0 && hwloc_bitmap_isequal(hwloc_topology_get_allowed_cpuset(t), a), "harness_live", "allow(CUSTOM, %s) returned %d errno %d", bstr(a).c_str(), ar, errno);
    allowed = hwloc_topology_get_allowed_cpuset(t); narrowed = true; c.descf(", allowed set narrowed to %s", bstr(a).c_str()); hwloc_bitmap_free(a); require_wf(c, t, "native topology after allow"); c.cls("live:allowed-narrowed"); }
  for (int k = 0; k < 6; k++) { hwloc_bitmap_t s = hwloc_bitmap_alloc(); int f; hwloc_bitmap_foreach_begin(f, allowed) { if (hwloc_bitmap_isset(cur, f) && (d.chance(1, 2) || (narrowed && k == 0))) hwloc_bitmap_set(s, f); } hwloc_bitmap_foreach_end(); if (hwloc_bitmap_iszero(s)) hwloc_bitmap_set(s, hwloc_bitmap_first(narrowed ? allowed : cur));
    int r = hwloc_set_cpubind(t, s, HWLOC_CPUBIND_THREAD); CHECK(c, r == 0, "live_set", "set_cpubind(THREAD, %s) failed errno %d", bstr(s).c_str(), errno);
    hwloc_bitmap_t g = dirty_bitmap(d); CHECK(c, hwloc_get_cpubind(t, g, HWLOC_CPUBIND_THREAD) == 0 && hwloc_bitmap_isequal(g, s), "live_roundtrip", "bound the thread to %s, read back %s", bstr(s).c_str(), bstr(g).c_str());
    // the process-wide views are the union over the threads: this thread's set, plus the second thread's PU when there is one; output bitmaps are dirty on purpose
    hwloc_bitmap_t procset = hwloc_bitmap_dup(s); if (helper) hwloc_bitmap_set(procset, hp.pu);
    { static const int pf[] = {0, HWLOC_CPUBIND_PROCESS, HWLOC_CPUBIND_THREAD, HWLOC_CPUBIND_PROCESS | HWLOC_CPUBIND_STRICT}; for (int f2 : pf) { if ((f2 & HWLOC_CPUBIND_STRICT) && helper) continue; hwloc_bitmap_t g2 = dirty_bitmap(d); int r2 = hwloc_get_cpubind(t, g2, f2); hwloc_const_bitmap_t e2 = f2 == HWLOC_CPUBIND_THREAD ? s : procset; CHECK(c, r2 == 0 && hwloc_bitmap_isequal(g2, e2), "live_roundtrip", "thread bound to %s%s, get_cpubind(flags 0x%x) into a non-empty bitmap returned %d with %s, expected %s", bstr(s).c_str(), helper ? " (second thread elsewhere)" : "", f2, r2, bstr(g2).c_str(), bstr(e2).c_str()); hwloc_bitmap_free(g2); }
      hwloc_bitmap_t g3 = dirty_bitmap(d); int r3 = hwloc_get_proc_cpubind(t, getpid(), g3, 0); CHECK(c, r3 == 0 && hwloc_bitmap_isequal(g3, procset), "live_roundtrip", "get_proc_cpubind(self) returned %d with %s, expected %s", r3, bstr(g3).c_str(), bstr(procset).c_str()); hwloc_bitmap_free(g3);
      hwloc_bitmap_t g4 = dirty_bitmap(d); int r4 = hwloc_get_thread_cpubind(t, pthread_self(), g4, 0); CHECK(c, r4 == 0 && hwloc_bitmap_isequal(g4, s), "live_roundtrip", "get_thread_cpubind(self) returned %d with %s, the thread is bound to %s", r4, bstr(g4).c_str(), bstr(s).c_str()); hwloc_bitmap_free(g4);
      if ((k & 1) && !helper) { int r5 = hwloc_set_cpubind(t, s, HWLOC_CPUBIND_PROCESS); hwloc_bitmap_t g5 = dirty_bitmap(d); CHECK(c, r5 == 0 && hwloc_get_cpubind(t, g5, HWLOC_CPUBIND_THREAD) == 0 && hwloc_bitmap_isequal(g5, s), "live_roundtrip", "set_cpubind(PROCESS, %s) returned %d, the thread then reads %s", bstr(s).c_str(), r5, bstr(g5).c_str()); hwloc_bitmap_free(g5); } }
    // where the thread (resp. the process) last ran lies inside its binding, whatever the threads are called
    { static const int lf[] = {HWLOC_CPUBIND_THREAD, 0, HWLOC_CPUBIND_PROCESS}; for (int f3 : lf) { hwloc_bitmap_t loc = dirty_bitmap(d); if (hwloc_get_last_cpu_location(t, loc, f3) == 0) { hwloc_const_bitmap_t e3 = f3 == HWLOC_CPUBIND_THREAD ? s : procset; CHECK(c, hwloc_bitmap_isincluded(loc, e3) && !hwloc_bitmap_iszero(loc), "live_last_location", "last cpu location %s (flags 0x%x, thread name %s) is not inside the binding %s", bstr(loc).c_str(), f3, tname ? tname : "(unchanged)", bstr(e3).c_str()); } hwloc_bitmap_free(loc); }
      hwloc_bitmap_t loc = dirty_bitmap(d); if (hwloc_get_proc_last_cpu_location(t, getpid(), loc, 0) == 0) CHECK(c, hwloc_bitmap_isincluded(loc, procset) && !hwloc_bitmap_iszero(loc), "live_last_location", "get_proc_last_cpu_location(self) = %s (thread name %s) is not inside the binding %s", bstr(loc).c_str(), tname ? tname : "(unchanged)", bstr(procset).c_str()); hwloc_bitmap_free(loc); }
    hwloc_bitmap_free(procset); hwloc_bitmap_free(g); hwloc_bitmap_free(s); c.cls("live:roundtrip"); }
  if (helper) { hp.leave = 1; pthread_join(hp.th, NULL); c.cls("live:second-thread"); } if (tname) c.cls("live:renamed-thread"); if (CPU_COUNT(&pre) != (int)opus.size()) c.cls("live:caller-already-bound");
  real_syscall()(SYS_sched_setaffinity, 0L, (long)sizeof orig, &orig); hwloc_bitmap_free(cur); hwloc_topology_destroy(t); g_record = true; c.nontrivial();
}

void h_run(Case &c) {
  Draw &d = c.head;
  if (d.chance(1, 8)) { live_part(c, d); return; }
  SpecOpts so; so.gen_flags = false; so.gen_filters = false; so.syn.max_pus = 48; so.gx_num = 1; so.gx_den = 6; TopoSpec sp = gen_topospec(d, so);
  bool this_sys = d.chance(2, 3); if (this_sys) sp.flags |= HWLOC_TOPOLOGY_FLAG_IS_THISSYSTEM; if (d.chance(1, 3)) sp.flags |= HWLOC_TOPOLOGY_FLAG_INCLUDE_DISALLOWED; c.desc(sp.text());
  hwloc_topology_t t; hwloc_topology_init(&t); g_record = true; if (apply_spec_and_load(c, t, sp) < 0) { hwloc_topology_destroy(t); c.discard(); }
  if (d.chance(1, 2)) { hwloc_bitmap_t s = hwloc_bitmap_dup(hwloc_topology_get_topology_cpuset(t)); hwloc_bitmap_clr(s, hwloc_bitmap_last(s)); if (d.chance(1, 2)) hwloc_bitmap_clr(s, hwloc_bitmap_first(s)); if (!hwloc_bitmap_iszero(s) && hwloc_topology_restrict(t, s, 0) == 0) c.desc(" restricted(complete != topology set)"); hwloc_bitmap_free(s); }
  // a duplicate describes the same (foreign or native) system as its source: same hooks, same rules
  if (d.chance(1, 4)) { hwloc_topology_t t2; CHECK(c, hwloc_topology_dup(&t2, t) == 0, "harness_dup", "dup failed"); hwloc_topology_destroy(t); t = t2; c.desc(" dup"); c.cls("topology:duplicate"); }
  bool nontrivial = false;
  for (int q = 0; q < 14; q++) {
    bool mem = d.chance(1, 2); bool bynode = mem && d.chance(1, 2);
    hwloc_const_bitmap_t topo = bynode ? hwloc_topology_get_topology_nodeset(t) : hwloc_topology_get_topology_cpuset(t), comp = bynode ? hwloc_topology_get_complete_nodeset(t) : hwloc_topology_get_complete_cpuset(t);
    int shape; hwloc_bitmap_t set = shape_set(d, topo, comp, shape); bool empty = hwloc_bitmap_iszero(set), outside = !hwloc_bitmap_isincluded(set, comp); g_calls.clear(); g_lastcpumask.clear(); errno = 0;
    if (!mem) {
      int flags = d.chance(1, 4) ? (1 << d.range(0, 8)) : ((d.chance(1, 2) ? HWLOC_CPUBIND_PROCESS : HWLOC_CPUBIND_THREAD) | (d.chance(1, 4) ? HWLOC_CPUBIND_STRICT : 0) | (d.chance(1, 4) ? HWLOC_CPUBIND_NOMEMBIND : 0)); if (d.chance(1, 9)) flags = 0;
      bool badflags = flags & ~0xf; int entry = d.range(0, 2); const char *en[] = {"set_cpubind", "set_proc_cpubind", "set_thread_cpubind"};
      std::string what = strf("%s(%s %s, flags 0x%x)", en[entry], shape_name[shape], bstr(set).c_str(), flags); c.attempt(what);
      int rc = entry == 0 ? hwloc_set_cpubind(t, set, flags) : entry == 1 ? hwloc_set_proc_cpubind(t, getpid(), set, flags) : hwloc_set_thread_cpubind(t, pthread_self(), set, flags); int e = errno; size_t nsets = 0; for (auto &r : g_calls) if (r.nr == NR_SETAFF || r.nr == NR_PSETAFF) nsets++;
      if (badflags || empty || outside) { CHECK(c, rc == -1 && e == EINVAL, "reject_einval", "%s: expected -1/EINVAL, got %d errno %d", what.c_str(), rc, e); CHECK(c, g_calls.empty(), "reject_before_os", "%s: %zu system calls were made for a rejected request", what.c_str(), g_calls.size()); if (!empty) nontrivial = true; c.cls("cpubind:rejected"); }
      else if (!this_sys) { CHECK(c, rc == 0, "foreign_set", "%s on a topology that is not this system returned %d errno %d", what.c_str(), rc, e); CHECK(c, g_calls.empty(), "foreign_no_effect", "%s on a foreign topology reached the OS (%zu calls)", what.c_str(), g_calls.size()); c.cls("cpubind:foreign"); }
      else { CHECK(c, rc == 0 || e == ENOSYS, "set_ok", "%s returned %d errno %d", what.c_str(), rc, e); hwloc_const_bitmap_t expect = hwloc_bitmap_isincluded(topo, set) ? comp : set;
        for (auto &r : g_calls) if (r.nr == NR_SETAFF || r.nr == NR_PSETAFF) CHECK(c, mask_equals(r.mask, expect), "os_mask", "%s: the mask handed to the OS is {%s}, expected %s", what.c_str(), maskstr(r.mask).c_str(), bstr(expect).c_str());
        if (rc == 0) { CHECK(c, nsets >= 1, "os_called", "%s succeeded without any affinity system call", what.c_str()); if (!hwloc_bitmap_isincluded(topo, set)) nontrivial = true;
          hwloc_bitmap_t g = dirty_bitmap(d); int gflags = flags & ~(HWLOC_CPUBIND_STRICT | HWLOC_CPUBIND_NOMEMBIND); int gr = entry == 0 ? hwloc_get_cpubind(t, g, gflags) : entry == 1 ? hwloc_get_proc_cpubind(t, getpid(), g, gflags) : hwloc_get_thread_cpubind(t, pthread_self(), g, gflags);
          if (gr == 0) CHECK(c, hwloc_bitmap_isequal(g, expect), "get_after_set", "%s then get returned %s, expected %s", what.c_str(), bstr(g).c_str(), bstr(expect).c_str()); hwloc_bitmap_free(g); } c.cls("cpubind:this-system"); }
      // get-calls: unknown flags rejected; foreign topologies report the whole machine
      { hwloc_bitmap_t g = dirty_bitmap(d); errno = 0; int gr = hwloc_get_cpubind(t, g, flags); if (badflags) CHECK(c, gr == -1 && errno == EINVAL, "reject_einval", "get_cpubind(flags 0x%x) returned %d errno %d", flags, gr, errno); else if (!this_sys) CHECK(c, gr == 0 && hwloc_bitmap_isequal(g, hwloc_topology_get_complete_cpuset(t)), "foreign_get", "get_cpubind on a foreign topology returned %d with %s, expected the complete set", gr, bstr(g).c_str());
        { hwloc_bitmap_t g2 = dirty_bitmap(d); hwloc_bitmap_copy(g, g2); hwloc_bitmap_free(g2); } errno = 0; gr = hwloc_get_last_cpu_location(t, g, flags); if (badflags) CHECK(c, gr == -1 && errno == EINVAL, "reject_einval", "get_last_cpu_location(flags 0x%x) returned %d errno %d", flags, gr, errno); else if (!this_sys) CHECK(c, gr == 0 && hwloc_bitmap_isequal(g, hwloc_topology_get_complete_cpuset(t)), "foreign_get", "get_last_cpu_location on a foreign topology returned %d with %s", gr, bstr(g).c_str());
        // the per-process / per-thread getters follow the same rules; a foreign topology never reaches the OS; ENOSYS only without the advertised support
        const struct hwloc_topology_support *sup = hwloc_topology_get_support(t);
        for (int ge = 0; ge < 3; ge++) { static const char *gn[] = {"get_proc_cpubind", "get_thread_cpubind", "get_proc_last_cpu_location"}; g_calls.clear(); errno = 0; { hwloc_bitmap_t g2 = dirty_bitmap(d); hwloc_bitmap_copy(g, g2); hwloc_bitmap_free(g2); }
          gr = ge == 0 ? hwloc_get_proc_cpubind(t, getpid(), g, flags) : ge == 1 ? hwloc_get_thread_cpubind(t, pthread_self(), g, flags) : hwloc_get_proc_last_cpu_location(t, getpid(), g, flags); int ge_errno = errno;
          if (badflags) { CHECK(c, gr == -1 && ge_errno == EINVAL, "reject_einval", "%s(flags 0x%x) returned %d errno %d", gn[ge], flags, gr, ge_errno); CHECK(c, g_calls.empty(), "reject_before_os", "%s(flags 0x%x): %zu system calls for a rejected request", gn[ge], flags, g_calls.size()); }
          else if (!this_sys) { CHECK(c, gr == 0 && hwloc_bitmap_isequal(g, hwloc_topology_get_complete_cpuset(t)), "foreign_get", "%s on a foreign topology returned %d with %s, expected the complete set", gn[ge], gr, bstr(g).c_str()); CHECK(c, g_calls.empty(), "foreign_no_effect", "%s on a foreign topology reached the OS", gn[ge]); }
          else { unsigned char bit = ge == 0 ? sup->cpubind->get_proc_cpubind : ge == 1 ? sup->cpubind->get_thread_cpubind : sup->cpubind->get_proc_last_cpu_location; if (bit) CHECK(c, !(gr == -1 && ge_errno == ENOSYS), "enosys_vs_support", "%s returned ENOSYS although the support structure advertises it", gn[ge]); else CHECK(c, gr == -1 && ge_errno == ENOSYS, "enosys_vs_support", "%s is not advertised but returned %d errno %d", gn[ge], gr, ge_errno);
            if (gr == 0) CHECK(c, !hwloc_bitmap_iszero(g), "get_nonempty", "%s succeeded with an empty set", gn[ge]); } }
        if (!this_sys) { const struct hwloc_topology_cpubind_support *cs = sup->cpubind; CHECK(c, !cs->set_thisproc_cpubind && !cs->get_thisproc_cpubind && !cs->set_proc_cpubind && !cs->get_proc_cpubind && !cs->set_thisthread_cpubind && !cs->get_thisthread_cpubind && !cs->set_thread_cpubind && !cs->get_thread_cpubind && !cs->get_thisproc_last_cpu_location && !cs->get_proc_last_cpu_location && !cs->get_thisthread_last_cpu_location, "foreign_support", "a foreign topology advertises CPU binding support"); }
        hwloc_bitmap_free(g); }
    } else {
      int flags = d.chance(1, 5) ? (1 << d.range(0, 9)) : ((d.chance(1, 3) ? HWLOC_MEMBIND_PROCESS : d.chance(1, 2) ? HWLOC_MEMBIND_THREAD : 0) | (d.chance(1, 4) ? HWLOC_MEMBIND_STRICT : 0) | (d.chance(1, 4) ? HWLOC_MEMBIND_MIGRATE : 0) | (d.chance(1, 4) ? HWLOC_MEMBIND_NOCPUBIND : 0)); if (bynode) flags |= HWLOC_MEMBIND_BYNODESET; else flags &= ~HWLOC_MEMBIND_BYNODESET;
      static const int pols[] = {HWLOC_MEMBIND_DEFAULT, HWLOC_MEMBIND_FIRSTTOUCH, HWLOC_MEMBIND_BIND, HWLOC_MEMBIND_INTERLEAVE, HWLOC_MEMBIND_WEIGHTED_INTERLEAVE, HWLOC_MEMBIND_NEXTTOUCH, HWLOC_MEMBIND_MIXED, 6, 77, -2}; int pol = d.pick(pols);
      bool badflags = flags & ~0x3f, badpol = !(pol >= 0 && pol <= 5); int entry = d.range(0, 4); const char *en[] = {"set_membind", "set_proc_membind", "set_area_membind", "alloc_membind", "alloc_membind_policy"};
      std::string what = strf("%s(%s %s, policy %d, flags 0x%x)", en[entry], shape_name[shape], bstr(set).c_str(), pol, flags); c.attempt(what);
      static char area[8192]; int rc = 0; void *p = NULL; int e;
      if (entry == 0) rc = hwloc_set_membind(t, set, (hwloc_membind_policy_t)pol, flags); else if (entry == 1) rc = hwloc_set_proc_membind(t, getpid(), set, (hwloc_membind_policy_t)pol, flags); else if (entry == 2) rc = hwloc_set_area_membind(t, area, sizeof area, set, (hwloc_membind_policy_t)pol, flags); else if (entry == 3) { p = hwloc_alloc_membind(t, 4096, set, (hwloc_membind_policy_t)pol, flags); rc = p ? 0 : -1; } else { p = hwloc_alloc_membind_policy(t, 4096, set, (hwloc_membind_policy_t)pol, flags); rc = p ? 0 : -1; } e = errno;
      size_t nbind = 0; for (auto &r : g_calls) if (r.nr == SYS_mbind || r.nr == SYS_set_mempolicy || r.nr == SYS_migrate_pages) nbind++;
      bool conv_empty = false;
      // by cpuset, CPUs without any local NUMA node convert to an empty nodeset, which is rejected like an empty set
      if (!bynode && !empty && !outside && !hwloc_bitmap_isincluded(topo, set)) { hwloc_bitmap_t ns = hwloc_bitmap_alloc(); hwloc_cpuset_to_nodeset(t, set, ns); if (hwloc_bitmap_iszero(ns)) { conv_empty = true; c.cls("membind:cpuset-without-local-memory"); } hwloc_bitmap_free(ns); }
      bool rejected = badflags || badpol || empty || outside || conv_empty;
      if (!rejected && entry == 4 && (flags & HWLOC_MEMBIND_MIGRATE)) {   // alloc_membind refuses MIGRATE, the helper then changes the process policy and allocates: only "a foreign topology never reaches the OS" is asserted
        if (!this_sys) { CHECK(c, rc == 0, "foreign_set", "%s on a foreign topology returned NULL errno %d", what.c_str(), e); CHECK(c, nbind == 0, "foreign_no_effect", "%s on a foreign topology reached the OS", what.c_str()); }
        if (p) hwloc_free(t, p, 4096); hwloc_bitmap_free(set); c.cls("membind:alloc-policy-migrate"); continue; }
      if (!rejected && entry == 3 && (flags & HWLOC_MEMBIND_MIGRATE)) {   // nothing to migrate in a fresh allocation: EINVAL, i.e. NULL with STRICT and the fallback allocation otherwise
        CHECK(c, nbind == 0, "reject_before_os", "%s: %zu binding system calls", what.c_str(), nbind); if (flags & HWLOC_MEMBIND_STRICT) CHECK(c, rc == -1 && e == EINVAL, "alloc_migrate", "%s: expected NULL/EINVAL, got %d errno %d", what.c_str(), rc, e); else CHECK(c, rc == 0, "alloc_fallback", "%s: expected the fallback allocation", what.c_str());
        if (p) hwloc_free(t, p, 4096); hwloc_bitmap_free(set); c.cls("membind:alloc-migrate"); continue; }
      if (rejected) { CHECK(c, nbind == 0, "reject_before_os", "%s: %zu binding system calls for a rejected request", what.c_str(), nbind);
        if (entry >= 3) {   // hwloc_alloc_membind falls back to a plain allocation for an unusable set unless STRICT is given (documented, pitfall 9.29);
                            // flags and policy are validated whenever the set was usable or is given as a nodeset
          bool setbad = empty || outside;   // (a cpuset that converts to an empty nodeset is a usable set for this purpose: flags and policy are validated first)
          if ((badflags || badpol) && (bynode || !setbad)) CHECK(c, rc == -1 && e == EINVAL, "reject_einval", "%s: expected NULL/EINVAL, got %s errno %d", what.c_str(), rc ? "NULL" : "memory", e);
          else if (flags & HWLOC_MEMBIND_STRICT) CHECK(c, rc == -1, "alloc_strict", "%s: STRICT with an unusable set must fail", what.c_str()); else CHECK(c, rc == 0, "alloc_fallback", "%s: expected the documented fallback allocation, got NULL errno %d", what.c_str(), e); }
        else CHECK(c, rc == -1 && e == EINVAL, "reject_einval", "%s: expected -1/EINVAL, got %d errno %d", what.c_str(), rc, e);
        if (!empty) nontrivial = true; c.cls("membind:rejected"); }
      else if (!this_sys) { CHECK(c, rc == 0, "foreign_set", "%s on a foreign topology returned %d errno %d", what.c_str(), rc, e); CHECK(c, nbind == 0, "foreign_no_effect", "%s on a foreign topology reached the OS (%zu binding calls)", what.c_str(), nbind); c.cls("membind:foreign"); }
      else { // this system: whatever reaches the OS for BIND/INTERLEAVE policies carries exactly the expected nodeset
        hwloc_bitmap_t expect = hwloc_bitmap_alloc(); if (bynode) hwloc_bitmap_copy(expect, set); else if (hwloc_bitmap_isincluded(topo, set)) hwloc_bitmap_copy(expect, hwloc_topology_get_complete_nodeset(t)); else hwloc_cpuset_to_nodeset(t, set, expect);
        if (hwloc_bitmap_isincluded(hwloc_topology_get_topology_nodeset(t), expect)) hwloc_bitmap_copy(expect, hwloc_topology_get_complete_nodeset(t));   // a nodeset covering the whole topology is replaced by the complete nodeset
        for (auto &r : g_calls) if ((r.nr == SYS_mbind || r.nr == SYS_set_mempolicy) && !r.mask.empty() && (pol == HWLOC_MEMBIND_BIND || pol == HWLOC_MEMBIND_INTERLEAVE || pol == HWLOC_MEMBIND_WEIGHTED_INTERLEAVE)) { bool any = false; for (auto b : r.mask) if (b) any = true; if (any) CHECK(c, mask_equals(r.mask, expect), "os_mask", "%s: the node mask handed to the OS is {%s}, expected %s", what.c_str(), maskstr(r.mask).c_str(), bstr(expect).c_str()); }
        CHECK(c, rc == 0 || e == ENOSYS || e == EXDEV || e == EINVAL || e == ENOMEM, "set_ok", "%s returned %d errno %d", what.c_str(), rc, e); if (rc == 0 && !hwloc_bitmap_isincluded(topo, set)) nontrivial = true; hwloc_bitmap_free(expect); c.cls("membind:this-system"); }
      if (p) hwloc_free(t, p, 4096);
      { hwloc_bitmap_t g = dirty_bitmap(d); hwloc_membind_policy_t gp = (hwloc_membind_policy_t)55; errno = 0; int gflags = flags & ~(HWLOC_MEMBIND_STRICT | HWLOC_MEMBIND_MIGRATE | HWLOC_MEMBIND_NOCPUBIND); if (badflags) gflags = flags; int gr = hwloc_get_membind(t, g, &gp, gflags);
        if (badflags) CHECK(c, gr == -1 && errno == EINVAL, "reject_einval", "get_membind(flags 0x%x) returned %d errno %d", gflags, gr, errno);
        else if (!this_sys) { // the whole machine: the complete nodeset, or by cpuset the CPUs local to it (between the topology and the complete cpuset)
          if (bynode) CHECK(c, gr == 0 && hwloc_bitmap_isequal(g, hwloc_topology_get_complete_nodeset(t)), "foreign_get", "get_membind(BYNODESET) on a foreign topology returned %d with %s", gr, bstr(g).c_str());
          else { hwloc_bitmap_t whole = hwloc_bitmap_alloc(); hwloc_cpuset_from_nodeset(t, whole, hwloc_topology_get_complete_nodeset(t)); CHECK(c, gr == 0 && hwloc_bitmap_isequal(g, whole), "foreign_get", "get_membind on a foreign topology returned %d with %s, the CPUs local to the complete nodeset are %s", gr, bstr(g).c_str(), bstr(whole).c_str()); hwloc_bitmap_free(whole); } }
        // the per-process and per-area getters: same flag validation, an empty area cannot be queried for its binding (EINVAL) and has no location (0), a foreign topology reports the whole machine without reaching the OS
        hwloc_bitmap_t whole = hwloc_bitmap_alloc(); if (bynode) hwloc_bitmap_copy(whole, hwloc_topology_get_complete_nodeset(t)); else hwloc_cpuset_from_nodeset(t, whole, hwloc_topology_get_complete_nodeset(t));
        for (int ge = 0; ge < 3; ge++) { static const char *gn[] = {"get_proc_membind", "get_area_membind", "get_area_memlocation"}; size_t alen = d.chance(1, 4) ? 0 : sizeof area; g_calls.clear(); errno = 0; { hwloc_bitmap_t g2 = dirty_bitmap(d); hwloc_bitmap_copy(g, g2); hwloc_bitmap_free(g2); } gp = (hwloc_membind_policy_t)55;
          gr = ge == 0 ? hwloc_get_proc_membind(t, getpid(), g, &gp, gflags) : ge == 1 ? hwloc_get_area_membind(t, area, alen, g, &gp, gflags) : hwloc_get_area_memlocation(t, area, alen, g, gflags); int ge_errno = errno; size_t ncalls = g_calls.size();
          if (badflags) { CHECK(c, gr == -1 && ge_errno == EINVAL, "reject_einval", "%s(flags 0x%x) returned %d errno %d", gn[ge], gflags, gr, ge_errno); CHECK(c, ncalls == 0, "reject_before_os", "%s(flags 0x%x): %zu system calls for a rejected request", gn[ge], gflags, ncalls); }
          else if (ge == 1 && alen == 0) { CHECK(c, gr == -1 && ge_errno == EINVAL, "empty_area", "get_area_membind of an empty area returned %d errno %d", gr, ge_errno); CHECK(c, ncalls == 0, "reject_before_os", "get_area_membind of an empty area reached the OS"); }
          else if (ge == 2 && alen == 0) { CHECK(c, gr == 0 && ncalls == 0, "empty_area", "get_area_memlocation of an empty area returned %d errno %d after %zu system calls", gr, ge_errno, ncalls); }
          else if (!this_sys) { CHECK(c, gr == 0 && hwloc_bitmap_isequal(g, whole), "foreign_get", "%s on a foreign topology returned %d with %s, the whole machine is %s", gn[ge], gr, bstr(g).c_str(), bstr(whole).c_str()); if (ge < 2) CHECK(c, gp == HWLOC_MEMBIND_MIXED, "foreign_get", "%s on a foreign topology reports policy %d", gn[ge], (int)gp); CHECK(c, ncalls == 0, "foreign_no_effect", "%s on a foreign topology reached the OS", gn[ge]); } }
        hwloc_bitmap_free(whole);
        // an empty area needs no binding: success without any system call once flags, policy and set are acceptable
        if (!rejected) { g_calls.clear(); errno = 0; int zr = hwloc_set_area_membind(t, area, 0, set, (hwloc_membind_policy_t)pol, flags); size_t zb = 0; for (auto &r : g_calls) if (r.nr == SYS_mbind || r.nr == SYS_set_mempolicy || r.nr == SYS_migrate_pages) zb++; CHECK(c, zr == 0 && zb == 0, "empty_area", "set_area_membind of an empty area returned %d errno %d after %zu binding calls", zr, errno, zb); }
        else if (badflags || badpol) { errno = 0; int zr = hwloc_set_area_membind(t, area, 0, set, (hwloc_membind_policy_t)pol, flags); if (bynode || !(empty || outside)) CHECK(c, zr == -1 && errno == EINVAL, "reject_einval", "set_area_membind(empty area, policy %d, flags 0x%x) returned %d errno %d", pol, flags, zr, errno); }
        if (!this_sys) { const struct hwloc_topology_membind_support *ms = hwloc_topology_get_support(t)->membind; CHECK(c, !ms->set_thisproc_membind && !ms->get_thisproc_membind && !ms->set_proc_membind && !ms->get_proc_membind && !ms->set_thisthread_membind && !ms->get_thisthread_membind && !ms->set_area_membind && !ms->get_area_membind && !ms->alloc_membind && !ms->get_area_memlocation, "foreign_support", "a foreign topology advertises memory binding support"); }
        hwloc_bitmap_free(g); }
    }
    c.descf("\n | %s %s %s", mem ? "membind" : "cpubind", shape_name[shape], bstr(set).substr(0, 60).c_str());
    hwloc_bitmap_free(set);
  }
  if (nontrivial) c.nontrivial(); c.cls(this_sys ? "topology:this-system(recording)" : "topology:foreign");
  hwloc_topology_destroy(t);
}
