// C03 — bitmap operations implement exact finite/cofinite set semantics (DESIGN.md section 4, C03).
// Domain: histories of constructor/modifier/combinator calls over three bitmap slots (so that the same set is reached through
// different internal representations, with aliased destinations), boundary-biased indexes.
// Oracle: BitRef model executed in lock-step; after every call the modified bitmap is observed through isset and must equal the
// model; at the end every query is compared with the model on every slot and ordered pair of slots.
#include "bitgen.hpp"

void h_configure(HConfig &cfg) {
  cfg.property = "C03"; cfg.name = "c03_bitmap";
  cfg.rule = "case = history of 1..24 bitmap calls over 3 slots followed by the full query battery on all slots and ordered pairs; non-trivial = some query/binary operation had operands with different word counts or tail flags, or an aliased destination; distinct by hash of the call history";
  cfg.head_len = 96; cfg.op_len = 12; cfg.max_ops = 24; cfg.leak_check = false;
}

static int sgn(long x) { return x < 0 ? -1 : x > 0 ? 1 : 0; }

static void unary_queries(Case &c, Draw &d, const Slot &s, const char *nm) {
  hwloc_const_bitmap_t b = s.b; const BitRef &m = s.m;
  CHECK(c, (hwloc_bitmap_iszero(b) != 0) == m.empty(), "iszero", "%s=%s iszero=%d", nm, m.str().c_str(), hwloc_bitmap_iszero(b));
  CHECK(c, (hwloc_bitmap_isfull(b) != 0) == m.full(), "isfull", "%s=%s isfull=%d", nm, m.str().c_str(), hwloc_bitmap_isfull(b));
  CHECK(c, hwloc_bitmap_first(b) == m.first(), "first", "%s=%s first=%d expected %ld", nm, m.str().c_str(), hwloc_bitmap_first(b), m.first());
  CHECK(c, hwloc_bitmap_last(b) == m.last(), "last", "%s=%s last=%d expected %ld", nm, m.str().c_str(), hwloc_bitmap_last(b), m.last());
  CHECK(c, hwloc_bitmap_weight(b) == m.weight(), "weight", "%s=%s weight=%d expected %ld", nm, m.str().c_str(), hwloc_bitmap_weight(b), m.weight());
  CHECK(c, hwloc_bitmap_first_unset(b) == m.first_unset(), "first_unset", "%s=%s first_unset=%d expected %ld", nm, m.str().c_str(), hwloc_bitmap_first_unset(b), m.first_unset());
  CHECK(c, hwloc_bitmap_last_unset(b) == m.last_unset(), "last_unset", "%s=%s last_unset=%d expected %ld", nm, m.str().c_str(), hwloc_bitmap_last_unset(b), m.last_unset());
  for (int k = 0; k < 8; k++) {
    long p = k == 0 ? -1 : k == 1 ? m.first() : k == 2 ? m.last() : k == 3 ? m.inf - 1 : bit_index(d); if (p < -1) p = -1;
    CHECK(c, hwloc_bitmap_next(b, (int)p) == m.next(p), "next", "%s=%s next(%ld)=%d expected %ld", nm, m.str().c_str(), p, hwloc_bitmap_next(b, (int)p), m.next(p));
    CHECK(c, hwloc_bitmap_next_unset(b, (int)p) == m.next_unset(p), "next_unset", "%s=%s next_unset(%ld)=%d expected %ld", nm, m.str().c_str(), p, hwloc_bitmap_next_unset(b, (int)p), m.next_unset(p));
  }
  // ulong conversions
  int nr = hwloc_bitmap_nr_ulongs(b);
  long expnr = m.inf >= 0 ? -1 : m.empty() ? 0 : m.last() / 64 + 1;
  CHECK(c, nr == expnr, "nr_ulongs", "%s=%s nr_ulongs=%d expected %ld", nm, m.str().c_str(), nr, expnr);
  CHECK(c, hwloc_bitmap_to_ulong(b) == m.word(0), "to_ulong", "%s=%s to_ulong=0x%lx expected 0x%lx", nm, m.str().c_str(), hwloc_bitmap_to_ulong(b), m.word(0));
  unsigned wi[] = {0, 1, 2, 7, 8, 16, 33, (unsigned)(m.highest_interesting() / 64), (unsigned)(m.highest_interesting() / 64 + 1)};
  for (unsigned i : wi) CHECK(c, hwloc_bitmap_to_ith_ulong(b, i) == m.word(i), "to_ith_ulong", "%s=%s to_ith_ulong(%u)=0x%lx expected 0x%lx", nm, m.str().c_str(), i, hwloc_bitmap_to_ith_ulong(b, i), m.word(i));
  if (nr >= 0 && nr < 1200) {
    // to_ulongs with the documented nr, one less and two more; round trip through from_ulongs into a dirty destination
    int nrs[] = {nr, nr > 0 ? nr - 1 : 0, nr + 2};
    for (int q : nrs) {
      std::vector<unsigned long> w(q + 2, 0xdeadbeefcafef00dUL);
      int r = hwloc_bitmap_to_ulongs(b, q, w.data());
      CHECK(c, r == 0 && w[q] == 0xdeadbeefcafef00dUL, "to_ulongs", "%s=%s to_ulongs(nr=%d) ret %d or wrote past nr", nm, m.str().c_str(), q, r);
      for (int i = 0; i < q; i++) CHECK(c, w[i] == m.word(i), "to_ulongs", "%s=%s to_ulongs(nr=%d)[%d]=0x%lx expected 0x%lx", nm, m.str().c_str(), q, i, w[i], m.word(i));
      if (q == nr) {
        hwloc_bitmap_t D = hwloc_bitmap_alloc(); hwloc_bitmap_set_range(D, 3, d.chance(1, 2) ? -1 : 700);
        r = hwloc_bitmap_from_ulongs(D, q, w.data()); CHECK(c, r == 0, "from_ulongs", "from_ulongs(nr=%d) returned %d", q, r);
        same_as_model(c, D, m, "from_ulongs(to_ulongs(x)) into a dirty destination"); hwloc_bitmap_free(D);
      }
    }
  }
  // copy/dup independence: mutating the copy does not affect the original
  hwloc_bitmap_t D = hwloc_bitmap_dup(b); hwloc_bitmap_not(D, D); hwloc_bitmap_free(D); same_as_model(c, b, m, "after mutating a dup");
}

static void binary_queries(Case &c, const Slot &A, const Slot &B, const char *na, const char *nb) {
  const BitRef &a = A.m, &b = B.m;
  BitRef ab = BitRef::binop(a, b, 1), amb = BitRef::binop(a, b, 2), bma = BitRef::binop(b, a, 2);
  bool eq = amb.empty() && bma.empty(), inc = amb.empty(), con = bma.empty(), inter = !ab.empty();
  std::string ctx = strf("%s=%s %s=%s", na, a.str().c_str(), nb, b.str().c_str());
  CHECK(c, (hwloc_bitmap_isequal(A.b, B.b) != 0) == eq, "isequal", "%s isequal=%d", ctx.c_str(), hwloc_bitmap_isequal(A.b, B.b));
  CHECK(c, (hwloc_bitmap_isincluded(A.b, B.b) != 0) == inc, "isincluded", "%s isincluded=%d expected %d", ctx.c_str(), hwloc_bitmap_isincluded(A.b, B.b), inc);
  CHECK(c, (hwloc_bitmap_intersects(A.b, B.b) != 0) == inter, "intersects", "%s intersects=%d expected %d", ctx.c_str(), hwloc_bitmap_intersects(A.b, B.b), inter);
  // compare_inclusion: EQUAL / INCLUDED / CONTAINS / INTERSECTS / DIFFERENT by the set relations; an empty first operand is
  // INCLUDED in, an empty second operand CONTAINED by, a non-empty one (what every internal caller relies on)
  int exp = eq ? BITMAP_EQUAL : inc ? BITMAP_INCLUDED : con ? BITMAP_CONTAINS : inter ? BITMAP_INTERSECTS : BITMAP_DIFFERENT;
  int ci = hwloc_bitmap_compare_inclusion(A.b, B.b);
  CHECK(c, ci == exp, "compare_inclusion", "%s compare_inclusion=%d expected %d", ctx.c_str(), ci, exp);
  // compare_first: lowest index decides, the empty set is higher than anything, equal lowest index -> 0 (sign only, pitfall 9.8)
  long ka = a.first() < 0 ? (1L << 40) : a.first(), kb = b.first() < 0 ? (1L << 40) : b.first();
  int cf = hwloc_bitmap_compare_first(A.b, B.b);
  CHECK(c, sgn(cf) == sgn(ka - kb), "compare_first", "%s compare_first=%d expected sign %d", ctx.c_str(), cf, sgn(ka - kb));
  // compare: lexicographic from the highest index; the empty set is lower than anything; 0 iff equal
  int exps = 0;
  if ((a.inf >= 0) != (b.inf >= 0)) exps = a.inf >= 0 ? 1 : -1;
  else { BitRef x = BitRef::binop(a, b, 3); /* symmetric difference is finite here */ if (!x.empty()) { long top = *x.f.rbegin(); exps = a.has(top) ? 1 : -1; } }
  int cmp = hwloc_bitmap_compare(A.b, B.b);
  CHECK(c, sgn(cmp) == exps, "compare", "%s compare=%d expected sign %d", ctx.c_str(), cmp, exps);
  // combinators into a fresh, a dirty-finite and a dirty-infinite destination give the model's result
  for (int op = 0; op < 4; op++) for (int dm = 0; dm < 3; dm++) {
    hwloc_bitmap_t D = hwloc_bitmap_alloc(); if (dm == 1) hwloc_bitmap_set_range(D, 5, 1500); if (dm == 2) hwloc_bitmap_set_range(D, 70, -1);
    int r = do_binop(op, D, A.b, B.b); CHECK(c, r == 0, "retval", "%s returned %d", binop_name[op], r);
    BitRef m = BitRef::binop(a, b, op); same_as_model(c, D, m, (std::string(binop_name[op]) + " of " + ctx).c_str()); hwloc_bitmap_free(D);
  }
}

void h_run(Case &c) {
  Draw &d = c.head;
  std::vector<Slot> S(3);
  for (auto &s : S) { s.b = hwloc_bitmap_alloc(); }
  // a cheap initial content so that short histories are not all-empty
  for (unsigned i = 0; i < S.size(); i++) { int n = d.range(0, 3); for (int k = 0; k < n; k++) { std::string t = bitmap_step(c, d, S, i); c.desc(t + "; "); same_as_model(c, S[i].b, S[i].m, t.c_str()); } }
  for (size_t k = 0; k < c.ops.size(); k++) {
    unsigned s = c.ops[k].range(0, 2);
    std::string t = bitmap_step(c, c.ops[k], S, s); c.desc(t + "; ");
    same_as_model(c, S[s].b, S[s].m, t.c_str());
    // other slots must not have been disturbed
    for (unsigned o = 0; o < S.size(); o++) if (o != s) same_as_model(c, S[o].b, S[o].m, ("bystander after " + t).c_str());
  }
  bool nontriv = false;
  for (unsigned i = 0; i < S.size(); i++) {
    unary_queries(c, d, S[i], strf("#%u", i).c_str());
    for (unsigned j = 0; j < S.size(); j++) {
      binary_queries(c, S[i], S[j], strf("#%u", i).c_str(), strf("#%u", j).c_str());
      if (i != j) {
        bool difftail = (S[i].m.inf >= 0) != (S[j].m.inf >= 0);
        bool diffwords = S[i].m.highest_interesting() / 64 != S[j].m.highest_interesting() / 64;
        if (difftail) c.cls("pair:different-tail"); if (diffwords) c.cls("pair:different-word-count");
        if (S[i].m == S[j].m && !S[i].m.empty()) c.cls("pair:equal-sets-different-history");
        if ((difftail || diffwords) && !S[i].m.empty() && !S[j].m.empty()) nontriv = true;
      }
    }
    if (S[i].m.inf >= 0) c.cls("slot:infinite"); else if (S[i].m.empty()) c.cls("slot:empty"); else if (S[i].m.last() >= 64) c.cls("slot:multiword"); else c.cls("slot:one-word");
    c.descf(" #%u=%s", i, S[i].m.str().substr(0, 200).c_str());
  }
  if (nontriv) c.nontrivial();
  for (auto &s : S) hwloc_bitmap_free(s.b);
}

bool h_named(const std::string &name, Case &c) {
  Draw d; std::vector<Slot> S(2); S[0].b = hwloc_bitmap_alloc(); S[1].b = hwloc_bitmap_alloc();
  if (name == "F-C03-a") {  // compare_first(empty, {64-}) for two representations of {64-}
    c.desc("compare_first(empty, {64-}) with {64-} built by set_range(64,-1) and by fill+clr_range(0,63)");
    hwloc_bitmap_set_range(S[1].b, 64, -1); S[1].m.set_range(64, -1);
    binary_queries(c, S[0], S[1], "empty", "tail64"); binary_queries(c, S[1], S[0], "tail64", "empty");
    hwloc_bitmap_fill(S[1].b); hwloc_bitmap_clr_range(S[1].b, 0, 63);
    binary_queries(c, S[0], S[1], "empty", "tail64'"); binary_queries(c, S[1], S[0], "tail64'", "empty");
  } else if (name == "F-C03-b") {  // from_ulongs(nr=0), i.e. what nr_ulongs() returns for the empty set
    c.desc("from_ulongs(nr=0) into a dirty destination, then to_ulong");
    hwloc_bitmap_set_range(S[0].b, 3, 200); unsigned long w = 0xff;
    int r = hwloc_bitmap_from_ulongs(S[0].b, 0, &w); CHECK(c, r == 0, "from_ulongs", "returned %d", r);
    S[0].m = BitRef(); same_as_model(c, S[0].b, S[0].m, "from_ulongs(nr=0)"); unary_queries(c, d, S[0], "from_ulongs0");
  } else return false;
  hwloc_bitmap_free(S[0].b); hwloc_bitmap_free(S[1].b);
  return true;
}
