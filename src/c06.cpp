// C06 — loading arbitrary XML never corrupts memory, hangs or yields a broken topology (DESIGN.md section 4, C06).
// This harness is the structure-aware mutator (3.6): valid exports (corpus files, exports of generated topologies, v2 exports) are
// parsed into an element tree, mutated by generated operations and loaded through the two-stage oracle.  The byte-level side is in
// src/fuzz/fz_xml.cpp and fz_diffxml.cpp.
#include "ops.hpp"
#include "battery.hpp"
#include <unistd.h>

void h_configure(HConfig &cfg) {
  cfg.property = "C06"; cfg.name = "c06_xmlmut";
  cfg.rule = "case = source document (corpus XML or export of a generated topology, v3 or v2) + 0..6 structure-aware mutations + load configuration; non-trivial = the mutated document still reached object import (load succeeded, or failed after set_xmlbuffer accepted it) with at least one mutation applied; classes: rejected-early / rejected-late / loaded-consistent / loaded-inconsistent (F-C06-h); distinct by hash of the mutated document";
  cfg.head_len = 400; cfg.op_len = 24; cfg.max_ops = 6; cfg.leak_check = true; cfg.hang_is_violation = true; cfg.cpu_limit_s = 20;
}

struct Node { std::string tag; std::vector<std::pair<std::string, std::string>> attrs; std::vector<Node> kids; std::string text; };
struct Doc { std::string prolog; Node root; bool ok = false; };

// minimal parser for hwloc's own export format (both backends produce this shape)
static bool parse_node(const std::string &s, size_t &p, Node &n, int depth) {
  if (depth > 200) return false;
  while (p < s.size() && isspace((unsigned char)s[p])) p++;
  if (p >= s.size() || s[p] != '<') return false; p++;
  size_t q = p; while (q < s.size() && !isspace((unsigned char)s[q]) && s[q] != '>' && s[q] != '/') q++; n.tag = s.substr(p, q - p); p = q;
  while (true) {
    while (p < s.size() && isspace((unsigned char)s[p])) p++;
    if (p >= s.size()) return false;
    if (s[p] == '/') { if (p + 1 < s.size() && s[p + 1] == '>') { p += 2; return true; } return false; }
    if (s[p] == '>') { p++; break; }
    size_t e = s.find('=', p); if (e == std::string::npos) return false; std::string name = s.substr(p, e - p); p = e + 1; if (p >= s.size() || s[p] != '"') return false; size_t c = s.find('"', p + 1); if (c == std::string::npos) return false;
    n.attrs.push_back({name, s.substr(p + 1, c - p - 1)}); p = c + 1;
  }
  // content: children or text
  while (true) {
    size_t lt = s.find('<', p); if (lt == std::string::npos) return false;
    if (s.compare(lt, 2, "</") == 0) { std::string txt = s.substr(p, lt - p); bool blank = true; for (char ch : txt) if (!isspace((unsigned char)ch)) blank = false; if (!blank || n.kids.empty()) n.text = blank ? "" : txt; size_t gt = s.find('>', lt); if (gt == std::string::npos) return false; p = gt + 1; return true; }
    if (n.tag == "userdata") { size_t end = s.find("</userdata>", p); if (end == std::string::npos) return false; n.text = s.substr(p, end - p); p = end + 11; return true; }
    p = lt; Node k; if (!parse_node(s, p, k, depth + 1)) return false; n.kids.push_back(k);
  }
}
static Doc parse_doc(const std::string &s) {
  Doc d; size_t p = 0;
  while (true) { while (p < s.size() && isspace((unsigned char)s[p])) p++; if (s.compare(p, 2, "<?") == 0 || s.compare(p, 2, "<!") == 0) { size_t gt = s.find('>', p); if (gt == std::string::npos) return d; d.prolog += s.substr(p, gt + 1 - p) + "\n"; p = gt + 1; } else break; }
  d.ok = parse_node(s, p, d.root, 0); return d;
}
static void ser(const Node &n, std::string &o, int ind) {
  o += std::string(ind, ' ') + "<" + n.tag; for (auto &a : n.attrs) o += " " + a.first + "=\"" + a.second + "\"";
  if (n.kids.empty() && n.text.empty()) { o += "/>\n"; return; }
  o += ">"; if (!n.kids.empty()) { o += "\n"; for (auto &k : n.kids) ser(k, o, ind + 2); o += std::string(ind, ' '); } else o += n.text;
  o += "</" + n.tag + ">\n";
}
static void collect(Node &n, std::vector<Node *> &v) { v.push_back(&n); for (auto &k : n.kids) collect(k, v); }

static const char *num_dict[] = {"0", "1", "-1", "2", "7", "2147483647", "2147483648", "4294967295", "4294967296", "9223372036854775807", "9223372036854775808", "18446744073709551615", "18446744073709551616", "1234567890123456789012345678901234567890", "", "abc", "0x10", " 5", "5 ", "-0", "65535", "65536", "65537"};
static const char *set_dict[] = {"", ",", "0x", "0x0", "0xf...f", "0xf...f,", "0xf...f,0x0", "0x1", "0xffffffff", "0x00000001,0x00000000", "0xfffffffff", "0x1,", ",0x1", "0x80000000,0x0,0x0,0x0,0x0,0x0,0x0,0x0", "zzz", "0x0,0x0"};
static const char *type_dict[] = {"Machine", "Package", "Core", "PU", "NUMANode", "Group", "L1Cache", "L3iCache", "MemCache", "Bridge", "PCIDev", "OSDev", "Misc", "Die", "Cache", "Socket", "System", "Node", "FutureType", "", "pu", "L9Cache", "die\xe0"};
static std::string mutate_value(Draw &d, const std::string &name, const std::string &old) {
  if (name.find("set") != std::string::npos) return d.pick(set_dict);
  if (name == "type" || name == "unique_type") return d.pick(type_dict);
  if (name == "osdev_type") { static const char *v[] = {"0", "1", "3", "64", "127", "128", "255", "4294967296", "-1", "x"}; return d.pick(v); }
  if (name == "bridge_type") { static const char *v[] = {"0-1", "1-1", "0-0", "1-0", "2-1", "0-2", "-", "1", "0-1-1"}; return d.pick(v); }
  if (name == "bridge_pci" || name == "pci_busid") { static const char *v[] = {"0000:[00-ff]", "0000:00:01.0", "ffff:ff:1f.7", "10000:00:00.0", "0000:[ff-00]", "", ":", "0000:00", "0000:[00-00"}; return d.pick(v); }
  if (name == "cache_type" || name == "depth" || name == "kind" || name == "subkind" || name == "dont_merge" || name == "flags") { static const char *v[] = {"0", "1", "2", "3", "4", "5", "6", "9", "-1", "255", "4294967295", "x"}; return d.pick(v); }
  if (name == "version") { static const char *v[] = {"1.0", "2.0", "2.5", "2.99", "3.0", "3.1", "4.0", "0.9", "", "x.y", "3"}; return d.pick(v); }
  if (name == "name" && d.chance(1, 2)) { static const char *v[] = {"Capacity", "Locality", "Bandwidth", "Latency", "", "NUMALatency", "XGMIHops", "x\xe9y"}; return d.pick(v); }
  if (name == "indexing") { static const char *v[] = {"os", "gp", "", "logical", "OS"}; return d.pick(v); }
  if (name == "encoding") { static const char *v[] = {"base64", "normal", "", "hex"}; return d.pick(v); }
  if (name == "length" || name == "nbobjs" || name.find("index") != std::string::npos || name.find("memory") != std::string::npos || name.find("size") != std::string::npos || name.find("value") != std::string::npos || name == "count" || name == "efficiency" || name == "forced_efficiency") return d.pick(num_dict);
  if (d.chance(1, 2)) return d.pick(num_dict);
  std::string s = old; if (!s.empty()) { size_t p = d.raw() % s.size(); if (d.chance(1, 2)) s[p] = (char)d.range(1, 255); else s.erase(p, 1); } else s = "x"; return s;
}

static std::string source_doc(Case &c, Draw &d, bool &is_v2) {
  auto files = corpus_xml_files(); is_v2 = false;
  if (!files.empty() && d.chance(1, 2)) {
    for (int tries = 0; tries < 4; tries++) { std::string f = d.pick(files); FILE *fh = fopen(f.c_str(), "rb"); if (!fh) continue; std::string s; char b[65536]; size_t n; while ((n = fread(b, 1, sizeof b, fh)) > 0) s.append(b, n); fclose(fh); if (s.size() > 250000) continue; c.desc("source=" + f.substr(f.rfind('/') + 1)); return s; }
  }
  SpecOpts so; so.xml_num = 0; so.misc_keep = true; so.syn.max_pus = 24; so.gen_flags = false; TopoSpec sp = gen_topospec(d, so);
  hwloc_topology_t t; hwloc_topology_init(&t); if (apply_spec_and_load(c, t, sp) < 0) { hwloc_topology_destroy(t); c.discard(); }
  ops_xml_safe = true; int nops = d.range(0, 4); std::string opsd; for (int i = 0; i < nops; i++) { OpRes r = apply_op(c, d, t); opsd += strf(" | %s -> %d", r.desc.c_str(), r.rc); }
  is_v2 = d.chance(1, 4); std::string x = export_xml(t, is_v2 ? HWLOC_TOPOLOGY_EXPORT_XML_FLAG_V2 : 0); hwloc_topology_destroy(t);
  c.descf("source=export%s of %s +%d ops%s", is_v2 ? "(v2)" : "", sp.text().c_str(), nops, opsd.c_str()); return x;
}

static Case *g_c; static void fail_cb(const char *rule, const char *msg) { g_c->fail(rule, "%s", msg); }

void h_run(Case &c) {
  g_c = &c; Draw &d = c.head; bool v2;
  std::string src = source_doc(c, d, v2);
  Doc doc = parse_doc(src); CHECK(c, doc.ok, "harness_parse", "the harness could not parse a hwloc export");
  int nmut = 0; size_t trunc = 0, trunc_escaped = 0; bool byteflip = false;
  for (size_t i = 0; i < c.ops.size(); i++) {
    Draw &o = c.ops[i]; std::vector<Node *> all; collect(doc.root, all); Node *n = all[o.raw() % all.size()]; int k = o.range(0, 17); std::string what;
    // objects dominate every document: one mutation in three targets the non-object elements (distances, memory attributes, CPU kinds, infos,
    // page types, userdata, support) or their parents, whose importers have their own bounds and counters (seeded change C06)
    { uint32_t pickv = o.raw(); if (o.chance(1, 3)) { std::vector<Node *> special; for (Node *x : all) { if (x->tag != "object" && x->tag != "topology") special.push_back(x); else for (auto &kid : x->kids) if (kid.tag != "object") { special.push_back(x); break; } } std::vector<Node *> counted; for (Node *x : special) if (x->tag.find("distances") != std::string::npos || x->tag.find("memattr") != std::string::npos || x->tag.find("cpukind") != std::string::npos) counted.push_back(x);
        if (!counted.empty() && (pickv >> 20 & 1)) { n = counted[pickv % counted.size()]; c.cls("mut-target:counted-structure"); } else if (!special.empty()) { n = special[pickv % special.size()]; c.cls("mut-target:non-object-element"); } } }
    if (k <= 3 && !n->attrs.empty()) { auto &a = n->attrs[o.raw() % n->attrs.size()]; std::string nv = mutate_value(o, a.first, a.second); what = strf("set <%s %s=\"%s\"> to \"%s\"", n->tag.c_str(), a.first.c_str(), a.second.substr(0, 30).c_str(), nv.substr(0, 40).c_str()); a.second = nv; }
    else if (k == 4 && !n->attrs.empty()) { size_t ai = o.raw() % n->attrs.size(); what = strf("drop attribute %s of <%s>", n->attrs[ai].first.c_str(), n->tag.c_str()); n->attrs.erase(n->attrs.begin() + ai); }
    else if (k == 5 && !n->attrs.empty()) { auto a = n->attrs[o.raw() % n->attrs.size()]; a.second = mutate_value(o, a.first, a.second); n->attrs.push_back(a); what = strf("duplicate attribute %s of <%s>", a.first.c_str(), n->tag.c_str()); }
    else if (k == 6 && !n->kids.empty()) { size_t ki = o.raw() % n->kids.size(); what = strf("drop <%s> child %zu of <%s>", n->kids[ki].tag.c_str(), ki, n->tag.c_str()); n->kids.erase(n->kids.begin() + ki); }
    else if (k == 7 && !n->kids.empty()) { size_t ki = o.raw() % n->kids.size(); Node cp = n->kids[ki]; n->kids.insert(n->kids.begin() + (o.raw() % (n->kids.size() + 1)), cp); what = strf("duplicate <%s> child of <%s>", cp.tag.c_str(), n->tag.c_str()); }
    else if (k == 8 && n->kids.size() >= 2) { size_t a = o.raw() % n->kids.size(), b = o.raw() % n->kids.size(); std::swap(n->kids[a], n->kids[b]); what = strf("swap children %zu,%zu of <%s>", a, b, n->tag.c_str()); }
    else if (k == 9 && !n->kids.empty()) { size_t ki = o.raw() % n->kids.size(); Node moved = n->kids[ki]; n->kids.erase(n->kids.begin() + ki); std::vector<Node *> all2; collect(doc.root, all2); Node *dst = all2[o.raw() % all2.size()]; dst->kids.push_back(moved); what = strf("move <%s> under <%s>", moved.tag.c_str(), dst->tag.c_str()); }
    else if (k == 13 && !n->kids.empty()) { size_t ki = o.raw() % n->kids.size(); Node cp = n->kids[ki]; size_t at = ki + 1; while (at < n->kids.size() && n->kids[at].tag == cp.tag) at++; n->kids.insert(n->kids.begin() + at, cp); what = strf("surplus <%s> after the last one of <%s> (more items than announced)", cp.tag.c_str(), n->tag.c_str()); }
    else if (k == 14) { bool done = false; for (auto &a : n->attrs) if (!done && (a.first == "nbobjs" || a.first == "length" || a.first == "nr" || a.first.find("count") != std::string::npos)) { unsigned long v = strtoul(a.second.c_str(), NULL, 10); a.second = std::to_string(o.chance(1, 2) ? (v > 0 ? v - 1 : 0) : v / 2); what = strf("shrink %s of <%s> (fewer items announced than present)", a.first.c_str(), n->tag.c_str()); done = true; } }
    else if (k == 15) {   // parent/child kinds the importer must refuse: an object element moved below an object of another kind (I/O below memory, normal below I/O or Misc or PU, memory below I/O, ...)
      auto kind_of = [](const Node *x) -> int { for (auto &a : x->attrs) if (a.first == "type") { const std::string &ty = a.second; if (ty == "NUMANode" || ty == "MemCache") return 1; if (ty == "Bridge" || ty == "PCIDev" || ty == "OSDev") return 2; if (ty == "Misc") return 3; if (ty == "PU") return 4; return 0; } return -1; };
      std::vector<std::pair<Node *, size_t>> srcs; std::vector<Node *> dsts; for (Node *x : all) if (x->tag == "object") { dsts.push_back(x); for (size_t ki = 0; ki < x->kids.size(); ki++) if (x->kids[ki].tag == "object") srcs.push_back({x, ki}); }
      if (!srcs.empty() && !dsts.empty()) { auto sp = srcs[o.raw() % srcs.size()]; Node moved = sp.first->kids[sp.second]; int mk = kind_of(&moved); std::vector<Node *> other; for (Node *x : dsts) if (kind_of(x) != mk && kind_of(x) > 0) other.push_back(x);
        if (!other.empty()) { std::string dty; sp.first->kids.erase(sp.first->kids.begin() + sp.second); std::vector<Node *> all2; collect(doc.root, all2); /* pointers may have moved: pick the destination again by kind */ std::vector<Node *> other2; for (Node *x : all2) if (x->tag == "object" && kind_of(x) != mk && kind_of(x) > 0) other2.push_back(x);
          if (!other2.empty()) { Node *dst = other2[o.raw() % other2.size()]; for (auto &a : dst->attrs) if (a.first == "type") dty = a.second; std::string mty; for (auto &a : moved.attrs) if (a.first == "type") mty = a.second; dst->kids.push_back(moved); what = strf("reparent object %s below %s", mty.c_str(), dty.c_str()); } } } }
    else if (k == 16 && !n->attrs.empty()) {   // a document that ends inside an attribute value holding escape sequences (the in-place unescaping moves a read and a write cursor)
      auto &a = n->attrs[o.raw() % n->attrs.size()]; int ne = o.range(1, 12); std::string v = "ESCV"; static const char *esc[] = {"&amp;", "&quot;", "&lt;", "&gt;", "&apos;", "&#10;"}; for (int e = 0; e < ne; e++) { v += o.pick(esc); if (o.chance(1, 3)) v += "z"; } a.second = v; trunc_escaped = 1 + o.raw() % (v.size() + 2); what = strf("end the document inside an escaped value of <%s %s> (%d escapes)", n->tag.c_str(), a.first.c_str(), ne); }
    else if (k == 17) {   // one set attribute of an object replaced by a well-formed set taken from another object of the same type (or from one of its own other sets):
      // every value is a valid bitmap, only the relations between cpuset / complete_cpuset / nodeset / os_index and the neighbours break (PU and NUMA singleton rules, inclusion rules)
      auto type_of = [](const Node *x) -> std::string { for (auto &a : x->attrs) if (a.first == "type") return a.second; return ""; };
      auto is_set = [](const std::string &nm) { return nm == "cpuset" || nm == "complete_cpuset" || nm == "nodeset" || nm == "complete_nodeset"; };
      std::vector<Node *> cand; for (Node *x : all) if (x->tag == "object") for (auto &a : x->attrs) if (is_set(a.first)) { cand.push_back(x); break; }
      { std::vector<Node *> leaves; for (Node *x : cand) { std::string ty = type_of(x); if (ty == "PU" || ty == "NUMANode") leaves.push_back(x); } if (!leaves.empty() && o.chance(2, 3)) cand = leaves; }
      if (!cand.empty()) { Node *x = cand[o.raw() % cand.size()]; std::vector<size_t> sa; for (size_t ai = 0; ai < x->attrs.size(); ai++) if (is_set(x->attrs[ai].first)) sa.push_back(ai); size_t ai = sa[o.raw() % sa.size()];
        std::vector<std::string> vals; std::string ty = type_of(x); bool cpu = x->attrs[ai].first.find("cpuset") != std::string::npos;
        for (Node *y : all) if (y->tag == "object" && type_of(y) == ty) for (auto &a : y->attrs) if (is_set(a.first) && (a.first.find("cpuset") != std::string::npos) == cpu && a.second != x->attrs[ai].second) vals.push_back(a.second);
        if (!vals.empty()) { std::string nv = vals[o.raw() % vals.size()]; what = strf("set <object type=%s %s=\"%s\"> to \"%s\" (a set of another %s)", ty.c_str(), x->attrs[ai].first.c_str(), x->attrs[ai].second.substr(0, 30).c_str(), nv.substr(0, 30).c_str(), ty.c_str()); x->attrs[ai].second = nv; c.cls("mut:set-of-a-sibling"); } } }
    else if (k == 10) { for (auto &a : doc.root.attrs) if (a.first == "version") a.second = mutate_value(o, "version", a.second); what = "change topology version"; }
    else if (k == 11) { trunc = 1 + o.raw(); what = "truncate"; }
    else if (k == 12) { byteflip = true; what = "flip a byte"; }
    else if (n->tag == "userdata" || !n->text.empty()) { n->text = o.chance(1, 2) ? "" : std::string(o.range(0, 40), (char)o.range(33, 126)); what = "replace text content"; }
    if (!what.empty()) { nmut++; c.desc("\n | " + what); c.cls(("mut:" + what.substr(0, what.find(' '))).c_str()); }
  }
  std::string x = doc.prolog; ser(doc.root, x, 0);
  if (trunc_escaped) { size_t mp = x.find("ESCV"); if (mp != std::string::npos) { x = x.substr(0, std::min(x.size(), mp + trunc_escaped)); int tail = d.range(0, 2); if (tail == 1) x += ">"; else if (tail == 2) x += "/>"; } }   // the tag may still be closed: the value then runs into the end of the tag, which is the end of the buffer
  if (trunc) x = x.substr(0, trunc % (x.size() + 1)); if (byteflip && !x.empty()) x[d.raw() % x.size()] = (char)d.range(1, 255);
  // configuration
  unsigned long flags = 0; if (d.chance(1, 3)) flags |= HWLOC_TOPOLOGY_FLAG_INCLUDE_DISALLOWED; if (d.chance(1, 3)) flags |= HWLOC_TOPOLOGY_FLAG_IMPORT_SUPPORT; int fsel = d.range(0, 3); bool viafile = d.chance(1, 4);
  c.descf("\n load flags=0x%lx filters=%d via=%s mutations=%d bytes=%zu", flags, fsel, viafile ? "file" : "buffer", nmut, x.size());
  hwloc_topology_t t; hwloc_topology_init(&t); hwloc_topology_set_flags(t, flags);
  if (fsel == 1) hwloc_topology_set_all_types_filter(t, HWLOC_TYPE_FILTER_KEEP_ALL); else if (fsel == 2) hwloc_topology_set_all_types_filter(t, HWLOC_TYPE_FILTER_KEEP_STRUCTURE); else if (fsel == 3) { hwloc_topology_set_io_types_filter(t, HWLOC_TYPE_FILTER_KEEP_IMPORTANT); hwloc_topology_set_type_filter(t, HWLOC_OBJ_MISC, HWLOC_TYPE_FILTER_KEEP_ALL); }
  int r; std::string path = std::string(h_workdir()) + strf("/c06.%d.xml", (int)getpid());
  char *blk = (char *)malloc(x.size() + 1); memcpy(blk, x.data(), x.size()); blk[x.size()] = 0;
  if (getenv("VERIF_C06_DUMP")) { FILE *f = fopen(getenv("VERIF_C06_DUMP"), "wb"); if (f) { fwrite(x.data(), 1, x.size(), f); fclose(f); } }
  c.attempt("set + load of the mutated document");
  if (viafile) { FILE *f = fopen(path.c_str(), "wb"); fwrite(x.data(), 1, x.size(), f); fclose(f); r = hwloc_topology_set_xml(t, path.c_str()); } else r = hwloc_topology_set_xmlbuffer(t, blk, (int)x.size() + 1);
  CHECK(c, r == 0 || r == -1, "set_ret", "set returned %d", r);
  if (r == 0) {
    int l = hwloc_topology_load(t); CHECK(c, l == 0 || l == -1, "load_ret", "load returned %d", l);
    if (l == 0) {
      WFError e; wf_check(t, e);
      if (!e.ok()) { CHECK(c, nmut > 0, "wf_export", "an unmutated hwloc export loads into an ill-formed topology: %s", e.msgs[0].c_str()); const char *pr = importer_validated_rule(e); CHECK(c, !pr, "importer_object_check", "the document loads although it breaks a per-object rule the importer checks before insertion: %s", pr ? pr : ""); c.cls("loaded-inconsistent(F-C06-h)"); }
      else { c.cls("loaded-consistent"); c.attempt("read-only battery on the loaded topology"); run_battery(t, fail_cb); }
      if (nmut) c.nontrivial();
    } else { c.cls("rejected-late"); if (nmut) c.nontrivial();
      c.attempt("configure + load again after the failed load"); reload_after_failure(t, (unsigned)x.size(), fail_cb); require_wf(c, t, "topology loaded after a failed XML load"); }
  } else c.cls("rejected-early");
  if (nmut == 0) c.cls("unmutated");
  hwloc_topology_destroy(t); free(blk); if (viafile) unlink(path.c_str());
}

static void load_doc(Case &c, const std::string &x, unsigned long flags = 0) {
  hwloc_topology_t t; hwloc_topology_init(&t); hwloc_topology_set_flags(t, flags); hwloc_topology_set_all_types_filter(t, HWLOC_TYPE_FILTER_KEEP_ALL); int r = hwloc_topology_set_xmlbuffer(t, x.c_str(), (int)x.size() + 1);
  if (r == 0 && hwloc_topology_load(t) == 0) { WFError e; wf_check(t, e); if (e.ok()) run_battery(t, fail_cb); else c.desc(" (loaded inconsistent: " + e.msgs[0] + ")"); } else c.desc(" (rejected)");
  hwloc_topology_destroy(t);
}
bool h_named(const std::string &name, Case &c) {
  g_c = &c;
  const std::string head = "<?xml version=\"1.0\" encoding=\"UTF-8\"?>\n<!DOCTYPE topology SYSTEM \"hwloc2.dtd\">\n<topology version=\"3.0\">\n <object type=\"Machine\" os_index=\"0\" cpuset=\"0x3\" complete_cpuset=\"0x3\" allowed_cpuset=\"0x3\" nodeset=\"0x1\" complete_nodeset=\"0x1\" allowed_nodeset=\"0x1\" gp_index=\"1\">\n  <object type=\"NUMANode\" os_index=\"0\" cpuset=\"0x3\" complete_cpuset=\"0x3\" nodeset=\"0x1\" complete_nodeset=\"0x1\" gp_index=\"2\" local_memory=\"1024\"/>\n";
  const std::string pus = "  <object type=\"PU\" os_index=\"0\" cpuset=\"0x1\" complete_cpuset=\"0x1\" nodeset=\"0x1\" complete_nodeset=\"0x1\" gp_index=\"3\"/>\n  <object type=\"PU\" os_index=\"1\" cpuset=\"0x2\" complete_cpuset=\"0x2\" nodeset=\"0x1\" complete_nodeset=\"0x1\" gp_index=\"4\"/>\n";
  if (name == "F-C06-b") { c.desc("document truncated inside an object's info subnode: the half-imported object must be freed"); load_doc(c, head + "  <object type=\"PU\" os_index=\"0\" cpuset=\"0x1\" complete_cpuset=\"0x1\" nodeset=\"0x1\" complete_nodeset=\"0x1\" gp_index=\"3\">\n   <info name=\"a\" value=\"b\"/>\n   <info name=\"a\" ");
    load_doc(c, head + "  <object type=\"PU\" os_index=\"0\" cpuset=\"0x1\" complete_cpuset=\"0x1\" nodeset=\"0x1\" complete_nodeset=\"0x1\" gp_index=\"3\">\n   <info name=\"a\" value=\"b\"/>\n   <bogus x=\"1\"/>\n  </object>\n </object>\n</topology>\n"); return true; }
  if (name == "F-C06-c") { c.desc("memattr Capacity with a memattr_value"); load_doc(c, head + pus + " </object>\n <memattr name=\"Capacity\" flags=\"1\">\n  <memattr_value target_obj_gp_index=\"2\" target_obj_type=\"NUMANode\" value=\"5\"/>\n </memattr>\n</topology>\n"); return true; }
  if (name == "F-C06-e") { c.desc("objects with cpuset/nodeset but without complete_cpuset/complete_nodeset"); std::string x = head + pus + " </object>\n</topology>\n"; size_t p; while ((p = x.find(" complete_cpuset=\"")) != std::string::npos) x.erase(p, x.find('"', p + 18) + 1 - p); while ((p = x.find(" complete_nodeset=\"")) != std::string::npos) x.erase(p, x.find('"', p + 19) + 1 - p); load_doc(c, x); return true; }
  if (name == "F-C06-d") { c.desc("distances2 with nbobjs=65537 (square overflows 32 bits), 65537 indexes and 131073 values");
    std::string x = head + pus + " </object>\n <distances2 type=\"PU\" nbobjs=\"65537\" kind=\"5\" indexing=\"os\">\n  <indexes length=\"" + std::to_string(2 * 65537) + "\">"; for (int i = 0; i < 65537; i++) x += (i == 7 ? "0 " : i == 9 ? "1 " : "9 "); x += "</indexes>\n  <u64values length=\"" + std::to_string(2 * 131073) + "\">"; for (int i = 0; i < 131073; i++) x += "1 "; x += "</u64values>\n </distances2>\n</topology>\n"; load_doc(c, x); return true; }
  if (name == "F-C06-h") {   // open class finding: the importer does not validate cross-object consistency
    c.desc("hand-edited document: PU#1 claims cpuset 0x4 although its Machine parent has 0x3; load succeeds and the topology is ill-formed");
    std::string x = head + pus + " </object>\n</topology>\n"; size_t p = x.find("cpuset=\"0x2\""); x.replace(p, 12, "cpuset=\"0x4\""); p = x.find("complete_cpuset=\"0x2\""); x.replace(p, 21, "complete_cpuset=\"0x4\""); p = x.find("os_index=\"1\""); x.replace(p, 12, "os_index=\"2\"");
    hwloc_topology_t t; hwloc_topology_init(&t); int r = hwloc_topology_set_xmlbuffer(t, x.c_str(), (int)x.size() + 1);
    if (r == 0 && hwloc_topology_load(t) == 0) { WFError e; wf_check(t, e); CHECK(c, e.ok(), "wf_after_xml_load", "load succeeded on an inconsistent document and the topology is ill-formed: %s", e.msgs[0].c_str()); } else c.desc(" (rejected)");
    hwloc_topology_destroy(t); return true; }
  if (name == "F-C11-a") { c.desc("OS device with osdev_type=\"128\" (unknown bit): type printing must terminate"); load_doc(c, head + pus + "  <object type=\"OSDev\" gp_index=\"9\" name=\"x\" osdev_type=\"128\"/>\n </object>\n</topology>\n"); return true; }
  if (name == "F-C06-m") { c.desc("root object of type PU (then Core) with an unparsable complete_nodeset: the core asserted while attaching the default NUMA node");
    for (const char *ty : {"PU", "Core", "L2Cache", "NUMANode"}) load_doc(c, std::string("<?xml version=\"1.0\" encoding=\"UTF-8\"?>\n<!DOCTYPE topology SYSTEM \"hwloc2.dtd\">\n<topology version=\"3.0\">\n <object type=\"") + ty + "\" os_index=\"0\" cpuset=\"0x1\" complete_cpuset=\"0x1\" nodeset=\"0x1\" complete_nodeset=\"zz\" gp_index=\"2\" cache_type=\"0\" depth=\"2\"/>\n</topology>\n");
    return true; }
  if (name == "F-C06-n") { c.desc("unique 64-bit gp_index values that collide once truncated to 32 bits: hwloc_topology_check() must not abort");
    std::string x = head + pus + " </object>\n</topology>\n"; size_t p = x.find("gp_index=\"4\""); x.replace(p, 12, "gp_index=\"4294967297\""); load_doc(c, x);
    hwloc_topology_t t; hwloc_topology_init(&t); hwloc_topology_set_xmlbuffer(t, x.c_str(), (int)x.size() + 1); CHECK(c, hwloc_topology_load(t) == 0, "named_setup", "document rejected"); WFError e; wf_check(t, e); CHECK(c, e.ok(), "named_setup", "ill-formed: %s", e.ok() ? "" : e.msgs[0].c_str()); hwloc_topology_check(t); hwloc_topology_destroy(t);
    return true; }
  if (name == "F-C06-o") { c.desc("a document with CPU kinds that is rejected late, then a valid document with CPU kinds loaded into the same topology");
    std::string bad = rich_xml(); size_t p = bad.rfind("</topology>"); CHECK(c, p != std::string::npos, "named_setup", "no closing tag"); bad.replace(p, std::string::npos, "<memattr name=\"x\" flags=\"77\" bogus=\"1\"/></topology>\n");
    hwloc_topology_t t; hwloc_topology_init(&t); CHECK(c, hwloc_topology_set_xmlbuffer(t, bad.c_str(), (int)bad.size() + 1) == 0, "named_setup", "set failed"); CHECK(c, hwloc_topology_load(t) == -1, "named_setup", "the invalid document loaded");
    for (unsigned v = 1; v <= 2; v++) { reload_after_failure(t, v, fail_cb); require_wf(c, t, "reloaded"); hwloc_topology_destroy(t); hwloc_topology_init(&t); hwloc_topology_set_xmlbuffer(t, bad.c_str(), (int)bad.size() + 1); hwloc_topology_load(t); }
    hwloc_topology_destroy(t); return true; }
  if (name == "F-C11-c") { c.desc("object type \"die\\xe0\""); load_doc(c, head + "  <object type=\"die\xe0\" os_index=\"0\" cpuset=\"0x3\" complete_cpuset=\"0x3\" nodeset=\"0x1\" complete_nodeset=\"0x1\" gp_index=\"7\">\n" + pus + "  </object>\n </object>\n</topology>\n"); return true; }
  return false;
}
