// C18 — discovery from Linux/x86 snapshots is robust, deterministic and self-consistent (DESIGN.md section 4, C18).
// Domain: bundled snapshot (tests/hwloc/{linux,x86,x86+linux}/*.tar.bz2, extracted into the worker's scratch directory)
//         x HWLOC_COMPONENTS selection x flags x type filters x environment toggles x a generated SET OF REMOVED PATHS
//         (regular files, symlinks, directories whose name does not end in a digit - the statement's rule).
// Fault injection: the child renames the chosen paths into a stash directory (journal first); the PARENT restores them after
//         every case whatever the outcome (h_after_case_parent), so a crash, an abort or a hang never leaves a damaged snapshot.
// Oracle: load returns 0/-1 without sanitizer report / assertion / leak / write access to the snapshot; an intact snapshot loads;
//         success => wf_check + hwloc_topology_check(); a second load with the same configuration gives the identical dump (gp_index
//         included) or the identical failure; XML export -> reload equals (C05 oracle); the INCLUDE_DISALLOWED view contains every PU
//         and NUMA node of the default view and its allowed sets equal the default view's root sets.
// The interposed openat/fstatat/readlinkat/faccessat only OBSERVE (which snapshot paths the loader touches -> non-triviality rule,
//         and that nothing is opened for writing); they never change a result.
#include "topogen.hpp"
#include <ftw.h>
#include <fcntl.h>
#include <unistd.h>
#include <sys/stat.h>
#include <sys/syscall.h>
#include <algorithm>
#include <climits>
#include <fstream>
#include <set>
#include <map>

void h_configure(HConfig &cfg) {
  cfg.property = "C18"; cfg.name = "c18_snapshots";
  cfg.rule = "case = bundled snapshot + component selection + flags + filters + env toggles + set of 0..40 removed paths (files, symlinks, non-instance directories); "
             "non-trivial = at least one removed path (or a path below it) is opened/stat'ed/read by the fault-free load of that snapshot (observed by interposing openat/fstatat/readlinkat/faccessat; every file of a CPUID dump counts); distinct by hash of the decoded case";
  cfg.head_len = 96; cfg.op_len = 4; cfg.max_ops = 40; cfg.leak_check = true; cfg.cpu_limit_s = 150; cfg.hang_is_violation = true; cfg.warm_xml = true;
}

// ---------------------------------------------------------------------------------------------------------------------------------
// observation-only interposition
static bool g_observe = false; static std::set<std::string> *g_touched = nullptr; static int g_guard = 0; static char g_write_attempt[600];
static inline void note_path(int dirfd, const char *path) { if (g_observe && g_touched && dirfd != AT_FDCWD && path && path[0] != '/') g_touched->insert(path); }
extern "C" int openat(int dirfd, const char *path, int flags, ...) {
  mode_t mode = 0; if ((flags & O_CREAT) || (flags & O_TMPFILE) == O_TMPFILE) { va_list ap; va_start(ap, flags); mode = (mode_t)va_arg(ap, int); va_end(ap); }
  note_path(dirfd, path);
  if (g_guard && dirfd != AT_FDCWD && ((flags & O_ACCMODE) != O_RDONLY || (flags & (O_CREAT | O_TRUNC))) && !g_write_attempt[0]) snprintf(g_write_attempt, sizeof g_write_attempt, "openat(%s, flags 0x%x)", path ? path : "(null)", flags);
  return (int)syscall(SYS_openat, dirfd, path, flags, mode);
}
extern "C" int openat64(int dirfd, const char *path, int flags, ...) {
  mode_t mode = 0; if ((flags & O_CREAT) || (flags & O_TMPFILE) == O_TMPFILE) { va_list ap; va_start(ap, flags); mode = (mode_t)va_arg(ap, int); va_end(ap); }
  return openat(dirfd, path, flags, mode);
}
extern "C" int fstatat(int dirfd, const char *path, struct stat *st, int flags) noexcept { note_path(dirfd, path); return (int)syscall(SYS_newfstatat, dirfd, path, st, flags); }
extern "C" int fstatat64(int dirfd, const char *path, struct stat64 *st, int flags) noexcept { note_path(dirfd, path); return (int)syscall(SYS_newfstatat, dirfd, path, st, flags); }
extern "C" ssize_t readlinkat(int dirfd, const char *path, char *buf, size_t len) noexcept { note_path(dirfd, path); return (ssize_t)syscall(SYS_readlinkat, dirfd, path, buf, len); }
extern "C" int faccessat(int dirfd, const char *path, int mode, int flags) noexcept { note_path(dirfd, path); return (int)syscall(SYS_faccessat, dirfd, path, mode); (void)flags; }

// ---------------------------------------------------------------------------------------------------------------------------------
struct Snapshot {
  std::string id, kind, name, base, fsroot, cpuid;
  std::vector<std::string> paths;          // removable paths relative to base, sorted
  std::vector<unsigned> bycls[4];          // indexes by static prefix class (generation bias, independent of the code under test)
  std::vector<char> hot;                   // touched by the fault-free load (non-triviality rule)
  size_t nentries = 0;
};
static std::vector<Snapshot> g_snaps;
static std::string g_stash, g_journal;

static std::vector<std::string> *g_walk; static size_t g_walk_base; static size_t g_walk_entries;
static int walk_cb(const char *fp, const struct stat *, int type, struct FTW *ftw) {
  if (ftw->level == 0) return 0; g_walk_entries++;
  const char *rel = fp + g_walk_base + 1; size_t L = strlen(rel);
  bool removable = type == FTW_F || type == FTW_SL || type == FTW_SLN || ((type == FTW_D || type == FTW_DP) && !(rel[L - 1] >= '0' && rel[L - 1] <= '9'));
  if (removable) g_walk->push_back(rel);
  return 0;
}
static bool under(const std::string &q, const char *dir) { size_t L = strlen(dir); return q.compare(0, L, dir) == 0 && (q.size() == L || q[L] == '/'); }
static int path_class(const Snapshot &s, const std::string &p) {
  std::string q = p; if (s.kind == "x86+linux") { if (under(q, "fsroot") && q.size() > 7) q = q.substr(7); else return 0; }
  if (s.kind == "x86") return 0;
  if (under(q, "sys/devices/system/cpu") || under(q, "sys/devices/system/node")) return 0;
  if (under(q, "proc") || under(q, "sys/fs/cgroup") || under(q, "dev") || under(q, "sys/kernel/mm") || under(q, "var") || under(q, "cgroup")) return 1;
  if (under(q, "sys/bus") || under(q, "sys/class") || under(q, "sys/firmware") || under(q, "sys/devices/virtual")) return 2;
  return 3;   // the rest, including the top-level directories sys, sys/devices, sys/devices/system
}

static void restore_from_journal() {
  std::ifstream j(g_journal); if (!j) return;
  std::vector<std::pair<std::string, std::string>> v; std::string l;
  while (std::getline(j, l)) { size_t tb = l.find('\t'); if (tb != std::string::npos) v.push_back({l.substr(0, tb), l.substr(tb + 1)}); }
  for (size_t i = v.size(); i-- > 0;) { struct stat st; if (lstat(v[i].first.c_str(), &st) == 0) { if (rename(v[i].first.c_str(), v[i].second.c_str()) != 0) { fprintf(stderr, "c18: cannot restore %s -> %s: %s\n", v[i].first.c_str(), v[i].second.c_str(), strerror(errno)); abort(); } } }
  j.close(); unlink(g_journal.c_str());
}
void h_after_case_parent() { restore_from_journal(); }

static void observe_load(const Snapshot &s, unsigned long flags, bool io) {
  hwloc_topology_t t; hwloc_topology_init(&t); hwloc_topology_set_flags(t, flags);
  if (io) { hwloc_topology_set_io_types_filter(t, HWLOC_TYPE_FILTER_KEEP_ALL); hwloc_topology_set_icache_types_filter(t, HWLOC_TYPE_FILTER_KEEP_ALL); hwloc_topology_set_type_filter(t, HWLOC_OBJ_MISC, HWLOC_TYPE_FILTER_KEEP_ALL); }
  if (!s.fsroot.empty()) setenv("HWLOC_FSROOT", s.fsroot.c_str(), 1); else unsetenv("HWLOC_FSROOT");
  if (!s.cpuid.empty()) setenv("HWLOC_CPUID_PATH", s.cpuid.c_str(), 1); else unsetenv("HWLOC_CPUID_PATH");
  setenv("HWLOC_COMPONENTS", s.kind == "x86" ? "x86,stop" : s.kind == "linux" ? "linux,stop" : "linux,x86,stop", 1);
  g_observe = true; hwloc_topology_load(t); g_observe = false; hwloc_topology_destroy(t);
}

void h_init_parent() {
  setenv("HWLOC_HIDE_ERRORS", "2", 1);
  std::string wd = h_workdir(); if (wd.empty() || wd[0] != '/') { char cwd[4096]; if (getcwd(cwd, sizeof cwd)) wd = std::string(cwd) + "/" + wd; }
  g_stash = wd + "/stash"; g_journal = wd + "/journal.txt"; mkdir(g_stash.c_str(), 0755);
  restore_from_journal();
  const char *owned = getenv("VERIF_C18_OWNED"); if (!owned || !*owned) { fprintf(stderr, "c18: VERIF_C18_OWNED is not set\n"); exit(2); }
  std::string root = wd + "/snaps"; mkdir(root.c_str(), 0755);
  std::string o = owned; size_t p = 0;
  while (p <= o.size()) {
    size_t e = o.find(',', p); if (e == std::string::npos) e = o.size(); std::string id = o.substr(p, e - p); p = e + 1; if (id.empty()) continue;
    Snapshot s; s.id = id; size_t sl = id.find('/'); s.kind = id.substr(0, sl); s.name = id.substr(sl + 1);
    std::string dst = root + "/" + s.kind; mkdir(dst.c_str(), 0755); std::string holder = dst + "/" + s.name;
    struct stat st;
    if (stat((holder + ".ok").c_str(), &st) != 0) {
      std::string cmd = "rm -rf '" + holder + "' && mkdir '" + holder + "' && tar -xjf '" + verif_repo() + "/tests/hwloc/" + id + ".tar.bz2' -C '" + holder + "' && chmod -R u+rwX '" + holder + "' && touch '" + holder + ".ok'";
      if (system(cmd.c_str()) != 0) { fprintf(stderr, "c18: cannot extract %s\n", id.c_str()); exit(2); }
    }
    // the directory inside the archive is not always named like the archive
    { DIR *dh = opendir(holder.c_str()); struct dirent *de; while (dh && (de = readdir(dh)) != NULL) if (de->d_name[0] != '.') s.base = holder + "/" + de->d_name; if (dh) closedir(dh); }
    if (s.base.empty()) { fprintf(stderr, "c18: empty archive %s\n", id.c_str()); exit(2); }
    if (s.kind == "linux") s.fsroot = s.base; else if (s.kind == "x86") s.cpuid = s.base; else { s.fsroot = s.base + "/fsroot"; s.cpuid = s.base + "/cpuid"; }
    g_walk = &s.paths; g_walk_base = s.base.size(); g_walk_entries = 0; nftw(s.base.c_str(), walk_cb, 32, FTW_PHYS); s.nentries = g_walk_entries;
    std::sort(s.paths.begin(), s.paths.end());
    for (unsigned i = 0; i < s.paths.size(); i++) s.bycls[path_class(s, s.paths[i])].push_back(i);
    // which paths does the fault-free loader touch?
    std::set<std::string> touched; g_touched = &touched;
    if (!s.fsroot.empty()) { observe_load(s, 0, false); observe_load(s, HWLOC_TOPOLOGY_FLAG_INCLUDE_DISALLOWED, true); }
    g_touched = nullptr;
    std::set<std::string> canon; std::string pre = s.kind == "x86+linux" ? "fsroot/" : "";
    for (auto &t : touched) {
      std::string q = t; while (!q.empty() && q.back() == '/') q.pop_back(); if (q.empty()) continue; canon.insert(pre + q);
      char rp[PATH_MAX]; if (realpath((s.fsroot + "/" + q).c_str(), rp) && !strncmp(rp, s.base.c_str(), s.base.size()) && rp[s.base.size()] == '/') canon.insert(rp + s.base.size() + 1);
      // intermediate symlinks: every prefix of the literal path counts as touched (lookup below is by prefix, so nothing to add)
    }
    s.hot.assign(s.paths.size(), 0);
    for (unsigned i = 0; i < s.paths.size(); i++) {
      const std::string &P = s.paths[i];
      if (s.kind == "x86" || P.compare(0, 5, "cpuid") == 0) { s.hot[i] = 1; continue; }
      if (canon.count(P)) { s.hot[i] = 1; continue; }
      auto it = canon.lower_bound(P + "/"); if (it != canon.end() && it->compare(0, P.size() + 1, P + "/") == 0) s.hot[i] = 1;
    }
    g_snaps.push_back(s);
  }
  unsetenv("HWLOC_FSROOT"); unsetenv("HWLOC_CPUID_PATH"); unsetenv("HWLOC_COMPONENTS");
  if (g_snaps.empty()) { fprintf(stderr, "c18: no snapshot\n"); exit(2); }
}

// ---------------------------------------------------------------------------------------------------------------------------------
static void apply_removals(Case &c, const Snapshot &s, std::vector<unsigned> idx) {
  std::sort(idx.begin(), idx.end()); idx.erase(std::unique(idx.begin(), idx.end()), idx.end());
  // deepest first, so that a path below a removed directory is stashed separately before its parent moves
  std::sort(idx.begin(), idx.end(), [&](unsigned a, unsigned b) { size_t da = std::count(s.paths[a].begin(), s.paths[a].end(), '/'), db = std::count(s.paths[b].begin(), s.paths[b].end(), '/'); return da != db ? da > db : a < b; });
  { std::ofstream j(g_journal); for (size_t k = 0; k < idx.size(); k++) j << g_stash << "/" << k << "\t" << s.base << "/" << s.paths[idx[k]] << "\n"; j.flush(); }
  for (size_t k = 0; k < idx.size(); k++) {
    std::string from = s.base + "/" + s.paths[idx[k]], to = g_stash + "/" + std::to_string(k);
    if (rename(from.c_str(), to.c_str()) != 0) c.fail("harness", "cannot stash %s: %s", from.c_str(), strerror(errno));
  }
}

static hwloc_topology_t load_cfg(Case &c, const TopoSpec &sp, int &ret, const char *what) {
  hwloc_topology_t t; hwloc_topology_init(&t); c.attempt(strf("%s: %s", what, sp.text().c_str()));
  g_write_attempt[0] = 0; g_guard = 1; errno = 0; ret = apply_spec_and_load(c, t, sp); g_guard = 0;
  CHECK(c, ret == 0 || ret == -1, "load_ret", "%s: hwloc_topology_load returned %d", what, ret);
  CHECK(c, !g_write_attempt[0], "readonly", "%s: the loader opened a snapshot path for writing: %s", what, g_write_attempt);
  return t;
}
static std::set<unsigned> os_indexes(hwloc_topology_t t, hwloc_obj_type_t ty) { std::set<unsigned> r; hwloc_obj_t o = NULL; while ((o = hwloc_get_next_obj_by_type(t, ty, o)) != NULL) r.insert(o->os_index); return r; }

// Open finding F-C18-a: a memory object whose CPU-side parent was merged away keeps that parent's complete_cpuset instead of
// taking the new parent's; the XML importer recomputes it, so the reloaded topology differs in exactly that field.
// Excluded by construction (counted): when the loaded topology shows the stale field, the complete_cpuset of memory objects
// is left out of the reload comparison.  The named case F-C18-a keeps the strict comparison.
static bool g_strict_ccs = false;
static void run_snapshot_case(Case &c, const Snapshot &s, TopoSpec sp, const std::vector<unsigned> &removed) {
  sp.fsroot = s.fsroot; sp.cpuid = s.cpuid; sp.snapname = s.id;
  if (sp.components == "linux,stop") sp.cpuid.clear(); if (sp.components == "x86,stop") sp.fsroot.clear();
  size_t nhot = 0; for (unsigned i : removed) if (s.hot[i]) nhot++;
  c.desc(sp.text()); c.descf("\n removed %zu path(s), %zu of them read by the fault-free load:", removed.size(), nhot);
  for (unsigned i : removed) c.desc("\n  - " + s.paths[i] + (s.hot[i] ? "" : "   (never read)"));
  c.cls(("kind:" + s.kind).c_str()); c.cls(("components:" + sp.components).c_str());
  c.cls(removed.empty() ? "removed:0" : removed.size() == 1 ? "removed:1" : removed.size() == 2 ? "removed:2" : removed.size() <= 8 ? "removed:3-8" : "removed:9-40");
  if (nhot) c.nontrivial();
  if (!removed.empty()) apply_removals(c, s, removed);
  const unsigned what = DUMP_GP | DUMP_EXTRAS;
  int r1, r2;
  hwloc_topology_t t1 = load_cfg(c, sp, r1, "first load");
  if (r1 < 0) {
    // (sanity of the harness rather than part of the statement: the bundled tests load every intact snapshot; DONT_CHANGE_BINDING disables the x86 backend by design)
    CHECK(c, !removed.empty() || (sp.flags & HWLOC_TOPOLOGY_FLAG_DONT_CHANGE_BINDING), "intact_loads", "the intact bundled snapshot %s failed to load with %s", s.id.c_str(), sp.text().c_str());
    hwloc_topology_t t2 = load_cfg(c, sp, r2, "second load"); CHECK(c, r2 == -1, "deterministic", "first load failed, second load of the same snapshot and configuration returned %d", r2);
    // a failed load leaves a topology that can be configured and loaded again (C01)
    c.attempt("synthetic load after a failed snapshot load"); unsetenv("HWLOC_COMPONENTS"); unsetenv("HWLOC_FSROOT"); unsetenv("HWLOC_CPUID_PATH");
    CHECK(c, hwloc_topology_set_synthetic(t2, "pack:2 core:2 pu:2") == 0 && hwloc_topology_load(t2) == 0, "reload_after_failure", "synthetic load after a failed snapshot load failed"); require_wf(c, t2, "synthetic load after a failed snapshot load");
    hwloc_topology_destroy(t1); hwloc_topology_destroy(t2); c.cls("load:failed-cleanly"); c.cls(("failed:" + s.kind + (removed.empty() ? ":intact" : removed.size() == 1 ? ":1-removed" : ":n-removed")).c_str());
    if (getenv("VERIF_C18_DEBUG")) { FILE *f = fopen(getenv("VERIF_C18_DEBUG"), "a"); if (f) { fprintf(f, "FAILED %s |", sp.text().c_str()); for (unsigned i : removed) fprintf(f, " %s", s.paths[i].c_str()); fprintf(f, "\n"); fclose(f); } }
    return;
  }
  c.cls("load:ok");
  require_wf(c, t1, "first load"); std::string d1 = dump_topology(t1, what);
  hwloc_topology_t t2 = load_cfg(c, sp, r2, "second load"); CHECK(c, r2 == 0, "deterministic", "first load succeeded, second load of the same snapshot and configuration returned %d", r2);
  { std::string df = first_diff(d1, dump_topology(t2, what)); CHECK(c, df.empty(), "deterministic", "two loads of the same snapshot with the same configuration differ: %s", df.c_str()); }
  hwloc_topology_destroy(t2);
  // XML export -> reload (C05 oracle)
  { c.attempt("XML export of the loaded snapshot and reload"); std::string X = export_xml(t1, 0); CHECK(c, !X.empty(), "xml_export", "XML export failed");
    hwloc_topology_t r; hwloc_topology_init(&r); hwloc_topology_set_flags(r, sp.flags); hwloc_topology_set_all_types_filter(r, HWLOC_TYPE_FILTER_KEEP_ALL);
    CHECK(c, hwloc_topology_set_xmlbuffer(r, X.c_str(), (int)X.size() + 1) == 0 && hwloc_topology_load(r) == 0, "xml_reload", "hwloc cannot reload its own XML export of the snapshot");
    require_wf(c, r, "topology reloaded from the XML export");
    std::string da = d1, db = dump_topology(r, what);
    if (!g_strict_ccs && memchild_ccs_stale(t1)) { c.excluded("F-C18-a"); c.cls("excluded:F-C18-a(stale complete_cpuset of a memory object)"); da = mask_mem_ccs(da); db = mask_mem_ccs(db); }
    std::string df = first_diff(da, db);
    if (!df.empty() && getenv("VERIF_DUMP_DIR")) { std::string dd = getenv("VERIF_DUMP_DIR"); FILE *f = fopen((dd + "/orig.txt").c_str(), "w"); fputs(d1.c_str(), f); fclose(f); f = fopen((dd + "/reload.txt").c_str(), "w"); fputs(dump_topology(r, what).c_str(), f); fclose(f); f = fopen((dd + "/x.xml").c_str(), "w"); fputs(X.c_str(), f); fclose(f); }
    CHECK(c, df.empty(), "reload_equal", "the topology reloaded from its own XML export differs: %s", df.c_str());
    hwloc_topology_destroy(r); }
  // disallowed view vs default view
  { TopoSpec so = sp; so.flags ^= HWLOC_TOPOLOGY_FLAG_INCLUDE_DISALLOWED; int r3; hwloc_topology_t t3 = load_cfg(c, so, r3, "load with INCLUDE_DISALLOWED toggled");
    if (r3 == 0) {
      require_wf(c, t3, "load with INCLUDE_DISALLOWED toggled");
      hwloc_topology_t def = (sp.flags & HWLOC_TOPOLOGY_FLAG_INCLUDE_DISALLOWED) ? t3 : t1, dis = (sp.flags & HWLOC_TOPOLOGY_FLAG_INCLUDE_DISALLOWED) ? t1 : t3;
      for (hwloc_obj_type_t ty : {HWLOC_OBJ_PU, HWLOC_OBJ_NUMANODE}) { auto a = os_indexes(def, ty), b = os_indexes(dis, ty); for (unsigned x : a) CHECK(c, b.count(x), "disallowed_view", "%s P#%u of the default load is missing from the INCLUDE_DISALLOWED load", hwloc_obj_type_string(ty), x); if (b.size() > a.size()) c.cls("has-disallowed-objects"); }
      CHECK(c, hwloc_bitmap_isequal(hwloc_topology_get_allowed_cpuset(dis), hwloc_topology_get_topology_cpuset(def)), "disallowed_view", "allowed cpuset of the INCLUDE_DISALLOWED load %s != root cpuset of the default load %s", bstr(hwloc_topology_get_allowed_cpuset(dis)).c_str(), bstr(hwloc_topology_get_topology_cpuset(def)).c_str());
      CHECK(c, hwloc_bitmap_isequal(hwloc_topology_get_allowed_nodeset(dis), hwloc_topology_get_topology_nodeset(def)), "disallowed_view", "allowed nodeset of the INCLUDE_DISALLOWED load %s != root nodeset of the default load %s", bstr(hwloc_topology_get_allowed_nodeset(dis)).c_str(), bstr(hwloc_topology_get_topology_nodeset(def)).c_str());
    } else c.cls("disallowed-toggle-load-failed");
    hwloc_topology_destroy(t3); }
  { unsigned nr = 0; hwloc_distances_get(t1, &nr, NULL, 0, 0); if (nr) c.cls("has:distances"); if (hwloc_cpukinds_get_nr(t1, 0) > 0) c.cls("has:cpukinds"); if (hwloc_get_nbobjs_by_type(t1, HWLOC_OBJ_PCI_DEVICE) > 0) c.cls("has:pci"); if (hwloc_get_nbobjs_by_type(t1, HWLOC_OBJ_NUMANODE) > 1) c.cls("has:numa>1"); }
  hwloc_topology_destroy(t1);
}

static void gen_components_env(Draw &d, const Snapshot &s, TopoSpec &sp) {
  if (s.kind == "linux") sp.components = "linux,stop";
  else if (s.kind == "x86") sp.components = "x86,stop";
  else { static const char *sel[] = {"x86,linux,stop", "linux,x86,stop", "linux,stop", "x86,stop"}; sp.components = d.pick(sel); }
  // environment toggles the bundled tests use
  if (d.chance(1, 5)) sp.envs.push_back({"HWLOC_X86_TOPOEXT_NUMANODES", "1"});
  if (d.chance(1, 8)) sp.envs.push_back({"HWLOC_KNL_MSCACHE_L3", d.chance(1, 2) ? "1" : "0"});
  if (d.chance(1, 8)) sp.envs.push_back({"HWLOC_KEEP_NVIDIA_GPU_NUMA_NODES", "1"});
  if (d.chance(1, 8)) sp.envs.push_back({"HWLOC_CPUKINDS_MAXFREQ", d.chance(1, 2) ? "1" : "0"});
  if (d.chance(1, 8)) sp.envs.push_back({"HWLOC_DEBUG_SORT_CHILDREN", "1"});
}

void h_run(Case &c) {
  Draw &d = c.head;
  // CPUID dumps are flat directories where any removal disables the backend: 1 case in 6 when the worker also owns Linux snapshots
  std::vector<unsigned> lin, x86; for (unsigned i = 0; i < g_snaps.size(); i++) (g_snaps[i].kind == "x86" ? x86 : lin).push_back(i);
  bool usex86 = lin.empty() || (!x86.empty() && d.chance(1, 6)); const std::vector<unsigned> &pool = usex86 ? x86 : lin;
  const Snapshot &s = g_snaps[pool[d.raw() % pool.size()]];
  TopoSpec sp; gen_components_env(d, s, sp);
  SpecOpts so; gen_config(d, sp, so);
  std::vector<unsigned> removed;
  // size of the fault set: none 5%, one 35%, two 20%, 3-8 25%, everything generated (up to 40) 15%
  int k = d.range(0, 19); size_t want = k == 0 ? 0 : k <= 7 ? 1 : k <= 11 ? 2 : k <= 16 ? (size_t)d.range(3, 8) : 40;
  for (auto &op : c.ops) {
    if (s.paths.empty() || removed.size() >= want) break;
    // class by static prefix: cpu/node 6, proc/cgroup 3, bus/class/firmware 2, others 1
    int w = op.range(0, 11); int cl = w < 6 ? 0 : w < 9 ? 1 : w < 11 ? 2 : 3;
    // a class with a handful of entries (typically just the top-level directories, whose removal disables everything) is not
    // worth 1/12 of the picks: draw from all paths instead
    if (s.bycls[cl].size() < 12) removed.push_back(op.raw() % s.paths.size());
    else removed.push_back(s.bycls[cl][op.raw() % s.bycls[cl].size()]);
  }
  std::sort(removed.begin(), removed.end()); removed.erase(std::unique(removed.begin(), removed.end()), removed.end());
  run_snapshot_case(c, s, sp, removed);
}

// Thorough tier, exhaustive slice: "enum:<mode>:<k>:<n>" runs, on the single snapshot this process owns, every single removal (mode 1) or every
// pair of removals (mode 2, only when at most 120 paths qualify) among the removable paths under sys/devices/system whose enumeration index is
// congruent to k modulo n, with the default configuration and with INCLUDE_DISALLOWED + every type kept.  The child restores the snapshot itself
// between two removal sets; the parent's restore is the safety net for a crash in the middle.
static bool run_enumeration(const std::string &name, Case &c) {
  int mode = 0, k = 0, n = 1; if (sscanf(name.c_str(), "enum:%d:%d:%d", &mode, &k, &n) != 3 || n < 1 || (mode != 1 && mode != 2)) return false;
  const Snapshot &s = g_snaps[0]; std::vector<unsigned> L; std::string pre = s.kind == "x86+linux" ? "fsroot/sys/devices/system/" : "sys/devices/system/";
  for (unsigned i = 0; i < s.paths.size(); i++) if (s.paths[i].compare(0, pre.size(), pre) == 0) L.push_back(i);
  unsigned long done = 0, idx = 0; c.descf("exhaustive slice of %s: %s removals under sys/devices/system (%zu paths), share %d of %d", s.id.c_str(), mode == 1 ? "single" : "pairwise", L.size(), k, n);
  auto one = [&](std::vector<unsigned> rem) { for (int cfgi = 0; cfgi < 2; cfgi++) { TopoSpec sp; sp.components = s.kind == "x86+linux" ? "linux,x86,stop" : "linux,stop"; if (cfgi) { sp.flags = HWLOC_TOPOLOGY_FLAG_INCLUDE_DISALLOWED; sp.all_filter_set = true; sp.all_filter = HWLOC_TYPE_FILTER_KEEP_ALL; }
      run_snapshot_case(c, s, sp, rem); restore_from_journal(); done++; } };
  if (mode == 1) { for (unsigned a = 0; a < L.size(); a++, idx++) if ((long)(idx % (unsigned long)n) == k) one({L[a]}); }
  else if (L.size() <= 120) { for (unsigned a = 0; a < L.size(); a++) for (unsigned b = a + 1; b < L.size(); b++, idx++) if ((long)(idx % (unsigned long)n) == k) {
        // a path below a removed directory is not a separate removal
        const std::string &pa = s.paths[L[a]], &pb = s.paths[L[b]]; if (pb.compare(0, pa.size() + 1, pa + "/") == 0 || pa.compare(0, pb.size() + 1, pb + "/") == 0) continue; one({L[a], L[b]}); } }
  if (const char *o = getenv("VERIF_C18_ENUM_OUT")) { FILE *f = fopen(o, "w"); if (f) { fprintf(f, "{\"snapshot\": \"%s\", \"mode\": %d, \"share\": %d, \"of\": %d, \"paths\": %zu, \"removal_sets_run\": %lu}\n", s.id.c_str(), mode, k, n, L.size(), done); fclose(f); } }
  return true;
}

bool h_named(const std::string &name, Case &c) {
  if (name.compare(0, 5, "enum:") == 0) return run_enumeration(name, c);
  auto snap = [&](const char *id) -> const Snapshot & { for (auto &s : g_snaps) if (s.id == id) return s; c.fail("named_setup", "snapshot %s is not extracted (VERIF_C18_OWNED)", id); };
  auto idx = [&](const Snapshot &s, const char *p) -> unsigned { auto it = std::lower_bound(s.paths.begin(), s.paths.end(), std::string(p)); if (it == s.paths.end() || *it != p) c.fail("named_setup", "%s has no removable path %s", s.id.c_str(), p); return (unsigned)(it - s.paths.begin()); };
  if (name == "F-C18-a") {   // open: stale complete_cpuset of the NUMA node after KEEP_STRUCTURE merged its Package parent (offline CPUs)
    const Snapshot &s = snap("linux/16em64t-4s2c2t-offlines"); TopoSpec sp; sp.components = "linux,stop"; sp.all_filter_set = true; sp.all_filter = HWLOC_TYPE_FILTER_KEEP_STRUCTURE;
    g_strict_ccs = true; run_snapshot_case(c, s, sp, {}); return true;
  }
  if (name == "F-C18-b") {   // KNL SNC cluster Groups inserted although the Group filter is KEEP_NONE
    const Snapshot &s = snap("linux/64intel64-fakeKNL-SNC4-hybrid"); TopoSpec sp; sp.components = "linux,stop"; sp.filters[HWLOC_OBJ_GROUP] = HWLOC_TYPE_FILTER_KEEP_NONE;
    run_snapshot_case(c, s, sp, {idx(s, "var/run/hwloc")}); return true;   // (without the dumped hwdata the KNL configuration is guessed)
  }
  if (name == "F-C18-d") {   // invalid CPUID dump (one pu file missing): the x86 backend looked at the native CPUID and mixed it with the Linux snapshot
    const Snapshot &s = snap("x86+linux/5intel64-hybrid-lakefield"); TopoSpec sp; sp.components = "x86,linux,stop";
    unsigned r = idx(s, "cpuid/pu3"); apply_removals(c, s, {r});
    sp.fsroot = s.fsroot; sp.cpuid = s.cpuid; sp.snapname = s.id; int r1, r2; hwloc_topology_t a = load_cfg(c, sp, r1, "x86+linux load with cpuid/pu3 removed"); sp.components = "linux,stop"; sp.cpuid.clear(); hwloc_topology_t b = load_cfg(c, sp, r2, "linux-only load");
    CHECK(c, r1 == 0 && r2 == 0, "named_setup", "loads returned %d %d", r1, r2);
    // with the dump unusable, the topology must not contain anything the Linux snapshot alone does not justify: same PUs, same complete cpuset
    CHECK(c, hwloc_bitmap_isequal(hwloc_topology_get_complete_cpuset(a), hwloc_topology_get_complete_cpuset(b)), "no_native_fallback", "complete cpuset %s with the unusable dump, %s from the Linux snapshot alone: the native CPUID of this machine leaked in", bstr(hwloc_topology_get_complete_cpuset(a)).c_str(), bstr(hwloc_topology_get_complete_cpuset(b)).c_str());
    hwloc_topology_destroy(a); hwloc_topology_destroy(b); sp.components = "x86,linux,stop"; run_snapshot_case(c, s, sp, {}); return true;
  }
  if (name == "F-C18-c") {   // CPU 5 (the only CPU of NUMA node 2) has no topology directory: the node's Group became CPU-less in the middle of its siblings
    const Snapshot &s = snap("linux/16amd64-8n2c-cpusets"); TopoSpec sp; sp.components = "linux,stop";
    run_snapshot_case(c, s, sp, {idx(s, "sys/devices/system/cpu/cpu5/topology")}); return true;
  }
  if (name == "F-C18-f") {   // I/O locality made of CPUs that are not in the topology: childless Group with NULL nodesets
    const Snapshot &s = snap("linux/2pa-pcidomain32bits"); TopoSpec sp; sp.components = "linux,stop"; sp.all_filter_set = true; sp.all_filter = HWLOC_TYPE_FILTER_KEEP_ALL;
    run_snapshot_case(c, s, sp, {idx(s, "sys/devices/system/cpu/cpu1/topology")}); return true;
  }
  if (name == "F-C18-e") {   // no node directory + cgroup that only allows CPUs of one Package: the default NUMA node ended below that Package with the Machine's complete_cpuset
    const Snapshot &s = snap("linux/32amd64-4s2n4c-cgroup2"); TopoSpec sp; sp.components = "linux,stop";
    run_snapshot_case(c, s, sp, {idx(s, "sys/devices/system/node")}); return true;
  }
  return false;
}
