// C17 — documented thread-safety: concurrent readers of one topology, and threads working on distinct topologies (DESIGN.md section 4, C17).
// Built twice from this source against the ThreadSanitizer flavour of hwloc and of the engine:
//   part A (default)      : generated topology (+ generated modifications, then hwloc_topology_refresh(); NO refresh when nothing was modified:
//                           hwloc_topology_load() is documented to leave the topology ready) -> T in {2,4,8} threads behind a barrier, each running
//                           the whole generated list of consulting calls (rotated start, generated sched_yield points), several rounds.
//                           Oracle: no ThreadSanitizer report; every thread's (commutative) result digest equals the digest of the same calls run
//                           single-threaded AFTER the threads have finished (a reference run before them would refresh the lazy caches itself).
//   part B (-DC17_PART_B) : T threads, each with its own generated init/configure/load/modify/export/dup/destroy history on its own topology,
//                           released together just before hwloc_topology_load().  Oracle: no report; each thread's final dump and XML equal those
//                           of the same history re-run single-threaded afterwards.
// What the family can and cannot do here is stated in DESIGN.md section 5: TSan reports an unsynchronised conflicting pair whenever both accesses
// occur, whatever the interleaving, so the generated search is over WHICH calls run concurrently on WHICH topology state, not over schedules.
// Process-wide first-use caches (F-C17-a, open) are excluded by construction: the main thread performs one load + XML export + XML import first
// ("warm start", what every realistic program has done before it starts threads); the named case F-C17-a runs the cold start.
#include "ops.hpp"
#include <pthread.h>
#include <sched.h>
#include <atomic>
#include <climits>

#ifdef C17_PART_B
#define PART "B"
#else
#define PART "A"
#endif

void h_configure(HConfig &cfg) {
  cfg.property = "C17";
#ifdef C17_PART_B
  cfg.name = "c17_independent";
  cfg.rule = "case = T in {2,4,8} threads x (TopoSpec + history of modifying calls + XML export + dup + destroy) on distinct topologies, released together before hwloc_topology_load; non-trivial = at least 2 threads loaded successfully and at least one of them executed a structural modification; distinct by hash of the decoded case";
  cfg.head_len = 1400; cfg.op_len = 200; cfg.max_ops = 24;
#else
  cfg.name = "c17_readers";
  cfg.rule = "case = TopoSpec + 0..4 modifications (then refresh) + T in {2,4,8} reader threads x generated list of consulting calls x rounds; non-trivial = at least 2 threads each executed at least one distances or memory-attribute query on a topology holding at least one distances structure or memory-attribute value (the lazily refreshed structures); distinct by hash of the decoded case";
  cfg.head_len = 1100; cfg.op_len = 10; cfg.max_ops = 40;
#endif
  cfg.leak_check = false; cfg.cpu_limit_s = 120; cfg.wall_limit_s = 90; cfg.hang_is_violation = true; cfg.warm_xml = false;
}

#ifdef C17_PART_B
static std::string native_sig(hwloc_topology_t t);
static std::string g_native_ref;   // the native topology as discovered by the parent process before any case ran
#endif
void h_init_parent() {
  // the minimal XML backend only: libxml2 is not instrumented (DESIGN C17); critical-error banners off so that the static "reported" flag is never written
  setenv("HWLOC_LIBXML", "0", 1); setenv("HWLOC_HIDE_ERRORS", "2", 1);
  (void)corpus_xml_files();   // fill the function-static list before any thread exists
#ifdef C17_PART_B
  { hwloc_topology_t t; hwloc_topology_init(&t); if (hwloc_topology_load(t) == 0) g_native_ref = native_sig(t); hwloc_topology_destroy(t); }
#endif
}

static hwloc_topology_t g_keepalive;
static void warm_start(bool keep_alive) {
  hwloc_topology_t t; hwloc_topology_init(&t); hwloc_topology_set_synthetic(t, "pack:2 core:2 pu:2"); hwloc_topology_load(t);
  char *x = NULL; int l = 0; hwloc_topology_export_xmlbuffer(t, &x, &l, 0);
  hwloc_topology_t u; hwloc_topology_init(&u); hwloc_topology_set_xmlbuffer(u, x, l); hwloc_topology_load(u); hwloc_topology_destroy(u);
  hwloc_free_xmlbuffer(t, x);
  char buf[256]; hwloc_topology_export_synthetic(t, buf, sizeof buf, 0);
  if (keep_alive) g_keepalive = t; else hwloc_topology_destroy(t);
}

struct Barrier { pthread_barrier_t b; Barrier(unsigned n) { pthread_barrier_init(&b, NULL, n); } void wait() { pthread_barrier_wait(&b); } ~Barrier() { pthread_barrier_destroy(&b); } };

#ifndef C17_PART_B
// ---------------------------------------------------------------------------------------------------------------------------------
// part A: readers
struct ROp { int kind; uint32_t a, b, c2, fl; bool yield; };
enum { R_DUMP, R_XML, R_SYNTH, R_LOOKUP, R_RELATION, R_CPUSET_HELPERS, R_PRINT, R_DISTANCES, R_DIST_BY, R_MEMATTR, R_LOCALNODES, R_CPUKINDS, R_SETS, R_GETTERS, R_CLOSEST, R_DISTRIB, R_NKINDS };
static const char *rop_name[] = {"dump", "export_xml", "export_synthetic", "lookup", "relation", "cpuset_helpers", "print", "distances_get", "distances_get_by", "memattr", "local_numanodes", "cpukinds", "sets", "getters", "closest", "distrib"};

struct Shared { hwloc_topology_t t; std::vector<hwloc_obj_t> objs, normal; std::vector<ROp> ops; unsigned rounds; };

static inline void mix(uint64_t &h, uint64_t x) { h ^= x + 0x9e3779b97f4a7c15ULL + (h << 6) + (h >> 2); }
static inline void mixs(uint64_t &h, const char *s) { mix(h, s ? fnv1a(s, strlen(s)) : 7); }
static inline void mixo(uint64_t &h, hwloc_obj_t o) { mix(h, o ? o->gp_index : 0xdeadULL); }
static inline void mixb(uint64_t &h, hwloc_const_bitmap_t b) { if (!b) { mix(h, 3); return; } mix(h, (uint64_t)hwloc_bitmap_weight(b)); mix(h, (uint64_t)hwloc_bitmap_first(b)); mix(h, (uint64_t)hwloc_bitmap_last(b)); for (int i = hwloc_bitmap_first(b), n = 0; i >= 0 && n < 64; i = hwloc_bitmap_next(b, i), n++) mix(h, i); }

// one consulting call (group); returns a hash of everything it observed.  Only public consulting API, no pointers in the hash.
static uint64_t run_rop(const Shared &S, const ROp &op) {
  hwloc_topology_t t = S.t; uint64_t h = 1469598103934665603ULL ^ (uint64_t)op.kind;
  hwloc_obj_t oa = S.objs[op.a % S.objs.size()], ob = S.objs[op.b % S.objs.size()];
  hwloc_obj_t na = S.normal[op.a % S.normal.size()], nb = S.normal[op.b % S.normal.size()];
  switch (op.kind) {
  case R_DUMP: { std::string d = dump_topology(t, DUMP_GP | DUMP_EXTRAS | DUMP_SUPPORT | DUMP_CONFIG); mix(h, fnv1a(d.data(), d.size())); break; }
  case R_XML: { char *x = NULL; int l = 0; int r = hwloc_topology_export_xmlbuffer(t, &x, &l, (op.fl & 1) ? HWLOC_TOPOLOGY_EXPORT_XML_FLAG_V2 : 0); mix(h, r); if (r == 0) { mix(h, fnv1a(x, l)); hwloc_free_xmlbuffer(t, x); } break; }
  case R_SYNTH: { char buf[4096]; int r = hwloc_topology_export_synthetic(t, buf, sizeof buf, op.fl % 16); mix(h, r); if (r >= 0) mixs(h, buf); break; }
  case R_LOOKUP: { int depth = hwloc_topology_get_depth(t); mix(h, depth); int dd = (int)(op.a % (unsigned)(depth + 6)) - 6; mix(h, hwloc_get_nbobjs_by_depth(t, dd)); mix(h, (uint64_t)(int)hwloc_get_depth_type(t, dd));
      unsigned n = hwloc_get_nbobjs_by_depth(t, dd); if (n) mixo(h, hwloc_get_obj_by_depth(t, dd, op.b % n)); hwloc_obj_type_t ty = (hwloc_obj_type_t)(op.c2 % HWLOC_OBJ_TYPE_MAX); mix(h, hwloc_get_type_depth(t, ty)); mix(h, hwloc_get_type_or_below_depth(t, ty)); mix(h, hwloc_get_type_or_above_depth(t, ty)); mix(h, hwloc_get_nbobjs_by_type(t, ty));
      hwloc_obj_t o = NULL; int k = 0; while ((o = hwloc_get_next_obj_by_type(t, ty, o)) != NULL && k++ < 300) mixo(h, o); mix(h, hwloc_get_memory_parents_depth(t)); mixo(h, hwloc_get_root_obj(t)); break; }
  case R_RELATION: { mixo(h, hwloc_get_common_ancestor_obj(t, na, nb)); mix(h, hwloc_obj_is_in_subtree(t, oa, ob)); mixo(h, hwloc_get_ancestor_obj_by_type(t, (hwloc_obj_type_t)(op.c2 % HWLOC_OBJ_TYPE_MAX), oa)); mixo(h, hwloc_get_ancestor_obj_by_depth(t, op.c2 % 4, na));
      hwloc_obj_t ch = NULL; int k = 0; while ((ch = hwloc_get_next_child(t, oa, ch)) != NULL && k++ < 200) mixo(h, ch); mixo(h, hwloc_get_non_io_ancestor_obj(t, oa)); mixo(h, hwloc_get_next_obj_by_depth(t, na->depth, na)); break; }
  case R_CPUSET_HELPERS: { hwloc_const_bitmap_t cs = na->cpuset; mixo(h, hwloc_get_obj_covering_cpuset(t, cs)); mixo(h, hwloc_get_first_largest_obj_inside_cpuset(t, cs)); hwloc_obj_t arr[16]; int n = hwloc_get_largest_objs_inside_cpuset(t, cs, arr, 16); mix(h, n); for (int i = 0; i < n; i++) mixo(h, arr[i]);
      // (these helpers are documented not to work on levels whose objects have no cpuset: normal and memory types only)
      static const hwloc_obj_type_t settypes[] = {HWLOC_OBJ_MACHINE, HWLOC_OBJ_PACKAGE, HWLOC_OBJ_DIE, HWLOC_OBJ_CORE, HWLOC_OBJ_PU, HWLOC_OBJ_L1CACHE, HWLOC_OBJ_L2CACHE, HWLOC_OBJ_L3CACHE, HWLOC_OBJ_L1ICACHE, HWLOC_OBJ_GROUP, HWLOC_OBJ_NUMANODE, HWLOC_OBJ_MEMCACHE};
      hwloc_obj_type_t ty = settypes[op.c2 % (sizeof settypes / sizeof settypes[0])]; mix(h, hwloc_get_nbobjs_inside_cpuset_by_type(t, cs, ty)); mixo(h, hwloc_get_obj_inside_cpuset_by_type(t, cs, ty, op.b % 4)); mixo(h, hwloc_get_next_obj_covering_cpuset_by_type(t, nb->cpuset, ty, NULL)); mixo(h, hwloc_get_cache_covering_cpuset(t, cs));
      hwloc_bitmap_t ns = hwloc_bitmap_alloc(), cs2 = hwloc_bitmap_alloc(); mix(h, hwloc_cpuset_to_nodeset(t, cs, ns)); mixb(h, ns); mix(h, hwloc_cpuset_from_nodeset(t, cs2, ns)); mixb(h, cs2); hwloc_bitmap_free(ns); hwloc_bitmap_free(cs2);
      mixo(h, hwloc_get_pu_obj_by_os_index(t, op.a % 70)); mixo(h, hwloc_get_numanode_obj_by_os_index(t, op.b % 10)); break; }
  case R_PRINT: { char b1[512], b2[1024]; unsigned long fl = op.fl % 64; mix(h, hwloc_obj_type_snprintf(b1, sizeof b1, oa, fl)); mixs(h, b1); mix(h, hwloc_obj_attr_snprintf(b2, sizeof b2, oa, (op.fl & 64) ? "\n" : ", ", fl)); mixs(h, b2); mixs(h, hwloc_obj_get_info_by_name(oa, "Backend")); mixs(h, oa->name); mixs(h, oa->subtype);
      mixs(h, hwloc_obj_type_string(oa->type)); struct hwloc_infos_s *inf = hwloc_topology_get_infos(t); for (unsigned i = 0; i < inf->count; i++) { mixs(h, inf->array[i].name); mixs(h, inf->array[i].value); } break; }
  case R_DISTANCES: { unsigned nr = 0; unsigned long kind = (op.fl & 1) ? 0 : (1UL << (op.fl >> 1) % 6); mix(h, hwloc_distances_get(t, &nr, NULL, kind, 0)); mix(h, nr); std::vector<struct hwloc_distances_s *> v(nr + 1); unsigned n2 = nr; if (nr) mix(h, hwloc_distances_get(t, &n2, v.data(), kind, 0)); mix(h, n2);
      for (unsigned i = 0; i < n2 && i < nr; i++) { struct hwloc_distances_s *ds = v[i]; mix(h, ds->nbobjs); mix(h, ds->kind); mixs(h, hwloc_distances_get_name(t, ds)); for (unsigned k = 0; k < ds->nbobjs; k++) mixo(h, ds->objs[k]); for (unsigned k = 0; k < ds->nbobjs * ds->nbobjs; k++) mix(h, ds->values[k]);
        mix(h, hwloc_distances_obj_index(ds, oa)); if (ds->nbobjs >= 2 && ds->objs[0] && ds->objs[1]) { hwloc_uint64_t v1 = 0, v2 = 0; mix(h, hwloc_distances_obj_pair_values(ds, ds->objs[0], ds->objs[1], &v1, &v2)); mix(h, v1); mix(h, v2); }
        hwloc_distances_release(t, ds); }
      break; }
  case R_DIST_BY: { unsigned nr = 4; struct hwloc_distances_s *v[4]; int r;
      if (op.fl % 3 == 0) r = hwloc_distances_get_by_depth(t, na->depth, &nr, v, 0, 0); else if (op.fl % 3 == 1) r = hwloc_distances_get_by_type(t, (hwloc_obj_type_t)(op.c2 % HWLOC_OBJ_TYPE_MAX), &nr, v, 0, 0); else { static const char *nm[] = {"NUMALatency", "d0", "d1", "user", "XGMIBandwidth", ""}; r = hwloc_distances_get_by_name(t, nm[op.c2 % 6], &nr, v, 0); }
      mix(h, r); mix(h, nr); for (unsigned i = 0; r == 0 && i < nr && i < 4; i++) { mix(h, v[i]->nbobjs); mix(h, v[i]->kind); for (unsigned k = 0; k < v[i]->nbobjs; k++) mixo(h, v[i]->objs[k]); hwloc_distances_release(t, v[i]); } break; }
  case R_MEMATTR: { hwloc_memattr_id_t id = op.a % 12; const char *nm = NULL; unsigned long fl = 0; int r = hwloc_memattr_get_name(t, id, &nm); mix(h, r); if (r < 0) break; mixs(h, nm); hwloc_memattr_get_flags(t, id, &fl); mix(h, fl); hwloc_memattr_id_t id2 = 0; mix(h, hwloc_memattr_get_by_name(t, nm, &id2)); mix(h, id2);
      struct hwloc_location loc; loc.type = HWLOC_LOCATION_TYPE_CPUSET; loc.location.cpuset = na->cpuset; if (op.fl & 1) { loc.type = HWLOC_LOCATION_TYPE_OBJECT; loc.location.object = na; }
      unsigned nt = 0; mix(h, hwloc_memattr_get_targets(t, id, (op.fl & 2) ? &loc : NULL, 0, &nt, NULL, NULL)); mix(h, nt); std::vector<hwloc_obj_t> tg(nt + 1); std::vector<hwloc_uint64_t> tv(nt + 1); unsigned n2 = nt; if (nt) hwloc_memattr_get_targets(t, id, (op.fl & 2) ? &loc : NULL, 0, &n2, tg.data(), tv.data());
      for (unsigned i = 0; i < n2 && i < nt; i++) { mixo(h, tg[i]); mix(h, tv[i]); hwloc_uint64_t v = 0; mix(h, hwloc_memattr_get_value(t, id, tg[i], &loc, 0, &v)); mix(h, v);
        unsigned ni = 0; mix(h, hwloc_memattr_get_initiators(t, id, tg[i], 0, &ni, NULL, NULL)); mix(h, ni); std::vector<struct hwloc_location> iv(ni + 1); std::vector<hwloc_uint64_t> ivv(ni + 1); unsigned ni2 = ni; if (ni) hwloc_memattr_get_initiators(t, id, tg[i], 0, &ni2, iv.data(), ivv.data());
        for (unsigned k = 0; k < ni2 && k < ni; k++) { mix(h, ivv[k]); if (iv[k].type == HWLOC_LOCATION_TYPE_CPUSET) mixb(h, iv[k].location.cpuset); else mixo(h, iv[k].location.object); }
        struct hwloc_location best; hwloc_uint64_t bv = 0; int rb = hwloc_memattr_get_best_initiator(t, id, tg[i], 0, &best, &bv); mix(h, rb); if (rb == 0) { mix(h, bv); if (best.type == HWLOC_LOCATION_TYPE_CPUSET) mixb(h, best.location.cpuset); else mixo(h, best.location.object); } }
      hwloc_obj_t bt = NULL; hwloc_uint64_t bv = 0; int rb = hwloc_memattr_get_best_target(t, id, &loc, 0, &bt, &bv); mix(h, rb); if (rb == 0) { mixo(h, bt); mix(h, bv); }
      // the same queries on an arbitrary NUMA node, whether or not the attribute has a value for it
      { int nn = hwloc_get_nbobjs_by_type(t, HWLOC_OBJ_NUMANODE); if (nn > 0) { hwloc_obj_t node = hwloc_get_obj_by_type(t, HWLOC_OBJ_NUMANODE, op.b % nn); hwloc_uint64_t v = 0; mix(h, hwloc_memattr_get_value(t, id, node, &loc, 0, &v)); struct hwloc_location best; hwloc_uint64_t bv2 = 0; int rb2 = hwloc_memattr_get_best_initiator(t, id, node, 0, &best, &bv2); mix(h, rb2 == 0 ? 1 : 0); if (rb2 == 0) mix(h, bv2); unsigned ni = 0; mix(h, hwloc_memattr_get_initiators(t, id, node, 0, &ni, NULL, NULL) == 0 ? 1 : 0); mix(h, ni); } }
      break; }
  case R_LOCALNODES: { struct hwloc_location loc; loc.type = HWLOC_LOCATION_TYPE_CPUSET; loc.location.cpuset = na->cpuset; if (op.fl & 1) { loc.type = HWLOC_LOCATION_TYPE_OBJECT; loc.location.object = oa; } unsigned nr = 16; hwloc_obj_t nodes[16]; int r = hwloc_get_local_numanode_objs(t, (op.fl & 2) ? NULL : &loc, &nr, nodes, (op.fl >> 2) % 8); mix(h, r); if (r == 0) { mix(h, nr); for (unsigned i = 0; i < nr && i < 16; i++) mixo(h, nodes[i]); }
      hwloc_bitmap_t ns = hwloc_bitmap_alloc(); mix(h, hwloc_topology_get_default_nodeset(t, ns, 0)); mixb(h, ns); hwloc_bitmap_free(ns); break; }
  case R_CPUKINDS: { int nr = hwloc_cpukinds_get_nr(t, 0); mix(h, nr); for (int k = 0; k < nr && k < 16; k++) { hwloc_bitmap_t cs = hwloc_bitmap_alloc(); int eff = -2; struct hwloc_infos_s *inf = NULL; int r = hwloc_cpukinds_get_info(t, k, cs, &eff, &inf, 0); mix(h, r); mixb(h, cs); mix(h, eff); if (r == 0 && inf) for (unsigned i = 0; i < inf->count; i++) { mixs(h, inf->array[i].name); mixs(h, inf->array[i].value); } hwloc_bitmap_free(cs); }
      mix(h, hwloc_cpukinds_get_by_cpuset(t, na->cpuset, 0)); break; }
  case R_SETS: { hwloc_const_bitmap_t s[6] = {hwloc_topology_get_complete_cpuset(t), hwloc_topology_get_topology_cpuset(t), hwloc_topology_get_allowed_cpuset(t), hwloc_topology_get_complete_nodeset(t), hwloc_topology_get_topology_nodeset(t), hwloc_topology_get_allowed_nodeset(t)};
      for (int i = 0; i < 6; i++) mixb(h, s[i]); mix(h, hwloc_bitmap_isincluded(s[2], s[1])); mix(h, hwloc_bitmap_isincluded(s[1], s[0])); mix(h, hwloc_bitmap_intersects(s[2], na->cpuset)); mix(h, hwloc_bitmap_isequal(s[0], s[1])); mix(h, hwloc_bitmap_compare(s[0], na->complete_cpuset)); mix(h, hwloc_bitmap_compare_first(na->cpuset, nb->cpuset));
      char *str = NULL; hwloc_bitmap_asprintf(&str, na->cpuset); mixs(h, str); free(str); hwloc_bitmap_list_asprintf(&str, na->nodeset); mixs(h, str); free(str); mixb(h, oa->cpuset); mixb(h, oa->nodeset); break; }
  case R_GETTERS: { mix(h, hwloc_topology_get_flags(t)); mix(h, hwloc_topology_is_thissystem(t)); mix(h, hwloc_topology_abi_check(t)); enum hwloc_type_filter_e f; hwloc_topology_get_type_filter(t, (hwloc_obj_type_t)(op.c2 % HWLOC_OBJ_TYPE_MAX), &f); mix(h, (int)f); const struct hwloc_topology_support *sp = hwloc_topology_get_support(t);
      mix(h, sp->discovery->pu); mix(h, sp->discovery->numa); mix(h, sp->cpubind->set_thisproc_cpubind); mix(h, sp->membind->set_thisproc_membind); mix(h, sp->misc->imported_support); mix(h, hwloc_topology_get_userdata(t) != NULL); mix(h, hwloc_get_api_version()); break; }
  case R_CLOSEST: { hwloc_obj_t arr[12]; unsigned n = hwloc_get_closest_objs(t, na, arr, 12); mix(h, n); for (unsigned i = 0; i < n; i++) mixo(h, arr[i]); mixo(h, hwloc_get_obj_below_by_type(t, HWLOC_OBJ_MACHINE, 0, HWLOC_OBJ_PU, op.b % 8)); break; }
  default: { unsigned n = 1 + op.b % 6; hwloc_bitmap_t sets[6]; for (unsigned i = 0; i < 6; i++) sets[i] = hwloc_bitmap_alloc(); hwloc_obj_t roots[1] = {hwloc_get_root_obj(t)}; int r = hwloc_distrib(t, roots, 1, sets, n, INT_MAX, (op.fl & 1) ? HWLOC_DISTRIB_FLAG_REVERSE : 0); mix(h, r); for (unsigned i = 0; i < n; i++) mixb(h, sets[i]); for (unsigned i = 0; i < 6; i++) hwloc_bitmap_free(sets[i]); break; }
  }
  return h;
}

struct RThread { const Shared *S; unsigned idx, nthreads; Barrier *bar; uint64_t digest; unsigned long lazy_calls; pthread_t th; };
static void *reader_main(void *arg) {
  RThread *T = (RThread *)arg; const Shared &S = *T->S; size_t n = S.ops.size(); uint64_t sum = 0; unsigned long lazy = 0;
  T->bar->wait();
  for (unsigned r = 0; r < S.rounds; r++) for (size_t i = 0; i < n; i++) {
    const ROp &op = S.ops[(i + (size_t)T->idx * n / T->nthreads) % n];
    sum += run_rop(S, op);
    if (op.kind == R_DUMP || op.kind == R_DISTANCES || op.kind == R_DIST_BY || op.kind == R_MEMATTR || op.kind == R_XML) lazy++;
    if (op.yield) sched_yield();
  }
  T->digest = sum; T->lazy_calls = lazy; return NULL;
}

static void run_readers(Case &c, hwloc_topology_t t, unsigned nthreads, unsigned rounds, std::vector<ROp> ops, bool expect_lazy_structures) {
  Shared S; S.t = t; S.objs = all_objs(t); for (auto o : S.objs) if (o->cpuset && !hwloc_obj_type_is_memory(o->type)) S.normal.push_back(o); S.ops = ops; S.rounds = rounds;
  if (S.ops.empty()) { ROp d0 = {R_DUMP, 0, 0, 0, 0, false}; S.ops.push_back(d0); }
  Barrier bar(nthreads); std::vector<RThread> th(nthreads);
  c.attempt(strf("%u reader threads x %u rounds x %zu calls", nthreads, rounds, S.ops.size()));
  for (unsigned i = 0; i < nthreads; i++) { th[i].S = &S; th[i].idx = i; th[i].nthreads = nthreads; th[i].bar = &bar; th[i].digest = 0; th[i].lazy_calls = 0; if (pthread_create(&th[i].th, NULL, reader_main, &th[i]) != 0) c.fail("harness", "pthread_create failed"); }
  for (unsigned i = 0; i < nthreads; i++) pthread_join(th[i].th, NULL);
  // reference: the same calls, single-threaded, afterwards
  c.attempt("single-threaded reference run"); uint64_t ref = 0; for (unsigned r = 0; r < rounds; r++) for (auto &op : S.ops) ref += run_rop(S, op);
  unsigned lazy_threads = 0;
  for (unsigned i = 0; i < nthreads; i++) { CHECK(c, th[i].digest == ref, "digest", "thread %u of %u observed different results than the single-threaded run (digest %016llx vs %016llx)", i, nthreads, (unsigned long long)th[i].digest, (unsigned long long)ref); if (th[i].lazy_calls) lazy_threads++; }
  // which call differs, for the message of a digest failure, is found by the shrinker (one call, two threads)
  if (lazy_threads >= 2 && expect_lazy_structures) c.nontrivial();
  c.cls(strf("threads:%u", nthreads).c_str());
}

static std::vector<ROp> decode_rops(Case &c) {
  std::vector<ROp> v; static const int w[R_NKINDS] = {2, 2, 1, 3, 3, 3, 3, 5, 3, 6, 2, 2, 2, 1, 1, 1}; int total = 0; for (int x : w) total += x;
  for (auto &d : c.ops) { ROp op; int x = d.range(0, total - 1); op.kind = 0; for (int k = 0; k < R_NKINDS; k++) { if (x < w[k]) { op.kind = k; break; } x -= w[k]; } op.a = d.raw(); op.b = d.raw(); op.c2 = d.raw(); op.fl = d.raw(); op.yield = d.chance(1, 8); v.push_back(op); c.cls((std::string("call:") + rop_name[op.kind]).c_str()); }
  return v;
}
static bool has_lazy_structures(hwloc_topology_t t) {
  unsigned nr = 0; hwloc_distances_get(t, &nr, NULL, 0, 0); if (nr) return true;
  for (hwloc_memattr_id_t id = 0; id < 16; id++) { const char *nm; if (hwloc_memattr_get_name(t, id, &nm) < 0) break; unsigned long fl = 0; hwloc_memattr_get_flags(t, id, &fl); unsigned nt = 0; if (id >= 2 && hwloc_memattr_get_targets(t, id, NULL, 0, &nt, NULL, NULL) == 0 && nt) return true; }
  return false;
}

void h_run(Case &c) {
  Draw &d = c.head;
  static const unsigned tc[] = {2, 4, 8}; unsigned nthreads = d.pick(tc); unsigned rounds = (unsigned)d.range(1, 3); bool keep = d.chance(1, 2);
  warm_start(keep);
  SpecOpts so; so.syn.max_pus = 48; so.misc_keep = true; TopoSpec sp = gen_topospec(d, so);
  hwloc_topology_t t; hwloc_topology_init(&t); if (apply_spec_and_load(c, t, sp) < 0) { hwloc_topology_destroy(t); c.discard(); }
  c.desc(sp.text());
  int nmods = d.chance(2, 5) ? 0 : d.range(1, 4); OpOpts oo; oo.kinds_mask &= ~(1u << OP_REFRESH); { const char *e = getenv("VERIF_INCLUDE_KNOWN"); oo.allow_cpuless_nodeset_group = e && strstr(e, "F-C02-d"); }
  int applied = 0; for (int i = 0; i < nmods; i++) { OpRes r = apply_op(c, d, t, oo); c.desc("\n | " + r.desc); if (r.ok) applied++; }
  // "after any modification, hwloc_topology_refresh() has been called"; a freshly loaded topology needs no refresh
  // (VERIF_C17_NO_REFRESH is the harness' own sensitivity probe: without the refresh the readers must race; never set by a registered command)
  if (nmods > 0 && !getenv("VERIF_C17_NO_REFRESH")) { int r = hwloc_topology_refresh(t); CHECK(c, r == 0, "refresh", "hwloc_topology_refresh returned %d", r); c.desc("\n | refresh"); c.cls("modified-then-refreshed"); } else if (nmods == 0) c.cls("fresh-load(no refresh call)");
  (void)applied;
  // (has_lazy_structures() only counts; it runs before the threads but goes through get(NULL) / get_targets(NULL) which read counters, and it is
  //  skipped for unmodified topologies so that a load that forgot to refresh is met by the threads first)
  bool lazy = nmods > 0 ? has_lazy_structures(t) : true;
  std::vector<ROp> ops = decode_rops(c);
  c.descf("\n %u threads x %u rounds x %zu consulting calls:", nthreads, rounds, ops.size()); for (auto &op : ops) c.desc(std::string(" ") + rop_name[op.kind]);
  run_readers(c, t, nthreads, rounds, ops, lazy);
  if (nmods == 0 && !has_lazy_structures(t)) c.cls("no-lazy-structure");
  require_wf(c, t, "after the reader threads");
  hwloc_topology_destroy(t); if (g_keepalive) hwloc_topology_destroy(g_keepalive);
}

bool h_named(const std::string &name, Case &c) {
  if (name == "F-C17-a") {   // open: cold start - the first hwloc calls of the process happen in concurrent threads (function-static environment caches)
    c.desc("8 threads, each: load synthetic, XML export, XML import; no hwloc call before the threads start");
    struct L { static void *run(void *arg) { Barrier *b = (Barrier *)arg; b->wait(); for (int k = 0; k < 5; k++) warm_start(false); return NULL; } };
    Barrier bar(8); pthread_t th[8]; for (auto &x : th) pthread_create(&x, NULL, L::run, &bar); for (auto &x : th) pthread_join(x, NULL); return true;
  }
  if (name == "warm-readers") {   // deterministic smoke case: distances + memattr values, 8 readers on a freshly loaded XML topology
    warm_start(true); hwloc_topology_t t; hwloc_topology_init(&t); std::string f = std::string(verif_repo()) + "/tests/hwloc/xml/power8gpudistances.xml"; c.desc("8 readers on " + f);
    CHECK(c, hwloc_topology_set_xml(t, f.c_str()) == 0 && hwloc_topology_load(t) == 0, "named_setup", "cannot load %s", f.c_str());
    std::vector<ROp> ops; for (int k = 0; k < R_NKINDS; k++) { ROp op = {k, (uint32_t)(k * 7919), (uint32_t)(k * 104729), (uint32_t)k, (uint32_t)(k * 3), (k & 1) != 0}; ops.push_back(op); }
    run_readers(c, t, 8, 2, ops, true); hwloc_topology_destroy(t); hwloc_topology_destroy(g_keepalive); return true;
  }
  return false;
}

#else
// ---------------------------------------------------------------------------------------------------------------------------------
// part B: independent topologies
struct BThread { Case *c; unsigned idx, nthreads; Barrier *bar; std::string dump, xml; bool loaded, structural; pthread_t th; };

// what a native discovery found, without anything that moves between two loads of a live machine (memory sizes): discovery components and object counts
static std::string native_sig(hwloc_topology_t t) {
  std::string s; struct hwloc_infos_s *ti = hwloc_topology_get_infos(t); const char *b = ti ? hwloc_get_info_by_name(ti, "Backend") : NULL; if (!b) b = hwloc_obj_get_info_by_name(hwloc_get_root_obj(t), "Backend");
  s = strf("Backend=%s depth=%d", b ? b : "(none)", hwloc_topology_get_depth(t));
  for (int ty = 0; ty < HWLOC_OBJ_TYPE_MAX; ty++) { int n = hwloc_get_nbobjs_by_type(t, (hwloc_obj_type_t)ty); if (n) s += strf(" %s*%d", hwloc_obj_type_string((hwloc_obj_type_t)ty), n); }
  return s;
}

static void run_history(Case &c, unsigned idx, unsigned nthreads, Barrier *bar, std::string &dump, std::string &xml, bool &loaded, bool &structural, std::string *desc) {
  Draw d = c.head; d.pos = 40 + (size_t)idx * 160;   // a private window of the header for this thread's TopoSpec
  SpecOpts so; so.syn.max_pus = 32; so.misc_keep = true; TopoSpec sp = gen_topospec(d, so);
  // per-topology discovery configuration: hwloc_topology_set_components() blacklists a component for ONE topology; other topologies of the process,
  // in particular those that discover the machine natively at the same time, must not notice
  static const char *BL[] = {"linux", "x86", "no_os", "pci", "linux:0x3", "xml", "synthetic", "linuxio", "linux:cpu", "x86:0x1"};
  int blk = d.chance(1, 3) ? d.range(0, 9) : -1;
  // at most one thread of a case discovers the machine natively: two concurrent native discoveries race on the function-static size caches of
  // hwloc__read_path_as_cpumask() (finding F-C17-b, open; the named case F-C17-b runs exactly that)
  bool native; { Draw g = c.head; g.pos = 30; int ni = g.chance(1, 2) ? (int)(g.raw() % nthreads) : -1; bool more = g.chance(1, 4); const char *e = getenv("VERIF_INCLUDE_KNOWN"); bool incl = e && strstr(e, "F-C17-b");
    native = (int)idx == ni; if (!native && ni >= 0 && more && (idx + 1) % nthreads == (unsigned)ni) { if (incl) native = true; else if (!bar) c.excluded("F-C17-b"); } }
  hwloc_topology_t t; hwloc_topology_init(&t);
  if (bar) bar->wait();
  if (blk >= 0) { int br = hwloc_topology_set_components(t, HWLOC_TOPOLOGY_COMPONENTS_FLAG_BLACKLIST, BL[blk]); if (desc) { c.descf("\n thread %u: blacklist(%s)=%d", idx, BL[blk], br); c.cls("config:blacklist"); } }
  if (native) {   // a native discovery; compared by signature only (no modifying history, nothing that depends on current memory sizes)
    int l = hwloc_topology_load(t); loaded = l == 0; structural = false; xml.clear();
    if (l < 0) { hwloc_topology_destroy(t); dump = "(native load failed)"; return; }
    dump = native_sig(t); if (desc) { c.descf("\n thread %u: native discovery -> %s", idx, dump.c_str()); c.cls("config:native-load"); }
    { WFError e; wf_check(t, e); if (!e.ok()) c.fail("wf", "thread %u (native): %s", idx, e.msgs[0].c_str()); }
    if (blk < 0 && !g_native_ref.empty() && dump != g_native_ref) c.fail("independent", "thread %u: a native discovery without any blacklisting found [%s], the process found [%s] before any other topology existed", idx, dump.c_str(), g_native_ref.c_str());
    hwloc_topology_destroy(t); return; }
  int l = apply_spec_and_load(c, t, sp); loaded = l == 0; structural = false;
  if (desc) c.descf("\n thread %u: %s load=%d", idx, sp.text().c_str(), l);
  if (l < 0) { hwloc_topology_destroy(t); dump = "(load failed)"; xml.clear(); return; }
  OpOpts oo; { const char *e = getenv("VERIF_INCLUDE_KNOWN"); oo.allow_cpuless_nodeset_group = e && strstr(e, "F-C02-d"); }
  for (size_t i = idx; i < c.ops.size(); i += nthreads) { Draw od = c.ops[i]; OpRes r = apply_op(c, od, t, oo); if (r.structural) structural = true; if (desc) c.desc(" | " + r.desc); }
  hwloc_topology_refresh(t);
  { WFError e; wf_check(t, e); if (!e.ok()) c.fail("wf", "thread %u: %s", idx, e.msgs[0].c_str()); }
  // a diff episode on private topologies (process-wide state is involved: the XML backends are looked up through the component registry,
  // whose reference count every topology and every diff import/export takes part in)
  if (d.chance(1, 2)) { hwloc_topology_t b2 = NULL; if (hwloc_topology_dup(&b2, t) == 0) { bool complex_edit = d.chance(1, 2); hwloc_obj_t r2 = hwloc_get_root_obj(b2); if (complex_edit) hwloc_obj_add_info(r2, "c17-extra", "1"); else { free(r2->name); r2->name = strdup("c17-renamed"); if (!hwloc_get_root_obj(t)->name) hwloc_get_root_obj(t)->name = strdup("c17"); }
      hwloc_topology_diff_t df = NULL; int br = hwloc_topology_diff_build(t, b2, 0, &df); if (br < 0) c.fail("diff_build", "thread %u: diff_build failed", idx); if (complex_edit && br != 1) c.fail("diff_build", "thread %u: an added info pair did not make the diff too complex (ret %d)", idx, br);
      if (df) { char *xb = NULL; int xl = 0; errno = 0; int er = hwloc_topology_diff_export_xmlbuffer(df, "c17", &xb, &xl); if (br == 1) { if (!(er == -1 && errno == EINVAL)) c.fail("diff_export", "thread %u: a too complex diff was exported (ret %d errno %d)", idx, er, errno); } else { if (er != 0) c.fail("diff_export", "thread %u: diff export failed errno %d", idx, errno); hwloc_topology_diff_t back = NULL; char *rn = NULL; if (hwloc_topology_diff_load_xmlbuffer(xb, xl, &back, &rn) != 0) c.fail("diff_export", "thread %u: the exported diff does not load", idx); hwloc_topology_diff_destroy(back); free(rn); hwloc_free_xmlbuffer(t, xb); }
        hwloc_topology_diff_destroy(df); }
      hwloc_topology_destroy(b2); if (desc) c.descf(" | diff episode (%s)", complex_edit ? "too complex" : "representable"); } }
  dump = dump_topology(t, DUMP_GP | DUMP_EXTRAS | DUMP_CONFIG); xml = export_xml(t, 0);
  hwloc_topology_t cp = NULL; if (hwloc_topology_dup(&cp, t) == 0) { std::string d2 = dump_topology(cp, DUMP_GP | DUMP_EXTRAS | DUMP_CONFIG); if (d2 != dump) c.fail("dup_equal", "thread %u: dup differs: %s", idx, first_diff(dump, d2).c_str()); hwloc_topology_destroy(cp); }
  hwloc_topology_destroy(t);
}
static void *worker_main(void *arg) { BThread *T = (BThread *)arg; run_history(*T->c, T->idx, T->nthreads, T->bar, T->dump, T->xml, T->loaded, T->structural, NULL); return NULL; }

void h_run(Case &c) {
  Draw &d = c.head; static const unsigned tc[] = {2, 4, 8}; unsigned nthreads = d.pick(tc); bool keep = d.chance(1, 2);
  warm_start(keep);
  // the single-threaded reference of every history first (it also yields the description of the case), then the same histories concurrently
  c.descf("%u threads, warm start%s", nthreads, keep ? " (main thread keeps a topology alive)" : "");
  std::vector<std::string> rdump(nthreads), rxml(nthreads); unsigned nloaded = 0; bool anystruct = false;
  for (unsigned i = 0; i < nthreads; i++) { std::string desc; bool loaded, structural; c.attempt(strf("single-threaded reference run of history %u", i)); run_history(c, i, nthreads, NULL, rdump[i], rxml[i], loaded, structural, &desc); c.desc(desc); if (loaded) nloaded++; if (structural) anystruct = true;
    if (g_keepalive) { c.attempt(strf("export of the topology the main thread keeps, after history %u", i)); (void)export_xml(g_keepalive, 0); } }
  Barrier bar(nthreads); std::vector<BThread> th(nthreads);
  c.attempt(strf("%u threads with independent topologies", nthreads));
  for (unsigned i = 0; i < nthreads; i++) { th[i].c = &c; th[i].idx = i; th[i].nthreads = nthreads; th[i].bar = &bar; if (pthread_create(&th[i].th, NULL, worker_main, &th[i]) != 0) c.fail("harness", "pthread_create failed"); }
  for (unsigned i = 0; i < nthreads; i++) pthread_join(th[i].th, NULL);
  for (unsigned i = 0; i < nthreads; i++) {
    CHECK(c, rdump[i] == th[i].dump, "independent", "thread %u of %u: the final topology differs from the single-threaded run of the same history: %s", i, nthreads, first_diff(rdump[i], th[i].dump).c_str());
    CHECK(c, rxml[i] == th[i].xml, "independent", "thread %u of %u: the XML export differs from the single-threaded run of the same history", i, nthreads);
  }
  if (nloaded >= 2 && anystruct) c.nontrivial();
  c.cls(strf("threads:%u", nthreads).c_str());
  if (g_keepalive) { c.attempt("export of the topology the main thread keeps, after all threads ended"); (void)export_xml(g_keepalive, 0); hwloc_topology_destroy(g_keepalive); }
}

bool h_named(const std::string &name, Case &c) {
  if (name == "F-C17-b") {   // open: concurrent native discoveries (distinct topologies) race on the static caches of hwloc__read_path_as_cpumask()
    c.desc("warm start (one native load, XML export/import), then 4 threads each loading its own native topology 3 times");
    warm_start(false); { hwloc_topology_t t; hwloc_topology_init(&t); hwloc_topology_load(t); hwloc_topology_destroy(t); }
    struct L { static void *run(void *arg) { Barrier *b = (Barrier *)arg; b->wait(); for (int k = 0; k < 3; k++) { hwloc_topology_t t; hwloc_topology_init(&t); hwloc_topology_load(t); hwloc_topology_destroy(t); } return NULL; } };
    Barrier bar(4); pthread_t th[4]; for (auto &x : th) pthread_create(&x, NULL, L::run, &bar); for (auto &x : th) pthread_join(x, NULL); return true;
  }
  return false;
}
#endif
