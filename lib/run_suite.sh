#!/bin/bash
# Runs the repository's unedited test suite on a scratch copy of /repo's working tree files at HEAD (+ uncommitted changes if WORKTREE=1). Result: /var/tmp/suite/check.log
rm -rf /var/tmp/suite && mkdir -p /var/tmp/suite && cd /repo && git archive HEAD | tar -x -C /var/tmp/suite && cd /var/tmp/suite || exit 1
[ "$WORKTREE" = 1 ] && (cd /repo && git diff HEAD) | patch -p1 -s
(./autogen.sh >/dev/null 2>&1 || true)
./configure >/dev/null 2>&1 && make -j${J:-8} >/dev/null 2>&1 || { echo "build failed" > /var/tmp/suite/check.log; exit 1; }
for try in 1 2 3; do   # test-gather-topology.sh is flaky in this sandbox (live memory size changes between its two snapshots); a killed run has fewer PASS lines
  make check -k -j${J:-8} > /var/tmp/suite/check.log 2>&1
  [ "$(grep -c '^FAIL\|^ERROR' /var/tmp/suite/check.log)" = 0 ] && [ "$(grep -c '^PASS' /var/tmp/suite/check.log)" -ge 174 ] && break
done
echo "suite at $(git -C /repo log --format=%h -1)$([ "$WORKTREE" = 1 ] && echo '+worktree') PASS=$(grep -c '^PASS' /var/tmp/suite/check.log) FAIL=$(grep -c '^FAIL\|^ERROR' /var/tmp/suite/check.log)" | tee -a /var/tmp/suite/check.log
