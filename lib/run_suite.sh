#!/bin/bash
# Runs the repository's unedited test suite on a scratch copy of /repo's HEAD (used after fix: commits). Result: /var/tmp/suite/check.log
rm -rf /var/tmp/suite && mkdir -p /var/tmp/suite && cd /repo && git archive HEAD | tar -x -C /var/tmp/suite && cd /var/tmp/suite || exit 1
(./autogen.sh >/dev/null 2>&1 || true)
./configure >/dev/null 2>&1 && make -j${J:-8} >/dev/null 2>&1 && make check -j${J:-8} > /var/tmp/suite/check.log 2>&1
echo "suite exit $? at $(git -C /repo log --format=%h -1) PASS=$(grep -c '^PASS' /var/tmp/suite/check.log) FAIL=$(grep -c '^FAIL' /var/tmp/suite/check.log)" >> /var/tmp/suite/check.log
