#!/usr/bin/env python3
"""Re-resolve the commit hashes of fixed entries in known_findings.json from their stored commit subjects (after a history edit of /repo)."""
import json, subprocess
p = '/verif/known_findings.json'
k = json.load(open(p))
for f in k['findings']:
    if f['status'] != 'fixed' or 'subject' not in f:
        continue
    c = subprocess.check_output(['git', '-C', '/repo', 'log', '--format=%h', '-1', '--fixed-strings', '--grep=' + f['subject']]).decode().strip()
    assert c, f['id']
    if c != f['commit']:
        f['line'] = f['line'].replace(f['commit'], c)
        f['commit'] = c
        print("updated", f['id'], c)
json.dump(k, open(p, 'w'), indent=1)
