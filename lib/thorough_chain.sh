#!/bin/bash
# unchanged tree, every thorough command once -> /var/tmp/thorough.txt
out=/var/tmp/thorough.txt; : > $out
for i in ${@:-$(seq -w 1 20)}; do
  t0=$(date +%s); o=$(cd /verif && ./check C$i --tier thorough 2>&1); rc=$?
  echo "C$i thorough exit=$rc time=$(( $(date +%s) - t0 ))s violations=$(echo "$o" | grep -c '^VIOLATION') :: $(echo "$o" | grep '^\[C' | tail -1 | cut -c1-140)" >> $out
  echo "$o" | grep -A1 '^VIOLATION' | head -6 | cut -c1-400 >> $out
done
echo DONE >> $out
