#!/bin/bash
# lib/try_mut.sh <patch.diff> <check> [seed]  -> runs one check against a patched scratch worktree (no locks, no verification)
pd=$(readlink -f $1); chk=$2; seed=${3:-1}; wt=/var/tmp/try-$$
git -C /repo worktree add -q --detach $wt HEAD || exit 2
git -C $wt apply $pd || { git -C /repo worktree remove --force $wt; exit 2; }
t0=$(date +%s); o=$(cd /verif && VERIF_SEED=$seed VERIF_REPO=$wt ./check $chk 2>&1); rc=$?
echo "try $pd check=$chk seed=$seed exit=$rc time=$(( $(date +%s) - t0 ))s :: $(echo "$o" | grep -c '^VIOLATION') VIOLATION lines"
echo "$o" | grep -A1 '^VIOLATION' | grep -v '^VIOLATION\|^--' | cut -c1-300 | sort | uniq -c | sort -rn | head -4
git -C /repo worktree remove --force $wt
