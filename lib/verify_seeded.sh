#!/bin/bash
# Confirms a seeded change independently of whoever wrote it.
# usage: lib/verify_seeded.sh <dir with patch.diff and demo.c|demo.sh> [<worktree path the demo may mention>]
# Uses one configured + built scratch copy of /repo's HEAD under /var/tmp/vs (created on first use, rebuilt when HEAD moves):
#   1. demo on the unchanged build must exit 0          2. patch applies, tree compiles
#   3. unedited `make check` passes with the patch       4. demo with the patch exits non-zero
# Prints one line "VERIFY <dir> demo_orig=<rc> build=<rc> suite=PASS:<n>/FAIL:<n> demo_mut=<rc> => OK|REJECT". Always restores the copy.
d=$(readlink -f "$1"); mention=${2:-}
S=/var/tmp/vs${VS_COPY:-}; J=${J:-8}
head=$(git -C /repo rev-parse HEAD)
exec 9>$S.lock; flock 9
if [ ! -f $S/.built ] || [ "$(cat $S/.built)" != "$head" ]; then
  rm -rf $S && mkdir -p $S && (cd /repo && git archive HEAD | tar -x -C $S) && cd $S || exit 2
  (./autogen.sh >/dev/null 2>&1 || true); ./configure >/dev/null 2>&1 && make -j$J >/dev/null 2>&1 || { echo "baseline build failed"; exit 2; }
  for try in 1 2 3; do   # a loaded machine makes test-gather-topology.sh flaky: a run with failures is repeated
    make check -k -j$J > $S/check.base.log 2>&1
    [ "$(grep -c '^FAIL\|^ERROR' $S/check.base.log)" = 0 ] && [ "$(grep -c '^PASS' $S/check.base.log)" -ge ${EXPECT_PASS:-174} ] && break   # (a run killed from outside has no FAIL line either)
  done
  echo "baseline PASS=$(grep -c '^PASS' $S/check.base.log) FAIL=$(grep -c '^FAIL' $S/check.base.log)" > $S/.baseline
  echo $head > $S/.built
fi
cd $S || exit 2
base_pass=$(grep -o 'PASS=[0-9]*' $S/.baseline | cut -d= -f2)
rundemo() { # -> exit status of the demo run in $S
  rm -rf $S/_demo && mkdir $S/_demo
  if [ -f $d/demo.c ] && [ ! -f $d/demo.sh ]; then   # (a demo.sh drives its own helper sources)
    sed "s#${mention:-/nonexistent-mention}#$S#g" $d/demo.c > $S/_demo/demo.c
    gcc -Wall $S/_demo/demo.c -I$S/include -L$S/hwloc/.libs -lhwloc -lpthread -o $S/_demo/demo > $S/_demo/cc.log 2>&1 || { cat $S/_demo/cc.log | head -5; return 250; }
    ( cd $S && LD_LIBRARY_PATH=$S/hwloc/.libs timeout 300 $S/_demo/demo > $S/_demo/out.log 2>&1 ); return $?
  elif [ -f $d/demo.sh ]; then
    for f in $d/demo*; do [ -f "$f" ] && [ "$(basename $f)" != demo.sh ] && sed "s#${mention:-/nonexistent-mention}#$S#g" "$f" > $S/_demo/$(basename $f); done   # helper sources next to the script
    sed "s#${mention:-/nonexistent-mention}#$S#g" $d/demo.sh > $S/_demo/demo.sh
    ( cd $S && LD_LIBRARY_PATH=$S/hwloc/.libs HWLOC_TREE=$S HWLOC_TOP=$S timeout 300 bash $S/_demo/demo.sh > $S/_demo/out.log 2>&1 ); return $?
  fi
  return 251
}
rundemo; r_orig=$?
patch -p1 --dry-run -s < $d/patch.diff >/dev/null 2>&1 || { echo "VERIFY $d patch does not apply => REJECT"; exit 1; }
patch -p1 -s < $d/patch.diff
make -j$J > $S/_build.log 2>&1; r_build=$?
pass=0; fail=0; r_mut=-1
if [ $r_build = 0 ]; then
  for try in 1 2 3; do
    make check -k -j$J > $S/check.mut.log 2>&1
    pass=$(grep -c '^PASS' $S/check.mut.log); fail=$(grep -c '^FAIL\|^ERROR' $S/check.mut.log)
    [ "$fail" = 0 ] && [ "$pass" -ge "$base_pass" ] && break
  done
  [ "$fail" != 0 ] && grep '^FAIL\|^ERROR' $S/check.mut.log | head -5
  rundemo; r_mut=$?
  cp $S/_demo/out.log $d/demo.mut.out 2>/dev/null
fi
patch -p1 -R -s < $d/patch.diff
make -j$J > /dev/null 2>&1
verdict=REJECT
[ $r_orig = 0 ] && [ $r_build = 0 ] && [ "$pass" = "$base_pass" ] && [ "$fail" = 0 ] && [ $r_mut != 0 ] && [ $r_mut != 250 ] && [ $r_mut != 251 ] && verdict=OK
echo "VERIFY $d demo_orig=$r_orig build=$r_build suite=PASS:$pass/FAIL:$fail(base $base_pass) demo_mut=$r_mut => $verdict"
[ $verdict = OK ]
