#!/usr/bin/env python3
"""Regenerates MANIFEST.json from the table below (kept valid at all times)."""
import json, os, sys
VERIF = os.path.dirname(os.path.dirname(os.path.abspath(__file__)))
sys.path.insert(0, os.path.join(VERIF, "lib"))
import claims

props = [json.loads(l)["id"] for l in open(os.path.join(VERIF, "properties.jsonl"))]
checks, na = [], []
for pid in props:
    c = claims.CLAIMS.get(pid)
    if not c:
        na.append({"property_id": pid, "reason": claims.NOT_CLAIMED.get(pid, "check not built yet (construction order in DESIGN.md section 11); nothing is claimed for it")})
        continue
    checks.append({
        "property_id": pid,
        "quick_cmd": "./check %s --tier quick" % pid,
        "thorough_cmd": "./check %s --tier thorough" % pid,
        "evidence_file": "/verif/evidence/%s.json" % pid,
        "replay_cmd_template": "./check %s --replay {path}" % pid,
        "engine": c["engine"],
        "level_claimed": {"category": "exploration", "text": c["text"], "design_ref": "DESIGN.md section 4, " + pid},
        "level_note": c["note"],
        "technique": c["technique"],
    })
m = {
    "version": 1,
    "setup_cmd": "./check --setup",
    "hooks": {
        "guard": "HWLOC_VERIF",
        "enable": "no hook exists: the checks compile /repo's hwloc/*.c directly with clang sanitizers and -DHWLOC_VERIF=1 (which nothing in /repo tests); assertion failures, syscalls and XML backend choice are observed from outside (fork isolation, symbol interposition, HWLOC_LIBXML* variables)",
        "baseline_off_cmd": "cd /repo && make -j16 >/dev/null && make check -j16",
        "source_commits": [],
        "add_only": True,
    },
    "engines": claims.ENGINES,
    "checks": checks,
    "not_applicable": na,
    "notes": "Technique family: property-based testing and fuzzing (rapidcheck-generated integer tapes decoded into structured cases, every case executed in a forked child under ASan/UBSan/LSan; libFuzzer targets with in-target oracles; TSan runs). Known findings: /verif/known_findings.json. fix: commits in /repo repair genuine defects found by these checks; each is re-checked by a named regression case in /verif/regress.",
}
with open(os.path.join(VERIF, "MANIFEST.json"), "w") as f:
    json.dump(m, f, indent=1)
print("MANIFEST.json: %d checks, %d not claimed" % (len(checks), len(na)))
