#!/usr/bin/env python3
"""Rewrites the findings table of DESIGN.md 12.2 from known_findings.json."""
import json, os, re, subprocess
V = os.path.dirname(os.path.dirname(os.path.abspath(__file__)))
k = json.load(open(os.path.join(V, "known_findings.json")))["findings"]
rows = ["| id | property | status | what fails | reproducer |", "|---|---|---|---|---|"]
for f in k:
    rows.append("| %s | %s | %s | %s | %s |" % (f["id"], f["property"], "open" if f["status"] == "open" else "fixed `%s`" % f.get("commit", "?"), f["title"].replace("|", "/")[:260], f.get("replay", "")))
p = os.path.join(V, "DESIGN.md")
s = open(p).read()
m = re.search(r"\| id \| property \| status \| what fails \| reproducer \|\n(?:\|.*\n)+", s)
assert m
s = s[:m.start()] + "\n".join(rows) + "\n" + s[m.end():]
nfix = subprocess.run(["git", "-C", "/repo", "log", "--oneline", "--grep=^fix:", "47e783d..HEAD"], capture_output=True, text=True).stdout.count("\n")
last = subprocess.run(["git", "-C", "/repo", "log", "--format=%h", "-1"], capture_output=True, text=True).stdout.strip()
s = re.sub(r"### 12\.2 Findings \(generated from `known_findings\.json`;[^\n]*\)", "### 12.2 Findings (generated from `known_findings.json`: %d entries, %d open; %d `fix:` commits in `/repo`, the unedited suite passes on the last one, %s, 174 PASS)" % (len(k), sum(1 for f in k if f["status"] == "open"), nfix, last), s)
open(p, "w").write(s)
print("DESIGN.md 12.2: %d findings, %d fix commits" % (len(k), nfix))
