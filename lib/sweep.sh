#!/bin/bash
# unchanged tree, every check, the given seeds (default 2 3), quick tier -> /var/tmp/sweep.txt ; a non-zero exit or a VIOLATION line is a broken check
out=/var/tmp/sweep.txt; : > $out
seeds=${@:-2 3}
for s in $seeds; do for i in $(seq -w 1 20); do
  t0=$(date +%s); o=$(cd /verif && VERIF_SEED=$s ./check C$i 2>&1); rc=$?
  echo "C$i seed=$s exit=$rc time=$(( $(date +%s) - t0 ))s violations=$(echo "$o" | grep -c '^VIOLATION') :: $(echo "$o" | grep '^\[C' | tail -1 | cut -c1-140)" >> $out
  echo "$o" | grep -A1 '^VIOLATION' | head -4 | cut -c1-300 >> $out
done; done
echo DONE >> $out
