"""Driver library: content-keyed builds of /repo, worker fan-out, replay tier, known findings, evidence."""
import os, sys, json, time, hashlib, subprocess, shutil, glob, fcntl, re, signal
from concurrent.futures import ThreadPoolExecutor

VERIF = os.path.dirname(os.path.dirname(os.path.abspath(__file__)))
REPO = os.environ.get("VERIF_REPO") or "/repo"
BUILD = os.path.join(VERIF, "build")
NCPU = os.cpu_count() or 4

LIB_SOURCES = ("topology traversal distances memattrs cpukinds components bind bitmap pci-common diff shmem misc base64 "
               "topology-noos topology-synthetic topology-xml topology-xml-nolibxml topology-xml-libxml topology-pci "
               "topology-linux topology-hardwired topology-x86").split()
SAN_COMMON = "-fsanitize=address,undefined -fno-sanitize=pointer-overflow,nonnull-attribute -fno-sanitize-recover=undefined"
FLAVOURS = {
    # fuzzer-no-link: the same archive serves rapidcheck harnesses, libFuzzer targets and the CLI tools
    "san": "-g -O1 -fno-omit-frame-pointer -fsanitize=address,undefined,fuzzer-no-link -fno-sanitize=pointer-overflow,nonnull-attribute -fno-sanitize-recover=undefined",
    "tsan": "-g -O1 -fno-omit-frame-pointer -fsanitize=thread",
}
PER_FILE_FLAGS = {"distances": "-fno-sanitize=null,object-size"}  # offsetof-by-NULL idiom, DESIGN.md 2.1 / pitfall 9.17
LIB_DEFS = "-DHWLOC_INSIDE_LIBHWLOC -DHWLOC_PLUGINS_PATH=\"\" -DRUNSTATEDIR=\"/var/run\""
LINK_LIBS = "-lxml2 -lpciaccess -ludev -lm -lpthread"
GUARD = "HWLOC_VERIF"


def log(*a):
    print(*a, file=sys.stderr, flush=True)


def sha(*chunks):
    h = hashlib.sha256()
    for c in chunks:
        h.update(c if isinstance(c, bytes) else c.encode())
    return h.hexdigest()


def file_hash(paths):
    h = hashlib.sha256()
    for p in sorted(paths):
        h.update(p.encode())
        try:
            with open(p, "rb") as f:
                h.update(f.read())
        except OSError:
            h.update(b"<missing>")
    return h.hexdigest()


def repo_source_files():
    fs = glob.glob(REPO + "/hwloc/*.c") + glob.glob(REPO + "/hwloc/*.h")
    for root, _, names in os.walk(REPO + "/include"):
        fs += [os.path.join(root, n) for n in names if n.endswith(".h")]
    return fs


def utils_source_files():
    fs = []
    for root, _, names in os.walk(REPO + "/utils"):
        fs += [os.path.join(root, n) for n in names if n.endswith((".c", ".h"))]
    return fs


def include_flags():
    inc = ["-I%s/include" % REPO, "-I%s/hwloc" % REPO]
    autogen = "repo"
    need = [REPO + "/include/private/autogen/config.h", REPO + "/include/hwloc/autogen/config.h", REPO + "/hwloc/static-components.h"]
    if not all(os.path.exists(p) for p in need):
        autogen = "verif/support/autogen (fallback copies)"
    # fallback copies are searched last: they are used only for files /repo lacks
    inc += ["-I%s/support/autogen/include" % VERIF, "-I%s/support/autogen/hwloc" % VERIF, "-I/usr/include/libxml2"]
    return inc, autogen


class Lock:
    def __init__(self, name=".lock"):
        self.name = name

    def __enter__(self):
        os.makedirs(BUILD, exist_ok=True)
        self.f = open(os.path.join(BUILD, self.name), "w")
        fcntl.flock(self.f, fcntl.LOCK_EX)
        return self

    def __exit__(self, *a):
        fcntl.flock(self.f, fcntl.LOCK_UN)
        self.f.close()


def run(cmd, **kw):
    r = subprocess.run(cmd, stdout=subprocess.PIPE, stderr=subprocess.STDOUT, text=True, **kw)
    return r.returncode, r.stdout


_libkey = None


def lib_key():
    global _libkey
    if _libkey is None:
        _libkey = sha(file_hash(repo_source_files()), json.dumps(FLAVOURS, sort_keys=True), json.dumps(PER_FILE_FLAGS), LIB_DEFS,
                      file_hash(glob.glob(VERIF + "/support/autogen/**/*.h", recursive=True)))[:20]
    return _libkey


def keydir():
    d = os.path.join(BUILD, "tree-" + lib_key())
    os.makedirs(d, exist_ok=True)
    os.utime(d, None)
    return d


def prune_builds(keep=5):
    ds = sorted(glob.glob(BUILD + "/tree-*"), key=os.path.getmtime, reverse=True)
    for d in ds[keep:]:
        shutil.rmtree(d, ignore_errors=True)


def ensure_lib(flavour):
    """libhwloc.a of the current working tree, compiled with the flavour's instrumentation."""
    out = os.path.join(keydir(), flavour, "libhwloc.a")
    if os.path.exists(out):
        return out
    with Lock():
        if os.path.exists(out):
            return out
        t0 = time.time()
        odir = os.path.dirname(out)
        os.makedirs(odir, exist_ok=True)
        inc, _ = include_flags()

        def cc(name):
            cmd = ["clang"] + FLAVOURS[flavour].split() + PER_FILE_FLAGS.get(name, "").split() + ["-D" + GUARD + "=1"] + \
                  ["-DHWLOC_INSIDE_LIBHWLOC", "-DHWLOC_PLUGINS_PATH=\"\"", "-DRUNSTATEDIR=\"/var/run\""] + inc + \
                  ["-c", "%s/hwloc/%s.c" % (REPO, name), "-o", "%s/%s.o" % (odir, name)]
            return name, run(cmd)
        with ThreadPoolExecutor(NCPU) as ex:
            res = list(ex.map(cc, LIB_SOURCES))
        bad = [(n, o) for n, (rc, o) in res if rc != 0]
        if bad:
            for n, o in bad:
                log("BUILD FAILED %s.c:\n%s" % (n, o[-3000:]))
            raise SystemExit(3)
        tmp = out + ".tmp"
        rc, o = run(["ar", "rcs", tmp] + ["%s/%s.o" % (odir, n) for n in LIB_SOURCES])
        if rc:
            log(o)
            raise SystemExit(3)
        os.rename(tmp, out)
        log("[build] %s library for tree %s in %.1fs" % (flavour, lib_key(), time.time() - t0))
        prune_builds()
    return out


def common_hash():
    return file_hash(glob.glob(VERIF + "/src/common/*"))


def ensure_engine(tsan=False):
    """engine.o: the only TU that includes rapidcheck (depends on /verif sources only)."""
    flags = "-fsanitize=thread -DVERIF_TSAN=1" if tsan else SAN_COMMON
    d = os.path.join(BUILD, "engine-" + sha(file_hash([VERIF + "/src/common/engine.cpp", VERIF + "/src/common/engine.h"]), flags)[:16])
    out = os.path.join(d, "engine.o")
    if os.path.exists(out):
        return out
    with Lock():
        if os.path.exists(out):
            return out
        os.makedirs(d, exist_ok=True)
        t0 = time.time()
        rc, o = run(["clang++", "-std=gnu++17", "-g", "-O1", "-fno-omit-frame-pointer"] + flags.split() + ["-c", VERIF + "/src/common/engine.cpp", "-o", out + ".tmp"])
        if rc:
            log("BUILD FAILED engine.cpp:\n" + o[-4000:])
            raise SystemExit(3)
        os.rename(out + ".tmp", out)
        for old in sorted(glob.glob(BUILD + "/engine-*"), key=os.path.getmtime, reverse=True)[4:]:
            shutil.rmtree(old, ignore_errors=True)
        log("[build] engine.o in %.1fs" % (time.time() - t0))
    return out


def ensure_harness(name, kind="rcfork", extra_flags=(), source=None):
    """kind: rcfork (engine + san lib), fuzz (libFuzzer + san lib), tsan (plain main + tsan lib), plain (san lib, own main)"""
    src = None
    for ext in (".cpp", ".c"):
        for sub in ("src", "src/fuzz"):
            p = os.path.join(VERIF, sub, (source or name) + ext)
            if os.path.exists(p):
                src = p
    if not src:
        raise SystemExit("no source for harness " + name)
    h = sha(file_hash([src]), common_hash(), kind, " ".join(extra_flags), "no-enum-san2")[:16]
    out = os.path.join(keydir(), "bin", "%s-%s" % (name, h))
    if os.path.exists(out):
        return out
    lib = ensure_lib("tsan" if kind in ("tsan", "rcfork-tsan") else "san")
    eng = ensure_engine() if kind == "rcfork" else ensure_engine(tsan=True) if kind == "rcfork-tsan" else None
    with Lock(".lock-" + name):
        if os.path.exists(out):
            return out
        os.makedirs(os.path.dirname(out), exist_ok=True)
        for old in glob.glob(os.path.join(keydir(), "bin", name + "-*")):
            os.unlink(old)
        inc, _ = include_flags()
        cxx = src.endswith(".cpp")
        t0 = time.time()
        base = ["clang++", "-std=gnu++17"] if cxx else ["clang"]
        base += ["-g", "-O1", "-fno-omit-frame-pointer", "-I" + VERIF + "/src/common", "-D" + GUARD + "=1"] + inc + list(extra_flags)
        late = []
        if cxx and kind not in ("tsan", "rcfork-tsan"):
            # hwloc's inline helpers document "(hwloc_obj_cache_type_t) -1"; loading such a value is only undefined in C++ (the harness language), not in C
            late = ["-fno-sanitize=enum"]   # must come after -fsanitize=undefined
        if kind == "rcfork":
            cmd = base + SAN_COMMON.split() + [src, eng, lib, "-lrapidcheck"] + LINK_LIBS.split()
        elif kind == "fuzz":
            cmd = base + ["-fsanitize=fuzzer,address,undefined", "-fno-sanitize=pointer-overflow,nonnull-attribute", "-fno-sanitize-recover=undefined", src, lib] + LINK_LIBS.split()
        elif kind == "tsan":
            cmd = base + ["-fsanitize=thread", src, lib] + LINK_LIBS.split()
        elif kind == "rcfork-tsan":
            cmd = base + ["-fsanitize=thread", "-DVERIF_TSAN=1", src, eng, lib, "-lrapidcheck"] + LINK_LIBS.split()
        else:
            cmd = base + SAN_COMMON.split() + [src, lib] + LINK_LIBS.split()
        rc, o = run(cmd + late + ["-o", out + ".tmp"])
        if rc:
            log("BUILD FAILED %s:\n%s" % (src, o[-6000:]))
            raise SystemExit(3)
        os.rename(out + ".tmp", out)
        log("[build] %s (%s) in %.1fs" % (name, kind, time.time() - t0))
    return out


TOOLS = {
    "hwloc-calc": ["utils/hwloc/hwloc-calc.c"],
    "hwloc-distrib": ["utils/hwloc/hwloc-distrib.c"],
    "hwloc-diff": ["utils/hwloc/hwloc-diff.c"],
    "hwloc-patch": ["utils/hwloc/hwloc-patch.c"],
    "hwloc-info": ["utils/hwloc/hwloc-info.c"],
    "lstopo-no-graphics": ["utils/lstopo/" + f for f in ("lstopo.c", "lstopo-draw.c", "lstopo-tikz.c", "lstopo-fig.c", "lstopo-svg.c", "lstopo-ascii.c", "lstopo-text.c", "lstopo-xml.c", "lstopo-shmem.c")] + ["utils/hwloc/common-ps.c"],
}


def ensure_tool(name):
    """a command-line tool of /repo/utils compiled with the same sanitizers against the san library (C20)"""
    out = os.path.join(keydir(), "tools", name)
    if os.path.exists(out):
        return out
    lib = ensure_lib("san")
    with Lock(".lock-tool-" + name):
        if os.path.exists(out):
            return out
        os.makedirs(os.path.dirname(out), exist_ok=True)
        inc, _ = include_flags()
        t0 = time.time()
        cmd = ["clang", "-g", "-O1", "-fno-omit-frame-pointer", "-DHAVE_CONFIG_H", "-w", "-I%s/utils/hwloc" % REPO, "-I%s/utils/lstopo" % REPO] + inc + SAN_COMMON.split() + \
              [os.path.join(REPO, f) for f in TOOLS[name]] + [lib] + LINK_LIBS.split() + ["-lncursesw", "-o", out + ".tmp"]
        rc, o = run(cmd)
        if rc:
            log("BUILD FAILED tool %s:\n%s" % (name, o[-4000:]))
            raise SystemExit(3)
        os.rename(out + ".tmp", out)
        log("[build] tool %s in %.1fs" % (name, time.time() - t0))
    return out


# ---------------------------------------------------------------------------------------------------------
def canon_harness(h):
    """findings and replay files name a harness by its descriptive alias (c05_xml), jobs by the binary (c05)"""
    try:
        import props
        return props.ALIASES.get(h, h)
    except Exception:
        return h


def load_known():
    p = os.path.join(VERIF, "known_findings.json")
    if not os.path.exists(p):
        return []
    with open(p) as f:
        return json.load(f).get("findings", [])


def parse_replay_header(path):
    info = {"harness": None, "env": {}}
    try:
        with open(path, errors="replace") as f:
            for line in f:
                if not line.startswith("#"):
                    break
                m = re.search(r"harness=(\S+)", line)
                if m and "verif-replay" in line:
                    info["harness"] = m.group(1)
                if line.startswith("# env:"):
                    for kv in line[6:].split():
                        if "=" in kv:
                            k, v = kv.split("=", 1)
                            info["env"][k] = v
    except OSError:
        pass
    return info


def base_env():
    env = dict(os.environ)
    env["VERIF_REPO"] = REPO
    env.setdefault("HWLOC_DONT_ADD_VERSION_INFO", "1")
    env.pop("RC_PARAMS", None)
    return env


class Ctx:
    """state of one check run"""

    def __init__(self, pid, tier, seed):
        self.pid, self.tier, self.seed = pid, tier, seed
        self.t0 = time.time()
        self.work = os.path.join(VERIF, "work", "%s.%d" % (pid, os.getpid()))
        os.makedirs(self.work, exist_ok=True)
        self.known = [k for k in load_known() if k.get("property") == pid]
        self.violations = []      # (description, replay path)
        self.known_lines = []     # KNOWN-FINDING lines
        self.replayed = []
        self.summaries = []       # worker summaries
        self.extra = {}           # additional evidence keys
        self.inconclusive = []

    def quick(self):
        return self.tier == "quick"

    def pick(self, quick, thorough):
        return quick if self.tier == "quick" else thorough

    def open_known(self):
        return [k for k in self.known if k.get("status") == "open"]

    def known_args(self, harness=None):
        a = []
        for k in self.open_known():
            if k.get("signature") and (not harness or not k.get("harness") or canon_harness(k.get("harness")) == canon_harness(harness)):
                a += ["--known", "%s=%s" % (k["id"], k["signature"])]
        return a

    def save_violation(self, src, tag):
        d = os.path.join(VERIF, "violations", self.pid)
        os.makedirs(d, exist_ok=True)
        dst = os.path.join(d, "%s-seed%d-%s" % (self.tier, self.seed, tag))
        shutil.copyfile(src, dst)
        return dst

    def cleanup(self):
        shutil.rmtree(self.work, ignore_errors=True)


def run_replay_tier(ctx, jobs_by_harness):
    """Replay every file under regress/<ID>/ through the non-rapidcheck path."""
    files = sorted(glob.glob(os.path.join(VERIF, "regress", ctx.pid, "*.replay")))
    by_replay = {os.path.normpath(os.path.join(VERIF, k["replay"])): k for k in ctx.known if k.get("replay")}
    for f in files:
        info = parse_replay_header(f)
        hname = info["harness"]
        if hname not in jobs_by_harness:
            ctx.replayed.append({"file": os.path.relpath(f, VERIF), "verdict": "skipped (unknown harness %s)" % hname})
            continue
        binp = jobs_by_harness[hname]
        env = base_env()
        env.update(info["env"])
        outj = os.path.join(ctx.work, "replay.json")
        wd = os.path.join(ctx.work, "replay")
        r = subprocess.run([binp, "--replay", f, "--out", outj, "--workdir", wd, "--repeat", "2"], env=env, stdout=subprocess.PIPE, stderr=subprocess.STDOUT, text=True)
        try:
            with open(outj) as fh:
                res = json.load(fh)
        except Exception:
            res = {"verdict": "error", "signature": "driver:no-output", "msg": r.stdout[-500:]}
        k = by_replay.get(os.path.normpath(f))
        entry = {"file": os.path.relpath(f, VERIF), "verdict": res["verdict"], "signature": res.get("signature", "")}
        if k:
            entry["finding"] = k["id"]
            entry["status"] = k["status"]
        ctx.replayed.append(entry)
        if res["verdict"] == "fail":
            if k and k["status"] == "open":
                ctx.known_lines.append("KNOWN-FINDING: property=%s %s: %s" % (ctx.pid, k["id"], k["title"]))
            else:
                what = ("fixed finding %s reproduces again" % k["id"]) if k else "regression case fails"
                ctx.violations.append((what + " [" + res.get("signature", "") + "]", f))
        elif res["verdict"] in ("flaky", "error"):
            ctx.inconclusive.append("replay %s: %s" % (os.path.basename(f), res["verdict"]))


def run_workers(ctx, job):
    """job: dict(harness, bin, cases, workers, max_ops (opt), env (opt), tag (opt), budget_s (opt))"""
    nw = max(1, job["workers"])
    procs = []
    tag = job.get("tag", job["harness"])
    for w in range(nw):
        seed = ctx.seed * 1000003 + job.get("seed_offset", 0) * 1009 + w
        wd = os.path.join(ctx.work, "%s.w%d" % (tag, w))
        os.makedirs(wd, exist_ok=True)
        outj = os.path.join(wd, "summary.json")
        failp = os.path.join(wd, "fail.replay")
        cmd = [job["bin"], "--seed", str(seed), "--cases", str(job["cases"]), "--out", outj, "--fail-out", failp, "--workdir", wd]
        if job.get("max_ops") is not None:
            cmd += ["--max-ops", str(job["max_ops"])]
        if job.get("budget_s"):
            cmd += ["--budget-s", str(job["budget_s"])]
        cmd += ctx.known_args(job["harness"])
        env = base_env()
        jenv = dict(job.get("env", {}))
        if job.get("worker_env"):
            jenv.update(job["worker_env"](w))     # per-worker environment (C18: the snapshots this worker owns)
        env.update(jenv)
        lf = open(os.path.join(wd, "log.txt"), "w")
        procs.append((subprocess.Popen(cmd, env=env, stdout=lf, stderr=subprocess.STDOUT), outj, failp, wd, lf, seed, jenv))
    for p, outj, failp, wd, lf, seed, jenv in procs:
        rc = p.wait()
        lf.close()
        try:
            with open(outj) as fh:
                s = json.load(fh)
        except Exception:
            with open(os.path.join(wd, "log.txt"), errors="replace") as fh:
                tail = fh.read()[-1500:]
            ctx.inconclusive.append("worker %s seed %d produced no summary (rc=%d): %s" % (tag, seed, rc, tail))
            # a harness that dies is a broken check, not a pass
            ctx.violations.append(("worker %s crashed without summary (rc=%d)" % (tag, rc), os.path.join(wd, "log.txt")))
            continue
        s["job"] = tag
        s["env"] = jenv
        ctx.summaries.append(s)
        fl = s.get("failure")
        if fl:
            if fl["verdict"] == "confirmed":
                if jenv:
                    # record the environment the case needs
                    # (descriptions may hold arbitrary bytes: keep them as they are)
                    with open(failp, errors="surrogateescape") as fh:
                        body = fh.read()
                    lines = body.split("\n", 1)
                    body = lines[0] + "\n# env: " + " ".join("%s=%s" % kv for kv in sorted(jenv.items())) + "\n" + (lines[1] if len(lines) > 1 else "")
                    with open(failp, "w", errors="surrogateescape") as fh:
                        fh.write(body)
                dst = ctx.save_violation(failp, "%s-w%d.replay" % (tag, seed % 1000003))
                ctx.violations.append(("%s: %s" % (fl["signature"], fl["msg"][:300].replace("\n", " | ")), dst))
            elif fl["verdict"] == "known":
                pass   # the shrunk case turned out to be a listed finding (reported by the replay tier)
            else:
                ctx.inconclusive.append("flaky failure in %s seed %d: %s" % (tag, seed, fl["signature"]))


def classify_fuzz_output(out):
    """signature of a failing libFuzzer run (same vocabulary as the rcfork engine)"""
    m = re.search(r"ORACLE-FAIL rule=(\S+?): ([^\n]*)", out)
    if m:
        return "oracle:" + m.group(1), m.group(2)
    m = re.search(r"([A-Za-z0-9_]+)\([^\n]*\): Assertion `([^\n]*)' failed", out)
    if m:
        return "assert:%s:%s" % (m.group(1), m.group(2)), m.group(0)
    m = re.search(r"ERROR: AddressSanitizer: ([A-Za-z0-9_-]+)", out)
    if m:
        fr = re.search(r"#[0-9]+ 0x[0-9a-f]+ in ([A-Za-z0-9_]+) [^\n]*/(hwloc|include|utils)/[^\n]*", out[m.start():])
        return "asan:%s:%s" % (m.group(1), fr.group(1) if fr else "?"), out[m.start():m.start() + 1500]
    m = re.search(r"([A-Za-z0-9_.+-]+):[0-9]+:[0-9]+: runtime error: ([^\n]*)", out)
    if m:
        return "ubsan:%s:%s" % (m.group(1), re.sub(r"[0-9]+", "N", m.group(2))), m.group(0)
    m = re.search(r"ERROR: LeakSanitizer: detected memory leaks", out)
    if m:
        fr = re.search(r"#[0-9]+ 0x[0-9a-f]+ in ([A-Za-z0-9_]+) [^\n]*/(hwloc|include|utils)/[^\n]*", out[m.start():])
        return "leak:%s" % (fr.group(1) if fr else "?"), out[m.start():m.start() + 1500]
    if "ERROR: libFuzzer: timeout" in out:
        return "hang", "libFuzzer timeout"
    m = re.search(r"ERROR: libFuzzer: ([^\n]*)", out)
    if m:
        return "libfuzzer:" + m.group(1), out[m.start():m.start() + 800]
    return "exit", out[-800:]


def fuzz_replay(binp, path, env, timeout=60, repeat=3):
    """re-run one input; returns (fails, signature, msg)"""
    fails, sig, msg = 0, "", ""
    for _ in range(repeat):
        try:
            r = subprocess.run([binp, "-timeout=%d" % timeout, "-rss_limit_mb=6000", path], env=env, stdout=subprocess.PIPE, stderr=subprocess.STDOUT, text=True, errors="replace", timeout=timeout * 2 + 30)
            if r.returncode != 0:
                fails += 1
                sig, msg = classify_fuzz_output(r.stdout)
        except subprocess.TimeoutExpired:
            fails += 1
            sig, msg = "hang", "wall-clock limit while replaying"
    return fails, sig, msg


def match_known(ctx, sig, msg, harness=None):
    for k in ctx.open_known():
        if k.get("signature") and (not harness or not k.get("harness") or canon_harness(k["harness"]) == canon_harness(harness)):
            if re.search(k["signature"], sig + " :: " + msg):
                return k
    return None


def run_fuzz(ctx, t):
    """t: dict(name, bin, seconds, workers, seeds=[bytes], dict=path|None, max_len, env, hang_is_violation, empty_corpus_workers)"""
    name, binp = t.get("tag", t["name"]), t["bin"]
    regname = t["name"]
    env0 = base_env()
    env0.update(t.get("env", {}))
    # replay tier for raw artifacts
    by_replay = {os.path.normpath(os.path.join(VERIF, k["replay"])): k for k in ctx.known if k.get("replay")}
    for f in sorted(glob.glob(os.path.join(VERIF, "regress", ctx.pid, regname, "*"))):
        fails, sig, msg = fuzz_replay(binp, f, env0, repeat=2)
        k = by_replay.get(os.path.normpath(f))
        entry = {"file": os.path.relpath(f, VERIF), "verdict": "fail" if fails == 2 else "flaky" if fails else "pass", "signature": sig}
        if k:
            entry["finding"], entry["status"] = k["id"], k["status"]
        ctx.replayed.append(entry)
        if fails == 2:
            if k and k["status"] == "open":
                ctx.known_lines.append("KNOWN-FINDING: property=%s %s: %s" % (ctx.pid, k["id"], k["title"]))
            else:
                ctx.violations.append((("fixed finding %s reproduces again" % k["id"]) if k else "regression input fails" + " [" + sig + "]", f))
    procs = []
    nw = max(1, t["workers"])
    for w in range(nw):
        wd = os.path.join(ctx.work, "%s.fz%d" % (name, w))
        corpus = os.path.join(wd, "corpus")
        os.makedirs(corpus, exist_ok=True)
        if w >= t.get("empty_corpus_workers", 0):
            for i, sd in enumerate(t.get("seeds", [])):
                with open(os.path.join(corpus, "seed%04d" % i), "wb") as fh:
                    fh.write(sd)
        stats = os.path.join(wd, "stats.json")
        seed = (ctx.seed * 1000003 + t.get("seed_offset", 0) * 1009 + w) % 2147483647 or 1
        cmd = [binp, corpus, "-max_total_time=%d" % t["seconds"], "-seed=%d" % seed, "-artifact_prefix=%s/art-" % wd, "-print_final_stats=1",
               "-max_len=%d" % t.get("max_len", 4096), "-timeout=%d" % t.get("timeout", 25), "-rss_limit_mb=6000", "-use_value_profile=1"]
        if t.get("dict"):
            cmd.append("-dict=" + t["dict"])
        cmd += t.get("args", [])
        env = dict(env0)
        env["VERIF_FUZZ_STATS"] = stats
        lf = open(os.path.join(wd, "log.txt"), "w")
        procs.append((subprocess.Popen(cmd, env=env, stdout=lf, stderr=subprocess.STDOUT), wd, stats, lf, seed, w))
    total_execs, best_distinct, cov, nontrivial_total = 0, 0, 0, 0
    samples, seen_sigs = [], set()
    fz = {"target": name, "workers": nw, "seconds": t["seconds"], "artifacts": {"crash": 0, "leak": 0, "timeout": 0, "oom_or_slow_ignored": 0}, "known_hits": {}, "per_worker": []}
    for p, wd, stats, lf, seed, w in procs:
        rc = p.wait()
        lf.close()
        with open(os.path.join(wd, "log.txt"), errors="replace") as fh:
            logtxt = fh.read()
        m = re.findall(r"stat::number_of_executed_units:\s*(\d+)", logtxt)
        execs = int(m[-1]) if m else 0
        mc = re.findall(r"cov: (\d+)", logtxt)
        c = int(mc[-1]) if mc else 0
        st = {}
        try:
            with open(stats) as fh:
                st = json.load(fh)
        except Exception:
            pass
        if not execs and st.get("execs"):
            execs = st["execs"]
        if not execs:
            m2 = re.findall(r"#(\d+)\s", logtxt)
            execs = int(m2[-1]) if m2 else 0
        total_execs += execs
        cov = max(cov, c)
        best_distinct = max(best_distinct, st.get("distinct_nontrivial", st.get("distinct_accepted", 0)))
        for x in st.get("samples", []):
            if len(samples) < 12 and x not in samples:
                samples.append(x)
        fz["per_worker"].append({"seed": seed, "execs": execs, "cov": c, "rc": rc, "corpus": "empty" if w < t.get("empty_corpus_workers", 0) else "seeded", "stats": {k: v for k, v in st.items() if k != "samples"}})
        for art in sorted(glob.glob(wd + "/art-*")):
            base = os.path.basename(art)
            kind = base.split("-")[1]
            if kind in ("oom", "slow"):
                fz["artifacts"]["oom_or_slow_ignored"] += 1
                continue
            if kind == "timeout":
                fails, sig, msg = fuzz_replay(binp, art, env0, timeout=60)
                if fails < 3 or not t.get("hang_is_violation"):
                    ctx.inconclusive.append("%s: timeout artifact did not confirm as a hang (%d/3)" % (name, fails))
                    continue
                sig = "hang"
            else:
                fails, sig, msg = fuzz_replay(binp, art, env0)
                if fails < 3:
                    ctx.inconclusive.append("%s: artifact %s reproduced %d/3" % (name, base, fails))
                    continue
            fz["artifacts"][kind if kind in fz["artifacts"] else "crash"] += 1
            k = match_known(ctx, sig, msg, name)
            if k:
                fz["known_hits"][k["id"]] = fz["known_hits"].get(k["id"], 0) + 1
                continue
            if sig in seen_sigs:
                continue
            seen_sigs.add(sig)
            dst = ctx.save_violation(art, "%s-%s" % (name, base[4:44]))
            ctx.violations.append(("%s: %s" % (sig, msg[:300].replace("\n", " | ")), dst))
        if rc != 0 and not glob.glob(wd + "/art-*"):
            ctx.inconclusive.append("%s worker %d exited %d without artifact: %s" % (name, w, rc, logtxt[-300:]))
    fz["execs"], fz["cov_edges"], fz["distinct_nontrivial_lower_bound"] = total_execs, cov, best_distinct
    ctx.extra.setdefault("fuzz", []).append(fz)
    ctx.extra["extra_evaluations"] = ctx.extra.get("extra_evaluations", 0) + total_execs
    ctx.extra["extra_distinct_nontrivial"] = ctx.extra.get("extra_distinct_nontrivial", 0) + best_distinct
    ctx.extra.setdefault("extra_samples", []).extend({"fuzz_target": name, "input": x} for x in samples[:6])
    if t.get("rule"):
        ctx.extra["fuzz_rule_" + name] = t["rule"]


def merge_evidence(ctx, rule_extra=""):
    ev = {"property_id": ctx.pid, "tier": ctx.tier, "seed": ctx.seed, "level": "exploration"}
    evaluations = sum(s.get("evaluations", 0) for s in ctx.summaries)
    hashes = set()
    classes, known_hits = {}, {}
    samples = []
    rules = []
    for s in ctx.summaries:
        hashes.update((s.get("job", ""), h) if s.get("hash_scope") == "job" else h for h in s.get("nt_hashes", []))
        for k, v in s.get("classes", {}).items():
            classes[k] = classes.get(k, 0) + v
        for k, v in s.get("known_hits", {}).items():
            known_hits[k] = known_hits.get(k, 0) + v
        if s.get("rule") and s["rule"] not in rules:
            rules.append(s["rule"])
    # samples: a few from the first workers of each job
    seen_jobs = {}
    for s in ctx.summaries:
        j = s.get("job", "")
        if seen_jobs.get(j, 0) >= 2:
            continue
        seen_jobs[j] = seen_jobs.get(j, 0) + 1
        for x in s.get("samples", [])[:3] + s.get("samples", [])[-3:]:
            if len(samples) < 24 and x not in samples:
                samples.append(x)
    cov = {
        "evaluations": evaluations + ctx.extra.get("extra_evaluations", 0),
        "distinct_nontrivial": len(hashes) + ctx.extra.get("extra_distinct_nontrivial", 0),
        "rule": " || ".join(rules) + rule_extra,
        "samples": samples + ctx.extra.get("extra_samples", []),
        "oracle_checks": sum(s.get("oracle_checks", 0) for s in ctx.summaries),
        "nontrivial_total": sum(s.get("nontrivial", 0) for s in ctx.summaries),
        "discarded": sum(s.get("discarded", 0) for s in ctx.summaries),
        "classes": dict(sorted(classes.items())),
        "excluded_known": {k[len("excluded_known:"):]: v for k, v in classes.items() if k.startswith("excluded_known:")},
        "known_finding_hits": known_hits,
        "replayed": ctx.replayed,
        "workers": len(ctx.summaries),
        "worker_seeds": [s.get("seed") for s in ctx.summaries],
        "timeouts_inconclusive": sum(s.get("timeouts_inconclusive", 0) for s in ctx.summaries),
        "skipped_after_budget": sum(s.get("skipped_budget", 0) for s in ctx.summaries),
        "inconclusive": ctx.inconclusive,
        "build_key": lib_key(),
        "repo": REPO,
        "autogen_source": include_flags()[1],
        "known_findings_reported": ctx.known_lines,
        "violations_detail": [{"what": w, "replay": r} for w, r in ctx.violations],
    }
    for k, v in ctx.extra.items():
        if not k.startswith("extra_"):
            cov[k] = v
    ev["coverage"] = cov
    ev["assumptions"] = ctx.extra.get("extra_assumptions", []) + [
        "clang 14 ASan/UBSan/LSan report every memory error, UB and leak they are documented to detect (pointer-overflow and nonnull-attribute disabled, see DESIGN.md 2.1)",
        "rapidcheck generates and shrinks the integer tape; each case is a pure function of the source tree and VERIF_SEED",
        "absence of violations on the explored cases is not a proof of the property",
    ]
    ev["wall_s"] = round(time.time() - ctx.t0, 2)
    ev["violations"] = len(ctx.violations)
    os.makedirs(os.path.join(VERIF, "evidence"), exist_ok=True)
    with open(os.path.join(VERIF, "evidence", ctx.pid + ".json"), "w") as f:
        json.dump(ev, f, indent=1)
    return ev


def finish(ctx):
    ev = merge_evidence(ctx)
    for l in ctx.known_lines:
        print(l)
    for what, rp in ctx.violations:
        print("VIOLATION property=%s replay=%s" % (ctx.pid, rp))
        print("  " + what)
    c = ev["coverage"]
    log("[%s %s seed=%d] evaluations=%d distinct_nontrivial=%d violations=%d known=%d wall=%.1fs" % (
        ctx.pid, ctx.tier, ctx.seed, c["evaluations"], c["distinct_nontrivial"], len(ctx.violations), len(ctx.known_lines), ev["wall_s"]))
    ctx.cleanup()
    return 1 if ctx.violations else 0


# ---------------------------------------------------------------------------------------------------------
def workers_default():
    return int(os.environ.get("VERIF_WORKERS") or NCPU)


def main(argv):
    import props
    if not argv or argv[0] in ("-h", "--help"):
        print(__doc__ or "usage: check <ID>|--setup [--tier quick|thorough] [--replay file]")
        return 2
    if argv[0] == "--setup":
        t0 = time.time()
        ensure_lib("san")
        ensure_engine()
        names = props.all_harnesses()
        with ThreadPoolExecutor(NCPU) as ex:
            list(ex.map(lambda nk: ensure_harness(*nk), names))
        log("[setup] done in %.1fs (tree key %s)" % (time.time() - t0, lib_key()))
        return 0
    pid = argv[0]
    tier = os.environ.get("VERIF_TIER") or "quick"
    replay = None
    i = 1
    while i < len(argv):
        if argv[i] == "--tier":
            tier = argv[i + 1]; i += 2
        elif argv[i] == "--replay":
            replay = argv[i + 1]; i += 2
        elif argv[i] == "--seed":
            os.environ["VERIF_SEED"] = argv[i + 1]; i += 2
        else:
            print("unknown argument " + argv[i]); return 2
    seed = int(os.environ.get("VERIF_SEED") or 1)
    if pid not in props.PROPS:
        print("unknown property " + pid)
        return 2
    ctx = Ctx(pid, tier, seed)
    try:
        if replay:
            return props.replay_one(ctx, replay)
        props.PROPS[pid](ctx)
        return finish(ctx)
    finally:
        ctx.cleanup()
