#!/bin/bash
# round-2 candidates: lib/seeded2_one.sh <ID> <X> [<check> ...]  -> verifies /tmp/mut4/<ID>/out/<X> independently, then runs the property's own
# check (or the given checks) against it in a scratch worktree. Appends to /var/tmp/seeded4.txt.
id=$1; x=$2; shift 2; checks=${@:-$id}
d=/tmp/mut4/$id/out/$x; out=/var/tmp/seeded4.txt
v=$(J=6 VS_COPY=${VS_COPY:-} /verif/lib/verify_seeded.sh $d /tmp/mut4/$id 2>&1 | tail -3 | tr '\n' ' ')
echo "$id/$x $v" >> $out
exec 8>/var/tmp/seeded2-check.lock; flock 8
wt=/var/tmp/seeded4-$id-$x
git -C /repo worktree remove --force $wt >/dev/null 2>&1
git -C /repo worktree add -q --detach $wt HEAD || exit 2
if git -C $wt apply $d/patch.diff; then
  for p in $checks; do
    t0=$(date +%s); o=$(cd /verif && VERIF_REPO=$wt ./check $p 2>&1); rc=$?
    echo "$id/$x check=$p seed=${VERIF_SEED:-1} exit=$rc time=$(( $(date +%s) - t0 ))s :: $(echo "$o" | grep -c '^VIOLATION') VIOLATION lines :: $(echo "$o" | grep -A1 '^VIOLATION' | grep -v '^VIOLATION\|^--' | head -1 | cut -c1-300)" >> $out
    echo "$o" > /var/tmp/seeded4-$id-$x-$p.log
  done
else echo "$id/$x patch does not apply to HEAD" >> $out; fi
git -C /repo worktree remove --force $wt
