#!/usr/bin/env python3
"""Files independently written seeded changes under /verif/seeded/<property>-r<round><X>/ once lib/verify_seeded.sh confirmed them.
usage: lib/file_seeded.py <round> <srcroot (/tmp/mut2)> <results file (/var/tmp/seeded2.txt)>
Keeps patch.diff, the demonstration (demo.c / demo.sh and helpers), README.txt and writes meta.json (property, what it needs, what was run)."""
import sys, os, re, json, shutil, glob

rnd, root, resf = sys.argv[1], sys.argv[2], sys.argv[3]
lines = open(resf, errors="replace").read().splitlines()
ver, chk = {}, {}
for l in lines:
    m = re.match(r"(C\d\d)/([AB]) (.*VERIFY .*)", l)
    if m:
        ver[(m.group(1), m.group(2))] = m.group(3)   # the last verification of a candidate wins
    m = re.match(r"(C\d\d)/([AB]) check=(C\d\d) seed=(\d+) exit=(\d+) time=(\d+)s :: (\d+) VIOLATION lines :: ?(.*)", l)
    if m:
        chk.setdefault((m.group(1), m.group(2)), []).append({"check": m.group(3), "seed": int(m.group(4)), "exit": int(m.group(5)), "seconds": int(m.group(6)), "violation_lines": int(m.group(7)), "first": m.group(8).strip()[:300]})
for (pid, x), v in sorted(ver.items()):
    m = re.search(r"demo_orig=(\S+) build=(\S+) suite=PASS:(\d+)/FAIL:(\d+)\(base (\d+)\) demo_mut=(\S+)", v)
    if not m:
        print("skip", pid, x, v[:80]); continue
    do, b, ps, fl, base, dm = m.groups()
    ok = do == "0" and b == "0" and int(ps) >= 174 and fl == "0" and dm not in ("0", "250", "251", "-1")
    src = os.path.join(root, pid, "out", x)
    dst = "/verif/seeded/%s-r%s%s" % (pid, rnd, x)
    if not ok:
        print("NOT CONFIRMED", pid, x, v[:160]); continue
    os.makedirs(dst, exist_ok=True)
    for f in glob.glob(src + "/*"):
        bn = os.path.basename(f)
        if os.path.isfile(f) and os.path.getsize(f) < 200000 and (bn in ("patch.diff", "README.txt") or bn.startswith("demo")) and not bn.endswith(".out") and os.access(f, os.R_OK):
            if bn == "demo" or bn.endswith(".o"):
                continue
            shutil.copy(f, os.path.join(dst, bn))
    readme = open(os.path.join(src, "README.txt"), errors="replace").read() if os.path.exists(os.path.join(src, "README.txt")) else ""
    files = sorted(set(re.findall(r"^\+\+\+ b/(\S+)", open(os.path.join(src, "patch.diff")).read(), re.M)))
    meta = {"property": pid, "round": int(rnd), "variant": x, "files": files,
            "summary": " ".join(readme.split())[:700],
            "needs": "see README.txt (written by the author of the change: the input shape / call sequence / fault it needs)",
            "confirmed": {"by": "lib/verify_seeded.sh (scratch copy of /repo HEAD, unedited suite, demonstration with and without the patch)", "demo_exit_unchanged": int(do), "builds": True, "suite": "PASS=%s FAIL=%s" % (ps, fl), "demo_exit_with_change": dm},
            "first_run_of_own_check": chk.get((pid, x), [])[:1]}
    json.dump(meta, open(os.path.join(dst, "meta.json"), "w"), indent=1)
    print("filed", dst)
