#!/bin/bash
# Runs one or more checks against a seeded change: scratch worktree of /repo's HEAD + seeded/<id>/patch.diff, VERIF_REPO pointing at it.
# usage: lib/run_seeded.sh <seeded-id> <PROPERTY> [<PROPERTY> ...]   (env: VERIF_TIER, VERIF_SEED)
id=$1; shift
wt=/var/tmp/seeded-$id
git -C /repo worktree remove --force $wt >/dev/null 2>&1
git -C /repo worktree add -q --detach $wt HEAD || exit 2
git -C $wt apply /verif/seeded/$id/patch.diff || { echo "patch does not apply"; git -C /repo worktree remove --force $wt; exit 2; }
for p in "$@"; do
  t0=$(date +%s)
  out=$(cd /verif && VERIF_REPO=$wt ./check $p 2>&1)
  rc=$?
  echo "seeded=$id check=$p tier=${VERIF_TIER:-quick} seed=${VERIF_SEED:-1} exit=$rc time=$(( $(date +%s) - t0 ))s :: $(echo "$out" | grep -c '^VIOLATION') VIOLATION lines"
  echo "$out" | grep -A1 '^VIOLATION' | grep -v '^VIOLATION\|^--' | head -2 | cut -c1-260
done
git -C /repo worktree remove --force $wt
