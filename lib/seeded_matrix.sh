#!/bin/bash
# every seeded change (all rounds: seeded/<dir>/patch.diff) against the check of its own property, quick tier -> seeded/RESULTS.txt
# usage: lib/seeded_matrix.sh [seeds...]   (default: 1)      env ONLY="C05 C05-r2A" restricts to the named directories
out=${OUT:-/verif/seeded/RESULTS.txt}; [ -z "$APPEND" ] && : > $out
seeds=${@:-1}
for d in /verif/seeded/*/; do id=$(basename $d); [ -f $d/patch.diff ] || continue
  [ -n "$ONLY" ] && ! echo " $ONLY " | grep -q " $id " && continue
  prop=${id:0:3}
  for s in $seeds; do VERIF_SEED=$s /verif/lib/run_seeded.sh $id $prop 2>&1 | grep -v "^\[build" >> $out; done
done
echo DONE >> $out
