#!/bin/bash
# every seeded change against the check of its own property, two seeds, quick tier -> seeded/RESULTS.txt
out=/verif/seeded/RESULTS.txt; : > $out
for id in C01 C02 C03 C04 C05 C06 C07 C08 C09 C10 C11 C12 C13 C14 C15 C16 C17 C18 C19 C20; do
  for s in 1 2; do VERIF_SEED=$s /verif/lib/run_seeded.sh $id $id 2>&1 | grep -v "^\[build" >> $out; done
done
echo DONE >> $out
