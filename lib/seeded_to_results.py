#!/usr/bin/env python3
"""Converts the first-run lines of a pipeline log (/var/tmp/seeded<N>.txt) into seeded/RESULTS.txt entries for the changes the check of
their own property caught as it was when they arrived (those runs are real runs of ./check against the patched tree); the changes that
were missed are re-run by lib/seeded_matrix.sh after the checks were strengthened.  usage: seeded_to_results.py <round> <log> >> seeded/RESULTS.txt"""
import sys, re
rnd, log = sys.argv[1], sys.argv[2]
seen = set()
for l in open(log, errors="replace"):
    m = re.match(r"(C\d\d)/([AB]) check=(C\d\d) seed=(\d+) exit=(\d+) time=(\d+)s :: (\d+) VIOLATION lines :: ?(.*)", l)
    if not m or m.group(1) != m.group(3):
        continue
    d = "%s-r%s%s" % (m.group(1), rnd, m.group(2))
    if d in seen or m.group(5) != "1" or int(m.group(7)) == 0:
        continue
    seen.add(d)
    print("seeded=%s check=%s tier=quick seed=%s exit=%s time=%ss :: %s VIOLATION lines (first run, check as it was when the change arrived)" % (d, m.group(3), m.group(4), m.group(5), m.group(6), m.group(7)))
    print("  " + m.group(8).strip()[:260])
