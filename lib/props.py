"""Per-property check definitions: which harnesses run, with which budgets (DESIGN.md section 4 / 10)."""
import os, subprocess, json
import verif as V

# (source name, kind, extra flags) of everything --setup builds
HARNESSES = [
    ("c01", "rcfork", ()),
    ("c02", "rcfork", ()),
    ("c03", "rcfork", ()),
    ("c05", "rcfork", ()),
    ("c06", "rcfork", ()),
    ("c07", "rcfork", ()),
    ("c08", "rcfork", ()),
    ("fz_synthetic", "fuzz", ()),
    ("fz_xml", "fuzz", ()),
    ("fz_xml_file", "fuzz", ("-DVIA_FILE=1",), "fz_xml"),
    ("fz_diffxml", "fuzz", ()),
    ("c09", "rcfork", ()),
    ("c10", "rcfork", ("-ldl",)),
    ("c11", "rcfork", ()),
    ("c12", "rcfork", ()),
    ("fz_typesscanf", "fuzz", ()),
    ("c13", "rcfork", ()),
    ("c14", "rcfork", ()),
    ("c15", "rcfork", ()),
    ("c16", "rcfork", ()),
    ("c19", "rcfork", ()),
    ("c18", "rcfork", ()),
    ("c20", "rcfork", ()),
    ("c17a", "rcfork-tsan", (), "c17"),
    ("c17b", "rcfork-tsan", ("-DC17_PART_B=1",), "c17"),
    ("c04", "rcfork", ()),
    ("fz_bitmap_hwloc", "fuzz", ("-DFMT=0",), "fz_bitmap"),
    ("fz_bitmap_list", "fuzz", ("-DFMT=1",), "fz_bitmap"),
    ("fz_bitmap_taskset", "fuzz", ("-DFMT=2",), "fz_bitmap"),
]


def all_harnesses():
    return HARNESSES


def hbin(name):
    for h in HARNESSES:
        if h[0] == name:
            return V.ensure_harness(*h)
    raise SystemExit("harness %s not registered" % name)


def std_check(ctx, jobs):
    """jobs: list of dict(harness, cases=(quick,thorough), workers=(q,t)|None, max_ops, env, tag, seed_offset)"""
    bins = {}
    for j in jobs:
        j["bin"] = bins.setdefault(j["harness"], hbin(j["harness"]))
    # replay tier: harness name in the replay header is the engine's cfg.name; map both
    by_name = {}
    for j in jobs:
        by_name[j["harness"]] = j["bin"]
        for alias in j.get("aliases", []):
            by_name[alias] = j["bin"]
    V.run_replay_tier(ctx, by_name)
    nw_total = V.workers_default()
    for idx, j in enumerate(jobs):
        job = dict(j)
        job["cases"] = ctx.pick(*j["cases"])
        w = j.get("workers")
        job["workers"] = ctx.pick(*w) if w else nw_total
        job.setdefault("seed_offset", idx)
        V.run_workers(ctx, job)


def std_check_parallel(ctx, jobs):
    """like std_check, but the jobs (e.g. one per backend pairing) run side by side"""
    from concurrent.futures import ThreadPoolExecutor
    bins = {}
    for j in jobs:
        j["bin"] = bins.setdefault(j["harness"], hbin(j["harness"]))
    by_name = {}
    for j in jobs:
        by_name[j["harness"]] = j["bin"]
        for alias in j.get("aliases", []):
            by_name[alias] = j["bin"]
    V.run_replay_tier(ctx, by_name)
    prepared = []
    for idx, j in enumerate(jobs):
        job = dict(j)
        job["cases"] = ctx.pick(*j["cases"])
        job["workers"] = ctx.pick(*j["workers"])
        job.setdefault("seed_offset", idx)
        prepared.append(job)
    with ThreadPoolExecutor(len(prepared)) as ex:
        list(ex.map(lambda job: V.run_workers(ctx, job), prepared))


def replay_one(ctx, path):
    info = V.parse_replay_header(path)
    name = info["harness"]
    src = ALIASES.get(name, name)
    binp = hbin(src)
    env = V.base_env()
    env.update(info["env"])
    wd = os.path.join(ctx.work, "replay")
    r = subprocess.run([binp, "--replay", path, "--workdir", wd, "--repeat", "3"] + ctx.known_args(), env=env)
    if r.returncode:
        print("VIOLATION property=%s replay=%s" % (ctx.pid, path))
    return 1 if r.returncode else 0


# engine cfg.name -> source file name
ALIASES = {"c18_snapshots": "c18", "c20_tools": "c20", "c17_readers": "c17a", "c17_independent": "c17b", "c01_load": "c01", "c02_history": "c02", "c03_bitmap": "c03", "c05_xml": "c05", "c06_xmlmut": "c06", "c07_synthetic": "c07", "c08_restrict": "c08", "c09_helpers": "c09", "c10_binding": "c10", "c11_types": "c11", "c12_dup": "c12", "c13_distances": "c13", "c14_memattrs": "c14", "c15_cpukinds": "c15", "c16_diff": "c16", "c19_shmem": "c19", "c04_strings": "c04"}


def C01(ctx):
    std_check(ctx, [dict(harness="c01", aliases=["c01_load"], cases=(1000, 4000), max_ops=1)])


def C02(ctx):
    std_check(ctx, [dict(harness="c02", aliases=["c02_history"], cases=(450, 1800), max_ops=12)])


def C03(ctx):
    std_check(ctx, [dict(harness="c03", aliases=["c03_bitmap"], cases=(500, 2000), max_ops=24)])


def run_fuzz_targets(ctx, targets):
    """run several libFuzzer targets side by side, splitting the cores"""
    from concurrent.futures import ThreadPoolExecutor
    for i, t in enumerate(targets):
        t["bin"] = hbin(t["name"])
        t["seconds"] = ctx.pick(*t["seconds"])
        t["workers"] = ctx.pick(*t["workers"])
        t.setdefault("seed_offset", 50 + i)
        if not ctx.quick():
            t["empty_corpus_workers"] = t["workers"] // 2   # thorough: both an empty and a seeded corpus (DESIGN 2.2)
    with ThreadPoolExecutor(len(targets)) as ex:
        list(ex.map(lambda t: V.run_fuzz(ctx, t), targets))


def C04(ctx):
    std_check(ctx, [dict(harness="c04", aliases=["c04_strings"], cases=(2200, 8800), max_ops=10)])
    rule = "libFuzzer bytes -> NUL-terminated string parsed from an exactly-sized heap block into fresh/dirty/full destinations; non-trivial = accepted by the parser (distinct accepted inputs counted in-target)"
    run_fuzz_targets(ctx, [
        dict(name="fz_bitmap_hwloc", seconds=(20, 120), workers=(5, 5), max_len=256, rule=rule,
             seeds=[b"0xffffffff,0x00000006,0x00000002", b"0xf...f,0x0000ffff", b"0x0", b"0xf...f", b"0x1,0x0,0x0"]),
        dict(name="fz_bitmap_list", seconds=(20, 120), workers=(5, 5), max_len=256, rule=rule,
             seeds=[b"1,33-34,64-95", b"0-", b"2,4-5,7-", b"", b"0x10-0x20"]),
        dict(name="fz_bitmap_taskset", seconds=(20, 120), workers=(5, 5), max_len=256, rule=rule,
             seeds=[b"0xffffffff0000000600000002", b"0xf...f", b"0xf...f0000ffff", b"0x0", b"ff"]),
    ])


def C08(ctx):
    std_check(ctx, [dict(harness="c08", aliases=["c08_restrict"], cases=(900, 3600), max_ops=3)])


def C12(ctx):
    std_check(ctx, [dict(harness="c12", aliases=["c12_dup"], cases=(200, 800), max_ops=12)])


def C15(ctx):
    std_check(ctx, [dict(harness="c15", aliases=["c15_cpukinds"], cases=(1500, 6000), max_ops=10)])


def C13(ctx):
    std_check(ctx, [dict(harness="c13", aliases=["c13_distances"], cases=(1000, 4000), max_ops=14)])


def C14(ctx):
    std_check(ctx, [dict(harness="c14", aliases=["c14_memattrs"], cases=(700, 2800), max_ops=16)])


def C16(ctx):
    # one job per XML backend (the diff exporters/importers differ): libxml2 and the built-in one
    std_check_parallel(ctx, [dict(harness="c16", aliases=["c16_diff"], tag="c16-libxml", cases=(700, 2800), workers=(8, 8), max_ops=6, env={"HWLOC_LIBXML_EXPORT": "1", "HWLOC_LIBXML_IMPORT": "1"}),
                             dict(harness="c16", aliases=["c16_diff"], tag="c16-nolibxml", cases=(700, 2800), workers=(8, 8), max_ops=6, env={"HWLOC_LIBXML_EXPORT": "0", "HWLOC_LIBXML_IMPORT": "0"})])


def C05(ctx):
    jobs = []
    for e in ("0", "1"):
        for i in ("0", "1"):
            jobs.append(dict(harness="c05", aliases=["c05_xml"], tag="c05-exp%s-imp%s" % (e, i), cases=(450, 1800), workers=(4, 4), max_ops=6,
                             env={"HWLOC_LIBXML_EXPORT": e, "HWLOC_LIBXML_IMPORT": i}))
    std_check_parallel(ctx, jobs)


def xml_seed_dir(ctx, maxsize=100000):
    """seed corpus for the XML fuzz targets: small corpus files x 4 configuration bytes"""
    import glob, shutil
    d = os.path.join(ctx.work, "xmlseeds")
    os.makedirs(d, exist_ok=True)
    seeds = []
    for f in sorted(glob.glob(V.REPO + "/tests/hwloc/xml/*.xml")):
        if os.path.getsize(f) > maxsize:
            continue
        body = open(f, "rb").read()
        for cfg in (0, 9, 18, 27):
            sd = bytes([cfg]) + body
            seeds.append(sd)
            with open(os.path.join(d, "%s.%d" % (os.path.basename(f), cfg)), "wb") as fh:
                fh.write(sd)
    return d, seeds


def C06(ctx):
    jobs = []
    for i in ("0", "1"):
        jobs.append(dict(harness="c06", aliases=["c06_xmlmut"], tag="c06-imp%s" % i, cases=(700, 2800), workers=(4, 5), max_ops=6, env={"HWLOC_LIBXML_IMPORT": i, "HWLOC_LIBXML_EXPORT": i}))
    std_check_parallel(ctx, jobs)
    sd, seeds = xml_seed_dir(ctx)
    os.makedirs(os.path.join(ctx.work, "fztmp"), exist_ok=True)
    rule = "libFuzzer bytes = 1 configuration byte + XML buffer (NUL appended, exactly-sized heap block); two-stage oracle inside the target; non-trivial = load succeeded with a consistent topology and the read-only battery ran (distinct inputs counted in-target); inconsistent loads of non-export documents are counted under F-C06-h"
    dictp = os.path.join(V.VERIF, "support", "xml.dict")
    diffseeds = [b'<?xml version="1.0" encoding="UTF-8"?>\n<!DOCTYPE topologydiff SYSTEM "hwloc2-diff.dtd">\n<topologydiff refname="r">\n  <diff type="0" obj_depth="1" obj_index="0" obj_attr_type="1" obj_attr_name="" obj_attr_oldvalue="nm" obj_attr_newvalue="nm+"/>\n  <diff type="0" obj_depth="3" obj_index="2" obj_attr_type="2" obj_attr_name="k0" obj_attr_oldvalue="v2" obj_attr_newvalue="v3"/>\n  <diff type="0" obj_depth="-3" obj_index="0" obj_attr_type="0" obj_attr_index="0" obj_attr_oldvalue="1073741824" obj_attr_newvalue="4096"/>\n</topologydiff>\n']
    run_fuzz_targets(ctx, [
        dict(name="fz_xml", tag="fz_xml_nolibxml", seconds=(25, 120), workers=(5, 6), max_len=131072, rule=rule, seeds=seeds, dict=dictp, hang_is_violation=True, env={"HWLOC_LIBXML_IMPORT": "0", "HWLOC_LIBXML_EXPORT": "0", "VERIF_SEED_DIR": sd}),
        dict(name="fz_xml", tag="fz_xml_libxml", seconds=(25, 120), workers=(4, 5), max_len=131072, rule=rule, seeds=seeds, dict=dictp, hang_is_violation=True, env={"HWLOC_LIBXML_IMPORT": "1", "HWLOC_LIBXML_EXPORT": "1", "VERIF_SEED_DIR": sd}),
        dict(name="fz_xml_file", seconds=(25, 120), workers=(2, 2), max_len=131072, rule=rule, seeds=seeds, dict=dictp, hang_is_violation=True, env={"HWLOC_LIBXML_IMPORT": "0", "VERIF_SEED_DIR": sd, "VERIF_FUZZ_TMP": os.path.join(ctx.work, "fztmp")}),
        dict(name="fz_diffxml", seconds=(25, 120), workers=(3, 3), max_len=8192, seeds=diffseeds, dict=dictp, hang_is_violation=True, rule="libFuzzer bytes -> hwloc_topology_diff_load_xmlbuffer; non-trivial = the diff loaded (then walked, re-exported, re-loaded, applied with rollback check)"),
    ])


def c18_snapshots():
    """(id, compressed size) of every bundled snapshot, by kind"""
    import glob
    out = {}
    for kind in ("linux", "x86", "x86+linux"):
        fs = sorted(glob.glob(os.path.join(V.REPO, "tests", "hwloc", kind, "*.tar.bz2")))
        out[kind] = [("%s/%s" % (kind, os.path.basename(f)[:-8]), os.path.getsize(f)) for f in fs]
    return out


def C18(ctx):
    snaps = c18_snapshots()
    nw = V.workers_default()
    owned = [[] for _ in range(nw)]
    if ctx.quick():
        # the 32 smallest Linux snapshots rotate over the workers with the seed (2 each), plus one CPUID dump each and the two x86+linux snapshots
        small = [i for i, _ in sorted(snaps["linux"], key=lambda x: x[1])[:32]]
        for w in range(nw):
            for k in range(2):
                owned[w].append(small[(ctx.seed * 5 + w * 2 + k) % len(small)])
            owned[w].append(snaps["x86"][(ctx.seed * 3 + w) % len(snaps["x86"])][0])
        for k, (i, _) in enumerate(snaps["x86+linux"]):
            owned[k % nw].append(i)
    else:
        allsn = sorted(snaps["linux"] + snaps["x86+linux"], key=lambda x: -x[1]) + snaps["x86"]
        for k, (i, _) in enumerate(allsn):
            owned[k % nw].append(i)
    ctx.extra["snapshots"] = {"linux": len(snaps["linux"]), "x86": len(snaps["x86"]), "x86+linux": len(snaps["x86+linux"]), "used_this_run": sorted(set(sum(owned, [])))}
    std_check(ctx, [dict(harness="c18", aliases=["c18_snapshots"], cases=(250, 1000), max_ops=40, worker_env=lambda w: {"VERIF_C18_OWNED": ",".join(owned[w])})])
    if not ctx.quick():
        c18_enumerate(ctx, [i for i, _ in sorted(snaps["linux"], key=lambda x: x[1])[:28]])


def c18_enumerate(ctx, snapshot_ids):
    """thorough only: every single removal under sys/devices/system of the 28 smallest Linux snapshots, and every pair for those with at most 120
    such paths, each with two configurations (named cases enum:<mode>:<k>:<n> of the harness, 16 shares per snapshot and mode)"""
    from concurrent.futures import ThreadPoolExecutor
    binp = hbin("c18")
    shares = 16
    jobs = [(sid, mode, k) for sid in snapshot_ids for mode in (1, 2) for k in range(shares)]
    tot = {"single_removal_sets": 0, "pairwise_removal_sets": 0, "snapshots_single": set(), "snapshots_pairwise": set(), "failures": 0}

    def run(job):
        sid, mode, k = job
        tag = "enum-%s-%d-%d" % (sid.replace("/", "_"), mode, k)
        wd = os.path.join(ctx.work, tag)
        os.makedirs(wd, exist_ok=True)
        rp = os.path.join(wd, "enum.replay")
        with open(rp, "w") as fh:
            fh.write("# verif-replay v1 property=C18 harness=c18_snapshots seed=0\n# env: VERIF_C18_OWNED=%s\nnamed: enum:%d:%d:%d\n" % (sid, mode, k, shares))
        env = V.base_env()
        env.update({"VERIF_C18_OWNED": sid, "VERIF_C18_ENUM_OUT": os.path.join(wd, "enum.json")})
        outj = os.path.join(wd, "out.json")
        subprocess.run([binp, "--replay", rp, "--out", outj, "--workdir", wd, "--repeat", "1"], env=env, stdout=subprocess.PIPE, stderr=subprocess.STDOUT)
        try:
            res = json.load(open(outj))
        except Exception:
            res = {"verdict": "error", "signature": "driver:no-output"}
        try:
            st = json.load(open(os.path.join(wd, "enum.json")))
        except Exception:
            st = None
        shutil_rm = os.path.join(wd, "snaps")
        subprocess.run(["rm", "-rf", shutil_rm])
        return job, res, st, rp

    with ThreadPoolExecutor(V.workers_default()) as ex:
        for job, res, st, rp in ex.map(run, jobs):
            sid, mode, k = job
            if st:
                key = "single_removal_sets" if mode == 1 else "pairwise_removal_sets"
                tot[key] += st["removal_sets_run"]
                if st["removal_sets_run"]:
                    tot["snapshots_single" if mode == 1 else "snapshots_pairwise"].add(sid)
            if res.get("verdict") == "fail":
                tot["failures"] += 1
                dst = ctx.save_violation(rp, "enum-%s-%d-%d.replay" % (sid.replace("/", "_"), mode, k))
                ctx.violations.append(("%s: %s" % (res.get("signature", ""), str(res.get("msg", ""))[:300].replace("\n", " | ")), dst))
            elif res.get("verdict") != "pass":
                ctx.inconclusive.append("enumeration %s mode %d share %d: %s" % (sid, mode, k, res.get("verdict")))
    ctx.extra["exhaustive_slices"] = {"what": "every single removal (and, for snapshots with at most 120 such paths, every pair) among the removable paths under sys/devices/system, x 2 configurations (default; INCLUDE_DISALLOWED + all types kept)",
                                      "single_removal_sets_run": tot["single_removal_sets"], "pairwise_removal_sets_run": tot["pairwise_removal_sets"],
                                      "snapshots_single": sorted(tot["snapshots_single"]), "snapshots_pairwise": sorted(tot["snapshots_pairwise"]), "failures": tot["failures"]}


def C20(ctx):
    tools = None
    for t in V.TOOLS:
        tools = os.path.dirname(V.ensure_tool(t))
    std_check(ctx, [dict(harness="c20", aliases=["c20_tools"], cases=(900, 3600), max_ops=5, env={"VERIF_TOOLS_DIR": tools})])


def C17(ctx):
    # two harnesses built against the ThreadSanitizer flavour of hwloc and of the engine; every case is a forked child, the first TSan report ends it
    std_check_parallel(ctx, [
        dict(harness="c17a", aliases=["c17_readers"], tag="c17-readers", cases=(600, 2400), workers=(10, 10), max_ops=40),
        dict(harness="c17b", aliases=["c17_independent"], tag="c17-independent", cases=(170, 680), workers=(6, 6), max_ops=24),
    ])


def C07(ctx):
    std_check(ctx, [dict(harness="c07", aliases=["c07_synthetic"], cases=(350, 1400), max_ops=1)])
    seeds = [b"pack:2 [numa] l3:2 core:2 pu:2", b"numa:3 pack:2 core:2 pu:1", b"2 3 4 5 6", b"pack:2 core:2 pu:2(indexes=core:pu)", b"Package:1 Group:4 [NUMANode(memory=1GB indexes=1,0,3,2)] [numa] core:4 pu:2(indexes=2*4:4*2)",
             b"(memory=4GB) pack:2 numa:2(memory=512MB memorysidecachesize=16MB) l2:2(size=1MB) pu:2", b"Group:1 Group:1 Group:1 Group:1 Group:1 pu:3"]
    run_fuzz_targets(ctx, [dict(name="fz_synthetic", seconds=(20, 120), workers=(14, 14), max_len=512, seeds=seeds, dict=os.path.join(V.VERIF, "support", "syn.dict"), hang_is_violation=True,
                                rule="libFuzzer bytes -> NUL-terminated description in an exactly-sized heap block; set_synthetic returns 0 or -1/EINVAL, accepted small descriptions load into well-formed topologies and export obeys the length contract; non-trivial = accepted and loaded with depth >= 4 (distinct counted in-target)")])


def C11(ctx):
    std_check(ctx, [dict(harness="c11", aliases=["c11_types"], cases=(120, 480), max_ops=1)])
    run_fuzz_targets(ctx, [dict(name="fz_typesscanf", seconds=(15, 120), workers=(6, 8), max_len=64, seeds=[b"L2iCache", b"OS[GPU,CoProc]", b"Group3", b"HostBridge", b"PCIBridge", b"node", b"pu"],
                                rule="libFuzzer bytes -> hwloc_type_sscanf on an exactly-sized heap block with a guarded attribute buffer; returns 0/-1, a returned type is valid and printing an object of that type/attributes parses back; non-trivial = accepted strings (distinct counted in-target)")])
    ctx.extra["exhaustive_slices"] = {"compare_types": "all %d x %d type pairs" % (20, 20), "parser": "32 names x 255 next bytes x 3 suffixes = 24480 calls", "where": "named case 'exhaustive' in the replay tier (runs on every check) and on a 4% sample of generated cases"}


def C09(ctx):
    std_check(ctx, [dict(harness="c09", aliases=["c09_helpers"], cases=(600, 2400), max_ops=1)])


def C19(ctx):
    std_check(ctx, [dict(harness="c19", aliases=["c19_shmem"], cases=(450, 1800), max_ops=5)])


def C10(ctx):
    std_check(ctx, [dict(harness="c10", aliases=["c10_binding"], cases=(1200, 4800), max_ops=1)])
    ctx.extra["extra_assumptions"] = ["the live round trips (1 case in 8) depend on this sandbox: its kernel, cgroup configuration, allowed CPUs; the recording-mode part is machine independent"]


PROPS = {"C01": C01, "C18": C18, "C17": C17, "C20": C20, "C10": C10, "C19": C19, "C09": C09, "C11": C11, "C07": C07, "C06": C06, "C05": C05, "C16": C16, "C14": C14, "C13": C13, "C15": C15, "C08": C08, "C12": C12, "C02": C02, "C03": C03, "C04": C04}
