"""Per-property check definitions: which harnesses run, with which budgets (DESIGN.md section 4 / 10)."""
import os, subprocess, json
import verif as V

# (source name, kind, extra flags) of everything --setup builds
HARNESSES = [
    ("c01", "rcfork", ()),
]


def all_harnesses():
    return HARNESSES


def hbin(name):
    for n, k, f in HARNESSES:
        if n == name:
            return V.ensure_harness(n, k, f)
    raise SystemExit("harness %s not registered" % name)


def std_check(ctx, jobs):
    """jobs: list of dict(harness, cases=(quick,thorough), workers=(q,t)|None, max_ops, env, tag, seed_offset)"""
    bins = {}
    for j in jobs:
        j["bin"] = bins.setdefault(j["harness"], hbin(j["harness"]))
    # replay tier: harness name in the replay header is the engine's cfg.name; map both
    by_name = {}
    for j in jobs:
        by_name[j["harness"]] = j["bin"]
        for alias in j.get("aliases", []):
            by_name[alias] = j["bin"]
    V.run_replay_tier(ctx, by_name)
    nw_total = V.workers_default()
    for idx, j in enumerate(jobs):
        job = dict(j)
        job["cases"] = ctx.pick(*j["cases"])
        w = j.get("workers")
        job["workers"] = ctx.pick(*w) if w else nw_total
        job.setdefault("seed_offset", idx)
        V.run_workers(ctx, job)


def replay_one(ctx, path):
    info = V.parse_replay_header(path)
    name = info["harness"]
    src = ALIASES.get(name, name)
    binp = hbin(src)
    env = V.base_env()
    env.update(info["env"])
    wd = os.path.join(ctx.work, "replay")
    r = subprocess.run([binp, "--replay", path, "--workdir", wd, "--repeat", "3"] + ctx.known_args(), env=env)
    if r.returncode:
        print("VIOLATION property=%s replay=%s" % (ctx.pid, path))
    return 1 if r.returncode else 0


# engine cfg.name -> source file name
ALIASES = {"c01_load": "c01"}


def C01(ctx):
    std_check(ctx, [dict(harness="c01", aliases=["c01_load"], cases=(1000, 12000), max_ops=1)])


PROPS = {"C01": C01}
