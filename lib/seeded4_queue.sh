#!/bin/bash
# runs lib/seeded4_one.sh for every "ID X" pair given on stdin/args sequentially with the given VS_COPY: lib/seeded2_queue.sh <copy> "C01 A" "C01 B" ...
copy=$1; shift
for pair in "$@"; do set -- $pair; VS_COPY=$copy bash /verif/lib/seeded4_one.sh $1 $2; done
