#!/usr/bin/env python3
"""Rewrites DESIGN.md section 12.10 (measured quick-tier cost) from the evidence files of the last runs."""
import json, os, re
V = os.path.dirname(os.path.dirname(os.path.abspath(__file__)))
rows = ["| property | tier | seed | evaluations | distinct non-trivial | wall (s) | known findings reported | violations |", "|---|---|---|---|---|---|---|---|"]
for i in range(1, 21):
    pid = "C%02d" % i
    try:
        e = json.load(open(os.path.join(V, "evidence", pid + ".json")))
    except Exception:
        rows.append("| %s | (no evidence file) | | | | | | |" % pid)
        continue
    c = e["coverage"]
    rows.append("| %s | %s | %s | %s | %s | %.0f | %d | %s |" % (pid, e["tier"], e["seed"], c.get("evaluations"), c.get("distinct_nontrivial"), e["wall_s"], len(c.get("known_findings_reported", [])), e.get("violations", 0)))
text = "### 12.10 Measured cost of the last committed runs (from `evidence/*.json`; 16 cores; wall time of a passing run)\n\n" + "\n".join(rows) + "\n"
p = os.path.join(V, "DESIGN.md")
s = open(p).read()
s = re.sub(r"\n### 12\.10 Measured cost.*?(?=\n### |\n## |\Z)", "\n", s, flags=re.S).rstrip("\n") + "\n\n" + text
open(p, "w").write(s)
print("DESIGN.md 12.10 rewritten")
