#!/usr/bin/env python3
"""SENSITIVITY.md from seeded/*/meta.json and seeded/RESULTS.txt (written by lib/seeded_matrix.sh)."""
import json, os, re
V = os.path.dirname(os.path.dirname(os.path.abspath(__file__)))
res = {}
p = os.path.join(V, "seeded", "RESULTS.txt")
if os.path.exists(p):
    cur = None
    for line in open(p, errors="replace"):
        m = re.match(r"seeded=(\S+) check=(\S+) tier=(\S+) seed=(\d+) exit=(\d+) time=(\d+)s :: (\d+) VIOLATION", line)
        if m:
            cur = dict(check=m.group(2), tier=m.group(3), seed=int(m.group(4)), exit=int(m.group(5)), time=int(m.group(6)), nviol=int(m.group(7)), first="")
            res.setdefault(m.group(1), []).append(cur)
        elif cur is not None and line.startswith("  ") and not cur["first"]:
            cur["first"] = line.strip()[:200]
out = ["# SENSITIVITY - seeded changes against the checks", "",
       "Protocol (DESIGN.md 12.5): one independently written change per property (sub-agent given only the property text and a scratch",
       "worktree; each compiles and passes the unedited suite), applied in a scratch worktree, the check of the same property run on the",
       "quick tier with two seeds (`lib/seeded_matrix.sh`). `time` includes rebuilding the library and shrinking the first failure;",
       "`caught` = exit 1 with at least one VIOLATION line. History of each check before it was strengthened is in the last column.", ""]
hist = {"C02": "missed on seeds 1-3 as first built (C08's check caught it on seed 3); generator strengthened (Misc below an object and its parent)",
        "C05": "missed as first built (a round trip that starts from XML cannot see objects the importer drops); import-fidelity oracle + 32-bit PCI domains added",
        "C06": "missed on seeds 1-2 as first built; mutation targets and count-mismatch mutations added",
        "C07": "missed as first built (interleaves only generated outermost-first); arbitrary type order generated",
        "C16": "missed as first built; already-applied entries now exercised in the rollback oracle",
        "C20": "missed as first built (no physical indexes); --po/--pi relation added"}
out += ["| property | seeded change | trigger | seed 1 | seed 2 | first violation reported | history |", "|---|---|---|---|---|---|---|"]
ncaught = 0
for i in range(1, 21):
    pid = "C%02d" % i
    try:
        m = json.load(open(os.path.join(V, "seeded", pid, "meta.json")))
    except Exception:
        m = {}
    runs = {r["seed"]: r for r in res.get(pid, []) if r["check"] == pid}
    def cell(s):
        r = runs.get(s)
        if not r:
            return "not run"
        return ("caught (%d s, %d lines)" % (r["time"], r["nviol"])) if r["exit"] == 1 and r["nviol"] > 0 else ("MISSED (%d s)" % r["time"]) if r["exit"] == 0 else "error exit %d" % r["exit"]
    first = next((r["first"] for r in runs.values() if r.get("first")), "")
    if any(r["exit"] == 1 and r["nviol"] > 0 for r in runs.values()):
        ncaught += 1
    out.append("| %s | %s | %s | %s | %s | %s | %s |" % (pid, str(m.get("summary", "?")).replace("|", "/").replace("\n", " ")[:220], str(m.get("trigger", "?")).replace("|", "/").replace("\n", " ")[:220],
                                                 cell(1), cell(2), first.replace("|", "/"), hist.get(pid, "caught as first built")))
out += ["", "Caught by the check of their own property on at least one of the two seeds: %d of 20." % ncaught, "",
        "Unchanged tree: every check passes on the seeds listed in DESIGN.md 12 / the evidence files; a check that fails on the unchanged tree",
        "was either a genuine defect (repaired or listed in known_findings.json) or a false alarm that was corrected (DESIGN.md 12.3)."]
open(os.path.join(V, "SENSITIVITY.md"), "w").write("\n".join(out) + "\n")
print("SENSITIVITY.md: %d of 20 caught" % ncaught)
