#!/usr/bin/env python3
"""SENSITIVITY.md from seeded/*/meta.json and seeded/RESULTS.txt (written by lib/seeded_matrix.sh)."""
import json, os, re, glob
V = os.path.dirname(os.path.dirname(os.path.abspath(__file__)))
res = {}
p = os.path.join(V, "seeded", "RESULTS.txt")
if os.path.exists(p):
    cur = None
    for line in open(p, errors="replace"):
        m = re.match(r"seeded=(\S+) check=(\S+) tier=(\S+) seed=(\d+) exit=(\d+) time=(\d+)s :: (\d+) VIOLATION", line)
        if m:
            cur = dict(check=m.group(2), tier=m.group(3), seed=int(m.group(4)), exit=int(m.group(5)), time=int(m.group(6)), nviol=int(m.group(7)), first="")
            res.setdefault(m.group(1), []).append(cur)
        elif cur is not None and line.startswith("  ") and not cur["first"]:
            cur["first"] = line.strip()[:200]
hist1 = {"C02": "missed on seeds 1-3 as first built (C08's check caught it on seed 3); generator strengthened (Misc below an object and its parent)",
        "C05": "missed as first built (a round trip that starts from XML cannot see objects the importer drops); import-fidelity oracle + 32-bit PCI domains added",
        "C06": "missed on seeds 1-2 as first built; mutation targets and count-mismatch mutations added",
        "C07": "missed as first built (interleaves only generated outermost-first); arbitrary type order generated",
        "C16": "missed as first built; already-applied entries now exercised in the rollback oracle",
        "C20": "missed as first built (no physical indexes); --po/--pi relation added"}
try:
    notes = json.load(open(os.path.join(V, "seeded", "NOTES.json")))   # dir -> what was strengthened after a miss
except Exception:
    notes = {}
out = ["# SENSITIVITY - seeded changes against the checks", "",
       "Protocol (DESIGN.md 12.5 and 12.8): independently written changes (a fresh sub-agent per property and round, given only the property text, the changes",
       "already made, and a scratch worktree; each change compiles and passes the unedited suite, each was confirmed with `lib/verify_seeded.sh`), applied in a",
       "scratch worktree, the check of the same property run on the quick tier (`lib/seeded_matrix.sh`). `time` includes rebuilding the library and shrinking",
       "the first failure; `caught` = exit 1 with at least one VIOLATION line. `first run` is the verdict of the check as it was when the change arrived.", ""]
dirs = sorted(d for d in os.listdir(os.path.join(V, "seeded")) if os.path.exists(os.path.join(V, "seeded", d, "patch.diff")))
rounds = {}
for d in dirs:
    m = re.match(r"(C\d\d)(?:-r(\d)([AB]))?$", d)
    if m:
        rounds.setdefault(int(m.group(2) or 1), []).append(d)
tot = caught_tot = 0
for rnd in sorted(rounds):
    out += ["## Round %d" % rnd, "", "| change | files | what it does / needs | first run | final run(s) | first violation reported | what was strengthened |", "|---|---|---|---|---|---|---|"]
    nc = 0
    for d in rounds[rnd]:
        try:
            m = json.load(open(os.path.join(V, "seeded", d, "meta.json")))
        except Exception:
            m = {}
        runs = [r for r in res.get(d, []) if r["check"] == d[:3]]
        def cell(r):
            return ("caught (seed %d, %d s)" % (r["seed"], r["time"])) if r["exit"] == 1 and r["nviol"] > 0 else ("MISSED (seed %d, %d s)" % (r["seed"], r["time"])) if r["exit"] == 0 else "error exit %d" % r["exit"]
        fr = m.get("first_run_of_own_check") or []
        if rnd == 1:
            first = "missed" if d in hist1 else "caught"
        else:
            first = ("caught" if fr and fr[0]["exit"] == 1 and fr[0]["violation_lines"] > 0 else "missed") if fr else "?"
        first = notes.get("#first", {}).get(d, first)
        final = "; ".join(cell(r) for r in runs) or "not run"
        fv = next((r["first"] for r in runs if r.get("first")), "")
        ok = any(r["exit"] == 1 and r["nviol"] > 0 for r in runs)
        nc += ok; tot += 1; caught_tot += ok
        what = str(m.get("summary", "?")).replace("|", "/").replace("\n", " ")
        if m.get("trigger"):
            what += " NEEDS: " + str(m["trigger"]).replace("|", "/")
        out.append("| %s | %s | %s | %s | %s | %s | %s |" % (d, ", ".join(m.get("files", []))[:60], what[:330], first, final, fv.replace("|", "/")[:160], notes.get(d, hist1.get(d, "") if rnd == 1 else "")))
    out += ["", "Round %d: %d of %d caught by the check of their own property in the final run." % (rnd, nc, len(rounds[rnd])), ""]
out += ["Total: %d of %d." % (caught_tot, tot), "",
        "Unchanged tree: every check passes on the seeds listed in DESIGN.md 12 / the evidence files; a check that fails on the unchanged tree",
        "was either a genuine defect (repaired or listed in known_findings.json) or a false alarm that was corrected (DESIGN.md 12.3, 12.9)."]
open(os.path.join(V, "SENSITIVITY.md"), "w").write("\n".join(out) + "\n")
print("SENSITIVITY.md: %d of %d caught" % (caught_tot, tot))
