"""What MANIFEST.json claims per property (texts)."""
ENGINES = [
    {"name": "rcfork", "path": "src/common/engine.cpp", "kind_free_text": "rapidcheck generates and shrinks an integer tape; the harness decodes it into a structured case (topology source, configuration, operation history) and runs it with its oracle in a forked child under ASan/UBSan/LSan, so that oracle failures, hwloc assertion aborts, sanitizer reports and hangs all shrink and replay the same way",
     "serves_properties": ["C01"]},
]
TB = "Trusted base: clang 14 sanitizers, rapidcheck, the reference models in /verif/src (independent well-formedness checker wf.hpp written from the property statement over the public API; bit sets converted through hwloc_bitmap_isset only). Exploration only: no claim of absence beyond the generated cases; bounds are stated in the evidence file."
CLAIMS = {
    "C01": dict(engine="rcfork", technique="property-based testing: generated (source, flags, filters) cases against an independent well-formedness oracle + hwloc_topology_check under sanitizers",
                text="Generated-input exploration of load(): synthetic descriptions by grammar and the 27 corpus XML files, crossed with generated flag words and per-type filter assignments (legal and illegal), each judged by an independent transcription of the well-formedness statement plus the built-in checker; failed loads must leave a reusable topology. Thousands of distinct non-trivial configurations per quick run; regressions for the four defects found and fixed are replayed first.",
                note=TB + " Linux/x86 snapshot sources are exercised under C18, XML mutation under C06."),
}
NOT_CLAIMED = {}
