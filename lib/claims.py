"""What MANIFEST.json claims per property (texts)."""
ENGINES = [
    {"name": "rcfork", "path": "src/common/engine.cpp", "kind_free_text": "rapidcheck generates and shrinks an integer tape; the harness decodes it into a structured case (topology source, configuration, operation history) and runs it with its oracle in a forked child under ASan/UBSan/LSan, so that oracle failures, hwloc assertion aborts, sanitizer reports and hangs all shrink and replay the same way",
     "serves_properties": ["C01", "C03", "C04"]},
    {"name": "lf", "path": "src/fuzz", "kind_free_text": "libFuzzer coverage-guided byte fuzzing (clang -fsanitize=fuzzer,address,undefined) with the semantic oracle inside the target; artifacts are replayed three times and classified by failure signature before a VIOLATION is printed",
     "serves_properties": ["C04"]},
]
TB = "Trusted base: clang 14 sanitizers, rapidcheck, the reference models in /verif/src (independent well-formedness checker wf.hpp written from the property statement over the public API; bit sets converted through hwloc_bitmap_isset only). Exploration only: no claim of absence beyond the generated cases; bounds are stated in the evidence file."
CLAIMS = {
    "C01": dict(engine="rcfork", technique="property-based testing: generated (source, flags, filters) cases against an independent well-formedness oracle + hwloc_topology_check under sanitizers",
                text="Generated-input exploration of load(): synthetic descriptions by grammar and the 27 corpus XML files, crossed with generated flag words and per-type filter assignments (legal and illegal), each judged by an independent transcription of the well-formedness statement plus the built-in checker; failed loads must leave a reusable topology. Thousands of distinct non-trivial configurations per quick run; regressions for the four defects found and fixed are replayed first.",
                note=TB + " Linux/x86 snapshot sources are exercised under C18, XML mutation under C06."),
}
CLAIMS["C03"] = dict(engine="rcfork", technique="model-based property testing: lock-step histories of bitmap calls against a reference finite/cofinite set model",
    text="Histories of up to 24 constructor/modifier/combinator calls over three bitmap slots (aliased destinations, boundary-biased indexes up to 70000, all ulong conversions) are executed in lock-step on hwloc and on a reference set model; after every call the bitmap is observed through isset and at the end every query (first/next/last, unset variants, weight, inclusion/equality/intersection, compare, compare_first, compare_inclusion, to/from ulongs) is compared with the model for every slot and ordered pair, so equal sets reached through different representations must behave identically.",
    note=TB)
CLAIMS["C04"] = dict(engine="rcfork+lf", technique="property-based testing (round-trip and snprintf-contract oracles over generated bitmaps and strings) + libFuzzer targets with in-target oracles for the three parsers",
    text="For generated bitmaps (as C03) and the three formats: snprintf(NULL,0)=snprintf(big)=asprintf, every buffer length 0..needed+1 (all up to 96, then sampled) checked with guard frames for bounds, NUL, prefix and return value; print/parse round trip into fresh and dirty destinations; mutated, grammar-generated and arbitrary strings parsed from exactly-sized heap blocks must return 0/-1, not depend on the destination's previous content and be stable under print-then-parse. Three libFuzzer targets apply the same parse oracle to coverage-guided byte strings.",
    note=TB + " List strings whose tokens denote indexes above 10^6 are skipped (allocation cost only, counted in the evidence).")
NOT_CLAIMED = {}
