#!/bin/bash
# regenerate every evidence file from a quick run on the unchanged /repo (seed 1), then the derived documents
out=/var/tmp/final.txt; : > $out
for i in $(seq -w 1 20); do
  t0=$(date +%s); o=$(cd /verif && env -u VERIF_REPO -u VERIF_SEED ./check C$i 2>&1); rc=$?
  echo "C$i quick exit=$rc time=$(( $(date +%s) - t0 ))s violations=$(echo "$o" | grep -c '^VIOLATION') :: $(echo "$o" | grep '^\[C' | tail -1 | cut -c1-140)" >> $out
done
cd /verif && python3-vt lib/validate.py >> $out 2>&1
python3 lib/gen_costs.py >> $out; python3 lib/gen_kf_table.py >> $out; python3 lib/gen_sensitivity.py >> $out
echo DONE >> $out
