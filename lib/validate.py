#!/usr/bin/env python3
"""Validate MANIFEST.json and evidence files against the task schemas (uses the tooling venv's jsonschema)."""
import json, glob, sys
import jsonschema
ok = True
try:
    jsonschema.validate(json.load(open('/verif/MANIFEST.json')), json.load(open('/root/.vp/MANIFEST.schema.json')))
    print("MANIFEST.json valid")
except Exception as e:
    ok = False; print("MANIFEST.json INVALID:", e)
sch = json.load(open('/root/.vp/EVIDENCE.schema.json'))
for f in sorted(glob.glob('/verif/evidence/*.json')):
    try:
        jsonschema.validate(json.load(open(f)), sch); print(f, "valid")
    except Exception as e:
        ok = False; print(f, "INVALID:", str(e)[:300])
sys.exit(0 if ok else 1)
